//! Engine `proccap` (stub).
use crate::Ctx;

pub fn run(ctx: &mut Ctx) {
    let _ = ctx;
    eprintln!("engine proccap not implemented");
    std::process::exit(2);
}
