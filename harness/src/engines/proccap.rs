//! Engine `proccap` (C16): captured child output is complete or an error, never silently
//! truncated; the child is not left running; exit codes; non-captured streams read as null.
//!
//! Each run writes a plan file for `vhelper emit`, runs a script through the real pipeline with
//! chosen caps, injected delays at the runner's hook points and a chosen poll interval, and checks
//! the result against the plan. The event log of the runner gives every run an interleaving
//! signature (coverage, never a verdict).
//!
//! Options: `--vhelper PATH --scratch DIR --stage matrix|random [--dump 1]`.

use std::time::{Duration, Instant};

use naijascript::process::{HostPolicy, ProcessCaps};
use naijascript::verif;
use serde_json::{Value as J, json};

use super::procspec::{Endings, caps_json, endings, hex, lit, lit_ok};
use crate::Ctx;
use crate::pipeline::{self, RunCfg};
use crate::util::{self, Rng};

// ---------------------------------------------------------------------------
// Plan
// ---------------------------------------------------------------------------

/// Position code shared with the helper (harness/src/bin/vhelper.rs::code_byte).
fn code_byte(stream: u8, k: u64) -> u8 {
    let base = if stream == 1 { b'a' } else { b'A' };
    base + ((k + (k / 26) * 7 + (k / 676) * 3) % 26) as u8
}

#[derive(Clone, Debug)]
enum Step {
    Write(u64),
    Sleep(u64),
    Close,
}

#[derive(Clone, Debug, Default)]
struct StreamPlan {
    steps: Vec<Step>,
    patches: Vec<(u64, Vec<u8>)>,
}

impl StreamPlan {
    fn total(&self) -> u64 {
        let mut n = 0;
        for s in &self.steps {
            match s {
                Step::Write(k) => n += k,
                Step::Close => break,
                Step::Sleep(..) => {}
            }
        }
        n
    }

    fn sleep_ms(&self) -> u64 {
        self.steps.iter().map(|s| if let Step::Sleep(ms) = s { *ms } else { 0 }).sum()
    }

    fn writes(&self) -> u64 {
        self.steps.iter().filter(|s| matches!(s, Step::Write(..))).count() as u64
    }

    /// The bytes the child writes to this stream.
    fn content(&self, stream: u8) -> Vec<u8> {
        let n = self.total();
        let mut v: Vec<u8> = (0..n).map(|k| code_byte(stream, k)).collect();
        for (at, bytes) in &self.patches {
            for (j, b) in bytes.iter().enumerate() {
                let pos = at + j as u64;
                if pos < n {
                    v[pos as usize] = *b;
                }
            }
        }
        v
    }

    fn json(&self) -> J {
        J::Array(
            self.steps
                .iter()
                .map(|s| match s {
                    Step::Write(n) => json!({"write": n}),
                    Step::Sleep(ms) => json!({"sleep": ms}),
                    Step::Close => json!({"close": true}),
                })
                .collect(),
        )
    }

    fn patch_json(&self) -> J {
        J::Array(self.patches.iter().map(|(at, b)| json!([at, hex(b)])).collect())
    }
}

#[derive(Clone, Debug, PartialEq)]
enum End {
    Exit(i32),
    Hang,
}

#[derive(Clone, Debug)]
struct Plan {
    out: StreamPlan,
    err: StreamPlan,
    linger_ms: u64,
    end: End,
}

impl Plan {
    fn json(&self) -> J {
        json!({
            "stdout": self.out.json(),
            "stderr": self.err.json(),
            "patch": {"stdout": self.out.patch_json(), "stderr": self.err.patch_json()},
            "linger_ms": self.linger_ms,
            "end": match self.end { End::Exit(c) => json!({"exit": c}), End::Hang => json!({"hang": true}) },
        })
    }

    /// Lower bound-free estimate of how long the child runs by itself.
    fn child_ms(&self) -> u64 {
        self.out.sleep_ms().max(self.err.sleep_ms()) + self.linger_ms
    }
}

#[derive(Clone, Copy, Debug, PartialEq)]
enum Pol {
    Capture,
    Inherit,
    Null,
}

impl Pol {
    fn name(self) -> &'static str {
        match self {
            Pol::Capture => "capture",
            Pol::Inherit => "inherit",
            Pol::Null => "null",
        }
    }
    fn from(i: u64) -> Pol {
        [Pol::Capture, Pol::Inherit, Pol::Null][(i % 3) as usize]
    }
}

const DELAY_POINTS: [&str; 5] =
    ["reader_before_read", "reader_before_overflow", "wait_before_overflow_check", "wait_before_try_wait", "before_join_capture"];

struct Case {
    plan: Plan,
    po: Pol,
    pe: Pol,
    cap: u32,
    poll_ms: u32,
    /// explicit `timeout_ms(..)`; None = the policy's default
    timeout_ms: Option<u64>,
    default_timeout_ms: u32,
    delays: Vec<(&'static str, u64)>,
    label: String,
    /// the child exits by itself, but only this many ms after its timeout has expired
    late_exit_ms: Option<u64>,
    /// while the command runs, every thread it started is hit by a signal whose handler does not
    /// restart system calls: a blocked read/write of the runner fails with EINTR
    signal_storm: bool,
    /// the command gets 256 KiB of `stdin_text` that the child never reads (more than a pipe holds)
    big_stdin: bool,
}

// ---------------------------------------------------------------------------
// Generation
// ---------------------------------------------------------------------------

const CHUNKS: [u64; 7] = [1, 4095, 8191, 8192, 8193, 65536, 65537];
const CAPS: [u32; 14] = [1000, 4095, 4096, 8191, 8192, 8193, 10_000, 16_384, 20_000, 32_768, 65_535, 65_536, 65_537, 70_000];
const EXIT_CODES: [i32; 5] = [0, 1, 2, 127, 255];
/// budget for sleeps inside one stream's plan
const SLEEP_BUDGET_MS: u64 = 300;

fn chunked(rng: &mut Rng, total: u64, chunk: u64, gap_ms: u64) -> Vec<Step> {
    let mut steps = Vec::new();
    let mut left = total;
    let chunk = chunk.max(1);
    let n_chunks = total.div_ceil(chunk);
    // many tiny writes: no sleeping in between, and not more than a few thousand of them
    let gap = if n_chunks * gap_ms > SLEEP_BUDGET_MS { 0 } else { gap_ms };
    let chunk = if n_chunks > 3000 { total.div_ceil(3000) } else { chunk };
    let _ = rng;
    while left > 0 {
        let n = left.min(chunk);
        steps.push(Step::Write(n));
        left -= n;
        if left > 0 && gap > 0 {
            steps.push(Step::Sleep(gap));
        }
    }
    steps
}

fn stream_plan(rng: &mut Rng, total: u64) -> StreamPlan {
    let chunk = match rng.weighted(&[3, 6]) {
        0 => total.max(1),
        _ => *rng.pick(&CHUNKS),
    };
    let gap = *rng.pick(&[0u64, 0, 1, 5, 20]);
    let mut steps = chunked(rng, total, chunk, gap);
    if rng.chance(1, 6) {
        // a pause before the first byte
        steps.insert(0, Step::Sleep(*rng.pick(&[1u64, 5, 20])));
    }
    if rng.chance(1, 4) {
        steps.push(Step::Close);
    }
    StreamPlan { steps, patches: Vec::new() }
}

/// Valid multi-byte characters at offsets that matter (chunk boundaries, the end).
fn add_multibyte(rng: &mut Rng, sp: &mut StreamPlan) {
    let n = sp.total();
    if n < 8 {
        return;
    }
    let chars: [&[u8]; 6] = ["é".as_bytes(), "€".as_bytes(), "😀".as_bytes(), "\u{feff}".as_bytes(), "\u{2028}".as_bytes(), "\u{85}".as_bytes()];
    for _ in 0..rng.range(1, 3) {
        let c = *rng.pick(&chars);
        let at = match rng.below(4) {
            0 => 8191u64.saturating_sub(rng.below(c.len() as u64)),
            1 => n - c.len() as u64,
            2 => 0,
            _ => rng.below(n - 4),
        };
        if at + c.len() as u64 <= n && !sp.patches.iter().any(|(p, b)| at < p + b.len() as u64 + 4 && *p < at + c.len() as u64 + 4) {
            sp.patches.push((at, c.to_vec()));
        }
    }
}

fn add_invalid(rng: &mut Rng, sp: &mut StreamPlan) -> bool {
    let n = sp.total();
    if n == 0 {
        return false;
    }
    let bad: [&[u8]; 5] = [&[0xFF], &[0x80], &[0xC3], &[0xE2, 0x82], &[0xC0, 0xAF]];
    let b = *rng.pick(&bad);
    let at = match rng.below(3) {
        0 => 0,
        1 => n.saturating_sub(b.len() as u64),
        _ => rng.below(n),
    };
    if at + b.len() as u64 > n {
        return false;
    }
    sp.patches.retain(|(p, pb)| at + b.len() as u64 + 4 <= *p || p + pb.len() as u64 + 4 <= at);
    // a lone lead byte is only invalid when an ASCII letter (or the end) follows: true here
    sp.patches.push((at, b.to_vec()));
    true
}

fn draw_delays(rng: &mut Rng) -> Vec<(&'static str, u64)> {
    let mut v = Vec::new();
    for p in DELAY_POINTS {
        let ms = [0u64, 1, 20, 200][rng.weighted(&[60, 14, 16, 10])];
        if ms > 0 {
            v.push((p, ms));
        }
    }
    v
}

/// Keeps a run short: the reader delay is paid once per read.
fn tame_delays(case: &mut Case) {
    let reads = |sp: &StreamPlan, pol: Pol| if pol == Pol::Capture { sp.writes() + sp.total() / 8192 + 2 } else { 0 };
    let n = reads(&case.plan.out, case.po).max(reads(&case.plan.err, case.pe));
    for d in &mut case.delays {
        if d.0 == "reader_before_read" {
            while d.1 > 1 && d.1 * n > 1500 {
                d.1 = if d.1 > 20 { 20 } else { 1 };
            }
            if d.1 * n > 1500 {
                d.1 = 0;
            }
        }
    }
    case.delays.retain(|d| d.1 > 0);
}

fn base_case(plan: Plan, po: Pol, pe: Pol, cap: u32, label: &str) -> Case {
    Case { plan, po, pe, cap, poll_ms: 10, timeout_ms: None, default_timeout_ms: 900_000, delays: Vec::new(), label: label.to_string(), late_exit_ms: None, signal_storm: false, big_stdin: false }
}

fn one_write(n: u64) -> StreamPlan {
    StreamPlan { steps: if n > 0 { vec![Step::Write(n)] } else { Vec::new() }, patches: Vec::new() }
}

const MATRIX: u64 = 9 * 3 * 5;
const DIRECTED: u64 = 48 + LATE_EXIT + STORM + EXTRA;
const EXTRA: u64 = 8;
const LATE_EXIT: u64 = 8;
const STORM: u64 = 6;
pub const MATRIX_STAGE_COUNT: u64 = MATRIX + DIRECTED;

fn matrix_case(rng: &mut Rng, idx: u64) -> Case {
    if idx < MATRIX {
        // all nine policy pairs x {under, at, over} x exit codes
        let po = Pol::from(idx % 3);
        let pe = Pol::from((idx / 3) % 3);
        let rel = (idx / 9) % 3;
        let code = EXIT_CODES[((idx / 27) % 5) as usize];
        let cap = *rng.pick(&[1000u32, 4096, 8192, 9000]);
        let size = |rng: &mut Rng| -> u64 {
            match rel {
                0 => u64::from(cap) - 1 - rng.below(200),
                1 => u64::from(cap),
                _ => u64::from(cap) + 1 + rng.below(200),
            }
        };
        let (a, b) = (size(rng), size(rng));
        // an inherited stream goes to the worker's own stderr file: keep that small
        let a = if po == Pol::Inherit { a.min(64) } else { a };
        let b = if pe == Pol::Inherit { b.min(64) } else { b };
        let plan = Plan { out: one_write(a), err: one_write(b), linger_ms: 0, end: End::Exit(code) };
        let mut c = base_case(plan, po, pe, cap, &format!("matrix.{}", ["under", "at", "over"][rel as usize]));
        c.poll_ms = rng.range(1, 20) as u32;
        return c;
    }
    if idx >= MATRIX + 48 + LATE_EXIT + STORM {
        let j = idx - MATRIX - 48 - LATE_EXIT - STORM;
        return match j {
            // more standard input than a pipe holds, never read: the deadline still applies
            0 | 1 => {
                let mut c = base_case(Plan { out: one_write(10), err: one_write(10), linger_ms: 0, end: End::Hang }, Pol::Capture, Pol::Capture, 4096, "directed.unread_stdin_and_hang");
                c.timeout_ms = Some([200u64, 500][j as usize]);
                c.big_stdin = true;
                c
            }
            2 | 3 => {
                let timeout = [300u64, 600][(j - 2) as usize];
                let mut c = base_case(Plan { out: one_write(10), err: one_write(10), linger_ms: timeout + 1200, end: End::Exit(0) }, Pol::Capture, Pol::Null, 4096, "directed.unread_stdin_and_late_exit");
                c.timeout_ms = Some(timeout);
                c.late_exit_ms = Some(1200);
                c.big_stdin = true;
                c
            }
            // the capture limit still applies while the writer is blocked
            4 => {
                let mut c = base_case(Plan { out: one_write(30_000), err: one_write(10), linger_ms: 800, end: End::Exit(0) }, Pol::Capture, Pol::Capture, 4096, "directed.unread_stdin_and_overflow");
                c.big_stdin = true;
                c
            }
            // streams that begin with characters some text layers drop: byte order mark, line separator
            5 | 6 | 7 => {
                let lead: &[u8] = [&b"\xef\xbb\xbf"[..], "\u{2028}".as_bytes(), "\u{feff}\u{feff}".as_bytes()][(j - 5) as usize];
                let mut out = one_write(100);
                out.patches.push((0, lead.to_vec()));
                let mut err = one_write(100);
                err.patches.push((0, lead.to_vec()));
                base_case(Plan { out, err, linger_ms: 0, end: End::Exit(0) }, Pol::Capture, Pol::Capture, 4096, "directed.leading_special_character")
            }
            _ => unreachable!(),
        };
    }
    if idx >= MATRIX + 48 + LATE_EXIT {
        // A read of a captured stream that fails while the child still has output to send must end
        // the run with an error; what has been read so far is not the stream.
        let j = idx - MATRIX - 48 - LATE_EXIT;
        let gap = [300u64, 400, 250][(j % 3) as usize];
        let mk = || StreamPlan { steps: vec![Step::Write(1000), Step::Sleep(gap), Step::Write(1000), Step::Sleep(gap / 2), Step::Write(500)], patches: Vec::new() };
        let (po, pe) = if j < 3 { (Pol::Capture, Pol::Null) } else { (Pol::Capture, Pol::Capture) };
        let mut c = base_case(Plan { out: mk(), err: if pe == Pol::Capture { mk() } else { one_write(10) }, linger_ms: 0, end: End::Exit(0) }, po, pe, 20_000, "directed.read_fails_with_EINTR");
        c.signal_storm = true;
        return c;
    }
    if idx >= MATRIX + 48 {
        // The child runs past its timeout and then exits by itself (it lingers `late` ms longer):
        // the wait loop must notice the deadline, not the exit that follows it.
        let j = idx - MATRIX - 48;
        // deadlines spread over 0.2-1.3 s: an implementation that polls with growing or coarse
        // intervals has its gaps at different places
        let timeout = [330u64, 650, 970, 1290, 200, 450, 800, 1100][(j % 8) as usize];
        let late = 200u64;
        let pol = if j % 2 == 0 { Pol::Capture } else { Pol::Null };
        let mut c = base_case(Plan { out: one_write(10), err: one_write(10), linger_ms: timeout + late, end: End::Exit(0) }, pol, pol, 4096, "directed.exits_by_itself_after_the_timeout");
        c.timeout_ms = Some(timeout);
        c.late_exit_ms = Some(late);
        return c;
    }
    // directed schedules
    let k = (idx - MATRIX) % 16;
    let which = if rng.chance(1, 2) { 1u8 } else { 2 };
    let cap = *rng.pick(&[1000u32, 4096, 8192, 20_000]);
    let over = u64::from(cap) + *rng.pick(&[1u64, 100, 8192, 30_000]);
    let streams = |n: u64, other: u64| if which == 1 { (one_write(n), one_write(other)) } else { (one_write(other), one_write(n)) };
    let mut c = match k {
        0 | 1 => {
            // child exits before the reader raises the flag: only the post-exit re-check can catch it
            let (out, err) = streams(over, 10);
            let mut c = base_case(Plan { out, err, linger_ms: 0, end: End::Exit(0) }, Pol::Capture, Pol::Capture, cap, "directed.exit_before_overflow_raised");
            c.delays = vec![("reader_before_overflow", 200)];
            c
        }
        2 | 3 => {
            // child lingers: the wait loop sees the flag and kills
            let (out, err) = streams(over, 10);
            base_case(Plan { out, err, linger_ms: 300, end: End::Exit(0) }, Pol::Capture, Pol::Capture, cap, "directed.overflow_seen_by_wait_loop")
        }
        4 | 5 => {
            // flag raised between the overflow check and try_wait
            let (out, err) = streams(over, 10);
            let mut c = base_case(Plan { out, err, linger_ms: 0, end: End::Exit(0) }, Pol::Capture, Pol::Capture, cap, "directed.flag_between_check_and_try_wait");
            c.delays = vec![("wait_before_try_wait", 200), ("reader_before_overflow", 20)];
            c
        }
        6 => {
            // both streams over
            let mut c = base_case(Plan { out: one_write(over), err: one_write(over + 7), linger_ms: 0, end: End::Exit(0) }, Pol::Capture, Pol::Capture, cap, "directed.both_over");
            c.delays = if rng.chance(1, 2) { vec![("reader_before_overflow", 20)] } else { Vec::new() };
            c
        }
        7 => {
            // never finishes, output under the cap
            let (out, err) = streams(u64::from(cap) / 2, 10);
            let mut c = base_case(Plan { out, err, linger_ms: 0, end: End::Hang }, Pol::from(rng.below(3)), Pol::from(rng.below(3)), cap, "directed.hang_under_cap");
            c.timeout_ms = Some(*rng.pick(&[30u64, 100, 300]));
            c
        }
        8 => {
            // never finishes, output over the cap: either error is right
            let (out, err) = streams(over, 10);
            let mut c = base_case(Plan { out, err, linger_ms: 0, end: End::Hang }, Pol::Capture, Pol::Capture, cap, "directed.hang_over_cap");
            c.timeout_ms = Some(*rng.pick(&[30u64, 100, 300]));
            c
        }
        9 | 10 => {
            // invalid UTF-8 within the cap
            let (mut out, mut err) = streams(u64::from(cap) - rng.below(500), 10);
            add_invalid(rng, if which == 1 { &mut out } else { &mut err });
            base_case(Plan { out, err, linger_ms: 0, end: End::Exit(*rng.pick(&EXIT_CODES)) }, Pol::Capture, Pol::Capture, cap, "directed.invalid_utf8")
        }
        11 => {
            // valid multi-byte text across read-chunk boundaries, exactly at the cap
            let cap = *rng.pick(&[8192u32, 16_384, 20_000]);
            let (mut out, mut err) = streams(u64::from(cap), 10);
            add_multibyte(rng, &mut out);
            add_multibyte(rng, &mut err);
            base_case(Plan { out, err, linger_ms: 0, end: End::Exit(0) }, Pol::Capture, Pol::Capture, cap, "directed.multibyte_at_cap")
        }
        12 => {
            // more than a pipe buffer, exactly at / one over a large cap, slow reader
            let cap = *rng.pick(&[65_536u32, 65_537, 70_000]);
            let n = u64::from(cap) + rng.below(2);
            let (out, err) = streams(n, 10);
            let mut c = base_case(Plan { out, err, linger_ms: 0, end: End::Exit(0) }, Pol::Capture, Pol::Capture, cap, "directed.pipe_buffer");
            c.delays = vec![("reader_before_read", 20)];
            c
        }
        13 => {
            // stream closed early, child lingers
            let (mut out, mut err) = streams(u64::from(cap) - 1, 10);
            out.steps.push(Step::Close);
            err.steps.push(Step::Close);
            base_case(Plan { out, err, linger_ms: 50, end: End::Exit(*rng.pick(&EXIT_CODES)) }, Pol::Capture, Pol::Capture, cap, "directed.close_then_linger")
        }
        14 => {
            // over the cap on a stream that is not captured: not an error
            let (out, err) = streams(over, 10);
            let (po, pe) = if which == 1 { (Pol::Null, Pol::Capture) } else { (Pol::Capture, Pol::Null) };
            base_case(Plan { out, err, linger_ms: 0, end: End::Exit(*rng.pick(&EXIT_CODES)) }, po, pe, cap, "directed.over_on_noncaptured")
        }
        _ => {
            // slow join: the reader is still draining when the child has gone
            let (out, err) = streams(over, u64::from(cap));
            let mut c = base_case(Plan { out, err, linger_ms: 0, end: End::Exit(3) }, Pol::Capture, Pol::Capture, cap, "directed.slow_reader_and_join");
            c.delays = vec![("reader_before_read", 20), ("before_join_capture", 20), ("reader_before_overflow", 200)];
            c
        }
    };
    c.poll_ms = rng.range(1, 20) as u32;
    tame_delays(&mut c);
    c
}

fn random_case(rng: &mut Rng) -> Case {
    let cap = *rng.pick(&CAPS);
    let capu = u64::from(cap);
    let po = [Pol::Capture, Pol::Inherit, Pol::Null][rng.weighted(&[7, 1, 2])];
    let pe = [Pol::Capture, Pol::Inherit, Pol::Null][rng.weighted(&[6, 1, 2])];
    let size = |rng: &mut Rng, pol: Pol| -> u64 {
        if pol == Pol::Inherit {
            return *rng.pick(&[0u64, 1, 64, 2000]);
        }
        match rng.weighted(&[1, 2, 2, 3, 4, 3, 2, 2, 2, 2]) {
            0 => 0,
            1 => 1 + rng.below(100),
            2 => capu.saturating_sub(8192),
            3 => capu - 1,
            4 => capu,
            5 => capu + 1,
            6 => capu + 8192,
            7 => capu + 1 + rng.below(capu),
            8 => 2 * capu + rng.below(100_000),
            _ => rng.below(capu),
        }
    };
    let (a, b) = (size(rng, po), size(rng, pe));
    let mut out = stream_plan(rng, a);
    let mut err = stream_plan(rng, b);
    if rng.chance(1, 4) {
        add_multibyte(rng, &mut out);
    }
    if rng.chance(1, 4) {
        add_multibyte(rng, &mut err);
    }
    if rng.chance(1, 8) {
        let first = rng.chance(1, 2);
        add_invalid(rng, if first { &mut out } else { &mut err });
    }
    let hang = rng.chance(1, 12);
    let end = if hang { End::Hang } else { End::Exit(*rng.pick(&EXIT_CODES)) };
    let linger_ms = *rng.pick(&[0u64, 0, 50]);
    let mut c = base_case(Plan { out, err, linger_ms, end }, po, pe, cap, "random");
    c.poll_ms = rng.range(1, 20) as u32;
    if hang {
        c.timeout_ms = Some(*rng.pick(&[30u64, 100, 300]));
    } else {
        // finishing children: the timeout is at least 60 s, the child needs well under a second
        c.timeout_ms = *rng.pick(&[None, None, Some(60_000u64), Some(600_000)]);
        c.default_timeout_ms = *rng.pick(&[120_000u32, 900_000]);
    }
    c.delays = draw_delays(rng);
    tame_delays(&mut c);
    c
}

// ---------------------------------------------------------------------------
// Running and checking
// ---------------------------------------------------------------------------

fn script_of(vhelper: &str, plan_path: &str, c: &Case, style: usize) -> String {
    let mut s = String::new();
    s.push_str(&format!("make c get command({})\nc.arg(\"emit\")\nc.arg({})\n", lit(vhelper), lit(plan_path)));
    s.push_str(&format!("c.stdout_{}()\nc.stderr_{}()\n", c.po.name(), c.pe.name()));
    if c.big_stdin {
        s.push_str("make zz_t get \"0123456789abcdef\"\nmake zz_k get 0\njasi (zz_k small pass 14) start\n    zz_t get zz_t add zz_t\n    zz_k get zz_k add 1\nend\nc.stdin_text(zz_t)\n");
    } else {
        s.push_str("c.stdin_null()\n");
    }
    if let Some(t) = c.timeout_ms {
        s.push_str(&format!("c.timeout_ms({t})\n"));
    }
    // Where the result is produced and how it reaches the six `shout`s varies: at top level, as the
    // return value of a function, as strings extracted inside a function and returned in an array,
    // or pushed into an outer array from a loop body; unrelated string work follows before the
    // result is looked at, so that a result left in a frame that has ended would be overwritten.
    const CHURN: &str = "make zz_junk get []\nmake zz_j get 0\njasi (zz_j small pass 24) start\n    zz_junk.push(\"churn-\" add zz_j add \"-ZZZZZZZZZZZZZZZZZZZZZZZZZZZZZZZZZZZZZZZZ\")\n    zz_j get zz_j add 1\nend\n";
    const SHOW_R: &str = "shout(r.success())\nshout(r.exit_code())\nshout(typeof(r.stdout()))\nshout(r.stdout())\nshout(typeof(r.stderr()))\nshout(r.stderr())\n";
    match style {
        1 => {
            s.push_str("do zz_go() start\n    return c.run()\nend\nmake r get zz_go()\n");
            s.push_str(CHURN);
            s.push_str(SHOW_R);
        }
        2 => {
            s.push_str("do zz_go() start\n    make r0 get c.run()\n    return [r0.success(), r0.exit_code(), r0.stdout(), r0.stderr()]\nend\nmake a get zz_go()\n");
            s.push_str(CHURN);
            s.push_str("shout(a[0])\nshout(a[1])\nshout(typeof(a[2]))\nshout(a[2])\nshout(typeof(a[3]))\nshout(a[3])\n");
        }
        3 => {
            s.push_str("make rs get []\nmake zz_i get 0\njasi (zz_i small pass 1) start\n    zz_i get zz_i add 1\n    rs.push(c.run())\nend\n");
            s.push_str(CHURN);
            s.push_str("make r get rs[0]\n");
            s.push_str(SHOW_R);
        }
        4 => {
            // the result is first bound to a local of the loop body, then stored outside it
            s.push_str("make rs get []\nmake zz_i get 0\njasi (zz_i small pass 1) start\n    zz_i get zz_i add 1\n    make res get c.run()\n    rs.push(res)\nend\n");
            s.push_str(CHURN);
            s.push_str("make r get rs[0]\n");
            s.push_str(SHOW_R);
        }
        5 => {
            // bound to a local of a function and returned through it
            s.push_str("do zz_go() start\n    make res get c.run()\n    make again get res\n    return again\nend\nmake r get zz_go()\n");
            s.push_str(CHURN);
            s.push_str(SHOW_R);
        }
        _ => {
            s.push_str("make r get c.run()\n");
            s.push_str(SHOW_R);
        }
    }
    s
}

/// Is the helper that was started for `plan_path` still there (and not merely a zombie)?
fn helper_alive(pid: u64, plan_path: &str) -> &'static str {
    if pid == 0 {
        return "gone";
    }
    let rc = unsafe { libc::kill(pid as i32, 0) };
    if rc != 0 && std::io::Error::last_os_error().raw_os_error() == Some(libc::ESRCH) {
        return "gone";
    }
    // the pid exists: is it still our helper (pids are reused)?
    let stat = std::fs::read_to_string(format!("/proc/{pid}/stat")).unwrap_or_default();
    let Some(rest) = stat.rsplit_once(')').map(|(_, r)| r.trim_start()) else { return "gone" };
    let mut it = rest.split_whitespace();
    let state = it.next().unwrap_or("?");
    let ppid: u64 = it.next().and_then(|p| p.parse().ok()).unwrap_or(0);
    if ppid != u64::from(std::process::id()) {
        return "gone";
    }
    if state == "Z" || state == "X" {
        return "zombie";
    }
    // a live child of this worker with that pid: the worker runs one command at a time, so it is
    // the helper started for `plan_path`
    let _ = plan_path;
    "alive"
}

fn signature(events: &[verif::ProcEvent]) -> String {
    let mut seen: Vec<String> = Vec::new();
    for e in events {
        let code = match e.kind {
            "reader_overflow" => format!("ovf{}", e.stream),
            "reader_eof" => format!("eof{}", e.stream),
            "join_recheck" => format!("join{}", e.stream),
            "wait_saw_exit" => "EXIT".to_string(),
            "wait_saw_overflow" => "SAWOVF".to_string(),
            "wait_timeout" => "TIMEOUT".to_string(),
            _ => continue,
        };
        if !seen.contains(&code) {
            seen.push(code);
        }
    }
    seen.join(">")
}

fn first_seq(events: &[verif::ProcEvent], kind: &str) -> Option<u64> {
    events.iter().find(|e| e.kind == kind).map(|e| e.seq)
}

fn classify_capture(stream: &str, other_alphabet: std::ops::RangeInclusive<u8>, got: &[u8], want: &[u8]) -> (String, J) {
    let k = got.iter().zip(want).position(|(a, b)| a != b).unwrap_or(got.len().min(want.len()));
    let sig = if got.len() < want.len() && want.starts_with(got) {
        format!("truncated-success|{stream}")
    } else if got.iter().any(|b| other_alphabet.contains(b)) {
        "cross-stream".to_string()
    } else if got.len() > want.len() && got.starts_with(want) {
        format!("extra-bytes|{stream}")
    } else {
        format!("corrupted-capture|{stream}")
    };
    (
        sig,
        json!({"stream": stream, "captured_len": got.len(), "written_len": want.len(), "first_difference_at": k,
               "captured_there": String::from_utf8_lossy(&got[k.min(got.len())..(k + 24).min(got.len())]),
               "written_there": String::from_utf8_lossy(&want[k.min(want.len())..(k + 24).min(want.len())])}),
    )
}

extern "C" fn storm_handler(_: libc::c_int) {}

fn thread_ids() -> Vec<i32> {
    std::fs::read_dir("/proc/self/task").map(|d| d.filter_map(|e| e.ok()?.file_name().to_str()?.parse().ok()).collect()).unwrap_or_default()
}

/// Until `stop` is set: every 2 ms, SIGUSR1 (handler without SA_RESTART) to every thread of this
/// process that did not exist when the storm began. Returns how many signals were sent.
fn signal_storm(stop: std::sync::Arc<std::sync::atomic::AtomicBool>) -> std::thread::JoinHandle<u64> {
    unsafe {
        let mut sa: libc::sigaction = std::mem::zeroed();
        sa.sa_sigaction = storm_handler as usize;
        sa.sa_flags = 0;
        libc::sigemptyset(&mut sa.sa_mask);
        libc::sigaction(libc::SIGUSR1, &sa, std::ptr::null_mut());
    }
    let before = thread_ids();
    std::thread::spawn(move || {
        let me = unsafe { libc::syscall(libc::SYS_gettid) } as i32;
        let pid = std::process::id() as i32;
        let mut sent = 0u64;
        while !stop.load(std::sync::atomic::Ordering::Relaxed) {
            for tid in thread_ids() {
                if tid != me && !before.contains(&tid) {
                    unsafe { libc::syscall(libc::SYS_tgkill, pid, tid, libc::SIGUSR1) };
                    sent += 1;
                }
            }
            std::thread::sleep(std::time::Duration::from_millis(2));
        }
        sent
    })
}

fn run_case(ctx: &mut Ctx, e: &Endings, vhelper: &str, scratch: &str, stage: &str, idx: u64, dump: bool) {
    let mut rng = Rng::new(util::case_seed(ctx.seed, &format!("proccap-{stage}"), idx));
    let case = if stage == "matrix" { matrix_case(&mut rng, idx) } else { random_case(&mut rng) };
    let plan_path = format!("{scratch}/p/{}{idx}.json", &stage[..1]);
    let pid_path = format!("{plan_path}.pid");
    let plan_json = case.plan.json();
    if std::fs::write(&plan_path, plan_json.to_string()).is_err() {
        ctx.out.inconclusive(idx, "cannot write plan file", json!({"path": plan_path}));
        return;
    }
    let _ = std::fs::remove_file(&pid_path);
    let style = Rng::new(util::case_seed(ctx.seed, &format!("proccap-style-{stage}"), idx)).weighted(&[4, 2, 2, 2, 2, 2]);
    let src = script_of(vhelper, &plan_path, &case, style);
    let mut caps = ProcessCaps::defaults();
    caps.max_capture_bytes_per_stream = case.cap;
    caps.wait_poll_ms = case.poll_ms;
    caps.default_timeout_ms = case.default_timeout_ms;
    let delays_json: J = J::Array(case.delays.iter().map(|(p, ms)| json!([p, ms])).collect());
    let replay = json!({"engine": "proccap", "stage": stage, "seed": ctx.seed, "idx": idx, "label": case.label, "src": src,
                        "plan": plan_json, "caps": caps_json(&caps), "delays": delays_json,
                        "stdout_policy": case.po.name(), "stderr_policy": case.pe.name()});
    if dump {
        eprintln!("### {stage} {idx} {replay}");
    }

    let policy = HostPolicy { allow_process: true, process: caps };
    let storm_stop = std::sync::Arc::new(std::sync::atomic::AtomicBool::new(false));
    let storm = if case.signal_storm { Some(signal_storm(storm_stop.clone())) } else { None };
    verif::proc_log_start(&case.delays);
    let t0 = Instant::now();
    let result = util::guarded(|| pipeline::run_source_with_policy(&src, RunCfg::default(), policy));
    let elapsed_ms = t0.elapsed().as_millis() as u64;
    let events = verif::proc_log_take();
    storm_stop.store(true, std::sync::atomic::Ordering::Relaxed);
    let storm_signals = storm.map(|h| h.join().unwrap_or(0));
    let real = match result {
        Ok(r) => r,
        Err((msg, loc)) => {
            let sig = format!("panic|{}|{}", util::normalise_msg(&msg), util::panic_site(&loc));
            ctx.out.fail(idx, &sig, json!({"panic": msg, "at": loc}), replay);
            return;
        }
    };
    if !real.accepted {
        ctx.out.inconclusive(idx, "script rejected by the front end", json!({"parse": format!("{:?}", real.parse.first()), "sem": format!("{:?}", real.sem.first())}));
        return;
    }
    let ending = real.ending.as_str();
    let sig_inter = signature(&events);

    // the child must be gone, whatever the outcome was
    let pid = events
        .iter()
        .find(|ev| ev.kind == "spawned")
        .map(|ev| ev.value)
        .or_else(|| std::fs::read_to_string(&pid_path).ok().and_then(|t| t.trim().parse().ok()))
        .unwrap_or(0);
    let t_live = Instant::now();
    let mut state = helper_alive(pid, &plan_path);
    while state == "alive" && t_live.elapsed() < Duration::from_secs(5) {
        std::thread::sleep(Duration::from_millis(20));
        state = helper_alive(pid, &plan_path);
    }
    if state == "alive" {
        unsafe { libc::kill(pid as i32, libc::SIGKILL) };
        ctx.out.fail(idx, "child-left-running", json!({"pid": pid, "ending": ending, "interleaving": sig_inter, "waited_ms": t_live.elapsed().as_millis() as u64}), replay);
        return;
    }
    if state == "zombie" {
        ctx.out.tag("child.zombie_after_return");
    }
    let _ = std::fs::remove_file(&plan_path);
    let _ = std::fs::remove_file(&pid_path);

    if ending == e.spawn && !case.signal_storm {
        ctx.out.inconclusive(idx, "helper could not be started", json!({"runtime": format!("{:?}", real.runtime.first())}));
        return;
    }
    if pid == 0 {
        ctx.out.inconclusive(idx, "no spawn event and no pid file", json!({"ending": ending}));
        return;
    }

    // expectation from the plan
    let cap = u64::from(case.cap);
    let want_out = case.plan.out.content(1);
    let want_err = case.plan.err.content(2);
    let cap_out = case.po == Pol::Capture;
    let cap_err = case.pe == Pol::Capture;
    let over_out = cap_out && want_out.len() as u64 > cap;
    let over_err = cap_err && want_err.len() as u64 > cap;
    let bad_out = cap_out && std::str::from_utf8(&want_out).is_err();
    let bad_err = cap_err && std::str::from_utf8(&want_err).is_err();
    let multibyte = !case.plan.out.patches.is_empty() || !case.plan.err.patches.is_empty();
    let hang = case.plan.end == End::Hang;
    if case.signal_storm {
        let sent = storm_signals.unwrap_or(0);
        ctx.out.tag_n("storm.signals_sent", sent);
        if ending != "ok" {
            // any runtime error is a correct report of a failed read or write
            ctx.out.tag(&format!("verdict.storm.error.{ending}"));
            if sent > 0 {
                ctx.out.nontrivial(util::hash64(format!("storm|{idx}").as_bytes()));
            }
            return;
        }
        if real.output.len() != 6 {
            ctx.out.fail(idx, "result-shape", json!({"output_len": real.output.len()}), replay);
            return;
        }
        let o = &real.output;
        for (stream, captured, text, want) in [("stdout", case.po == Pol::Capture, &o[3], &case.plan.out.content(1)), ("stderr", case.pe == Pol::Capture, &o[5], &case.plan.err.content(2))] {
            if captured && text.as_bytes() != &want[..] {
                ctx.out.fail(idx, &format!("failed-read-reported-as-complete-stream|{stream}"), json!({"got_bytes": text.len(), "written_bytes": want.len(), "signals_sent": sent}), replay);
                return;
            }
        }
        ctx.out.tag(if sent > 0 { "verdict.storm.complete_although_signalled" } else { "verdict.storm.no_signal_delivered" });
        return;
    }
    if let Some(late) = case.late_exit_ms {
        // allowed: the timeout error. An ordinary result means the deadline went unnoticed for
        // `late` ms; that can be a descheduled wait loop once, so the case is run three times.
        if ending == e.timeout {
            ctx.out.tag("verdict.late_exit_reported_as_timeout");
            ctx.out.nontrivial(util::hash64(format!("late|{idx}").as_bytes()));
            return;
        }
        if ending != "ok" {
            ctx.out.fail(idx, &format!("wrong-error|{ending}"), json!({"late_exit_ms": late}), replay);
            return;
        }
        let mut ok_again = 0;
        for _ in 0..2 {
            let policy = HostPolicy { allow_process: true, process: caps };
            verif::proc_log_start(&case.delays);
            let r = util::guarded(|| pipeline::run_source_with_policy(&src, RunCfg::default(), policy));
            let _ = verif::proc_log_take();
            if matches!(r, Ok(ref x) if x.ending == "ok") {
                ok_again += 1;
            }
        }
        if ok_again == 2 {
            ctx.out.fail(idx, "timeout-expired-unnoticed", json!({"timeout_ms": case.timeout_ms, "child_exits_ms_after_timeout": late, "runs": 3, "ordinary_results": 3}), replay);
        } else {
            ctx.out.inconclusive(idx, "late exit reported as an ordinary result once (descheduled wait loop?)", json!({"late_exit_ms": late}));
        }
        return;
    }
    let mut allowed: Vec<&str> = Vec::new();
    if hang {
        allowed.push(e.timeout);
        if over_out || over_err {
            allowed.push(e.limit);
        }
    } else if over_out || over_err {
        allowed.push(e.limit);
        // two conditions at once: either error is a correct report. A second over-cap stream is cut
        // at an arbitrary byte, which can split a character.
        if bad_out || bad_err || (over_out && over_err && multibyte) {
            allowed.push(e.utf8);
        }
    } else if bad_out || bad_err {
        allowed.push(e.utf8);
    } else {
        allowed.push("ok");
    }
    let detail_base = json!({"ending": ending, "allowed": allowed, "interleaving": sig_inter, "elapsed_ms": elapsed_ms,
                             "stdout_written": want_out.len(), "stderr_written": want_err.len(), "cap": cap});

    if !allowed.contains(&ending) {
        if ending == e.timeout {
            let t = case.timeout_ms.unwrap_or(u64::from(case.default_timeout_ms));
            if elapsed_ms < t {
                ctx.out.fail(idx, "premature-timeout", detail_base, replay);
            } else {
                ctx.out.inconclusive(idx, "finishing child ran into its (huge) timeout: machine too slow", detail_base);
            }
            return;
        }
        let sig = if ending == "ok" {
            if hang {
                "hang-reported-as-success".to_string()
            } else if over_out || over_err {
                format!("overflow-reported-as-success|{}", if over_out { "stdout" } else { "stderr" })
            } else {
                "invalid-utf8-success".to_string()
            }
        } else if allowed == ["ok"] {
            format!("spurious-error|{ending}")
        } else {
            format!("wrong-error|{ending}")
        };
        ctx.out.fail(idx, &sig, detail_base, replay);
        return;
    }
    // the error names a stream: when exactly one captured stream is at fault it must not be the other
    if !hang && (ending == e.limit || ending == e.utf8) {
        let (a, b) = if ending == e.limit { (over_out, over_err) } else { (bad_out && !over_err, bad_err && !over_out) };
        let only = if ending == e.utf8 && (over_out || over_err) { None } else if a && !b { Some(("stdout", "stderr")) } else if b && !a { Some(("stderr", "stdout")) } else { None };
        let label: String = real.runtime.iter().find(|d| d.severity == "error").map(|d| d.labels.iter().map(|l| l.2.clone()).collect::<Vec<_>>().join(" | ")).unwrap_or_default();
        if let Some((right, wrong)) = only {
            if label.contains(wrong) && !label.contains(right) {
                let mut d = detail_base.clone();
                d["label"] = json!(label);
                d["stream_at_fault"] = json!(right);
                ctx.out.fail(idx, "wrong-stream-in-error", d, replay);
                return;
            }
            if label.contains(right) {
                ctx.out.tag("error_label_names_the_stream_at_fault");
            }
        }
    }
    if hang && ending == e.timeout {
        let t = case.timeout_ms.unwrap_or(0);
        if elapsed_ms < t {
            ctx.out.fail(idx, "premature-timeout", detail_base, replay);
            return;
        }
    }

    if ending == "ok" {
        let End::Exit(code) = case.plan.end else { unreachable!() };
        if real.output.len() != 6 {
            ctx.out.fail(idx, "result-shape", json!({"output_len": real.output.len()}), replay);
            return;
        }
        let o = &real.output;
        if (o[1] == "97" || o[1] == "98") && code != 97 && code != 98 {
            ctx.out.inconclusive(idx, "helper reported an internal failure (exit 97/98)", json!({"exit_code": o[1]}));
            return;
        }
        if o[0] != format!("{}", code == 0) || o[1] != format!("{code}") {
            ctx.out.fail(idx, "exit-code", json!({"success": o[0], "exit_code": o[1], "child_exited_with": code}), replay);
            return;
        }
        for (stream, captured, ty, text, want, other) in
            [("stdout", cap_out, &o[2], &o[3], &want_out, b'A'..=b'Z'), ("stderr", cap_err, &o[4], &o[5], &want_err, b'a'..=b'z')]
        {
            if captured {
                if ty != "string" {
                    ctx.out.fail(idx, &format!("captured-not-string|{stream}"), json!({"typeof": ty}), replay);
                    return;
                }
                if text.as_bytes() != want.as_slice() {
                    let (sig, mut detail) = classify_capture(stream, other, text.as_bytes(), want);
                    detail["interleaving"] = json!(sig_inter);
                    ctx.out.fail(idx, &sig, detail, replay);
                    return;
                }
                ctx.out.tag_n("captured_bytes_compared", want.len() as u64);
            } else if ty != "null" {
                ctx.out.fail(idx, "noncaptured-not-null", json!({"stream": stream, "typeof": ty, "value_head": text.chars().take(40).collect::<String>()}), replay);
                return;
            }
        }
    }

    // coverage
    ctx.out.tag(&format!("sig.{sig_inter}"));
    ctx.out.tag(&format!("ending.{ending}"));
    ctx.out.tag(&format!("policy.{}+{}", case.po.name(), case.pe.name()));
    ctx.out.tag(&format!("label.{}", case.label));
    if let End::Exit(code) = case.plan.end {
        if ending == "ok" {
            ctx.out.tag(&format!("exit.{code}"));
        }
    }
    let mut near = false;
    for (captured, n, name) in [(cap_out, want_out.len() as u64, "stdout"), (cap_err, want_err.len() as u64, "stderr")] {
        if !captured {
            continue;
        }
        let rel = if n == cap {
            "at_cap"
        } else if n + 1 == cap {
            "cap-1"
        } else if n == cap + 1 {
            "cap+1"
        } else if n < cap && cap - n <= 8192 {
            "within_chunk_below"
        } else if n > cap && n - cap <= 8192 {
            "within_chunk_above"
        } else if n < cap {
            "far_below"
        } else {
            "far_above"
        };
        ctx.out.tag(&format!("size.{name}.{rel}"));
        if n.abs_diff(cap) <= 8192 {
            near = true;
        }
    }
    for (p, ms) in &case.delays {
        ctx.out.tag(&format!("delay.{p}.{ms}ms"));
    }
    if case.delays.is_empty() {
        ctx.out.tag("delay.none");
    }
    if over_out || over_err {
        let ovf = first_seq(&events, "reader_overflow");
        let exit = first_seq(&events, "wait_saw_exit");
        let saw = first_seq(&events, "wait_saw_overflow");
        match (exit, ovf) {
            (Some(x), Some(o)) if x < o => ctx.out.tag("order.exit_seen_before_overflow_raised"),
            (Some(x), Some(o)) if o < x => ctx.out.tag("order.overflow_raised_but_exit_seen_first"),
            (Some(_), None) => ctx.out.tag("order.exit_seen_overflow_never_logged"),
            _ => {}
        }
        if saw.is_some() {
            ctx.out.tag("order.overflow_seen_by_wait_loop");
        }
        if first_seq(&events, "wait_timeout").is_some() {
            ctx.out.tag("order.timeout_although_over_cap");
        }
    }
    if bad_out || bad_err {
        ctx.out.tag("content.invalid_utf8_on_captured_stream");
    } else if multibyte {
        ctx.out.tag("content.multibyte");
    }
    if near || !case.delays.is_empty() {
        let h = util::hash64(format!("{}{}{}{:?}{}{}", plan_json, case.cap, case.poll_ms, case.delays, case.po.name(), case.pe.name()).as_bytes());
        ctx.out.nontrivial(h);
        ctx.out.sample(json!({"label": case.label, "plan": plan_json, "cap": case.cap, "wait_poll_ms": case.poll_ms, "delays": delays_json,
                              "stdout": case.po.name(), "stderr": case.pe.name(), "ending": ending, "interleaving": sig_inter}));
    }
}

pub fn run(ctx: &mut Ctx) {
    let vhelper = ctx.opt("vhelper").expect("--vhelper").to_string();
    let scratch = std::fs::canonicalize(ctx.opt("scratch").expect("--scratch")).expect("scratch dir").to_string_lossy().into_owned();
    assert!(lit_ok(&vhelper) && lit_ok(&scratch));
    std::fs::create_dir_all(format!("{scratch}/p")).expect("mkdir");
    // children start in a scratch directory, not in the repository
    let sandbox = format!("{scratch}/wcwd-{}", ctx.shard);
    std::fs::create_dir_all(&sandbox).expect("mkdir");
    std::env::set_current_dir(&sandbox).expect("chdir");
    let stage = ctx.opt("stage").unwrap_or("random").to_string();
    let dump = ctx.opt("dump").is_some();
    let e = endings();
    for idx in ctx.indices() {
        ctx.out.begin(idx);
        ctx.out.evaluations += 1;
        run_case(ctx, &e, &vhelper, &scratch, &stage, idx, dump);
    }
}
