//! C07: the front end is total. Any text → diagnostics with well-formed spans, renderable, no crash.

use naijascript::arena::Arena;
use naijascript::diagnostics::{Diagnostics, Severity};
use naijascript::resolver::Resolver;
use naijascript::syntax::parser::Parser;
use naijascript::syntax::scanner::Lexer;
use serde_json::json;

use crate::Ctx;
use crate::model::ast::{Block, Program, Stmt};
use crate::model::genp::{self, Profile};
use crate::model::print::{self, Tok};
use crate::util::{self, Rng};

pub struct FrontStats {
    pub diags: usize,
    pub errors: usize,
    pub codes: Vec<String>,
    pub parsed_clean: bool,
    pub checked: bool,
}

fn span_ok(src: &str, s: usize, e: usize) -> bool {
    s <= e && e <= src.len() && src.is_char_boundary(s) && src.is_char_boundary(e)
}

fn check_diags(src: &str, d: &Diagnostics<'_>, phase: &str, stats: &mut FrontStats) -> Result<(), (String, serde_json::Value)> {
    for x in &d.diagnostics {
        stats.diags += 1;
        if x.severity == Severity::Error {
            stats.errors += 1;
        }
        stats.codes.push(format!("{}:{}", x.code, x.message));
        if !span_ok(src, x.span.start, x.span.end) {
            return Err((
                format!("bad-span|{phase}|{}", x.message),
                json!({"span": [x.span.start, x.span.end], "len": src.len(), "message": x.message}),
            ));
        }
        for l in &x.labels {
            if !span_ok(src, l.span.start, l.span.end) {
                return Err((
                    format!("bad-label-span|{phase}|{}", x.message),
                    json!({"span": [l.span.start, l.span.end], "len": src.len(), "message": x.message}),
                ));
            }
        }
    }
    // the whole set must render
    let rendered = d.render_ansi(src, "input.ns");
    if std::str::from_utf8(rendered.as_bytes()).is_err() {
        return Err((format!("render-invalid-utf8|{phase}"), json!({})));
    }
    if !d.diagnostics.is_empty() && rendered.is_empty() {
        return Err((format!("render-empty|{phase}"), json!({})));
    }
    Ok(())
}

/// Lex + parse + (as shipped: only after a clean parse) static check; span predicate; render.
pub fn check_text(src: &str) -> Result<FrontStats, (String, serde_json::Value)> {
    let arena = Arena::new(256 << 20).expect("arena");
    let res_arena = Arena::new(256 << 20).expect("arena");
    let mut stats = FrontStats { diags: 0, errors: 0, codes: Vec::new(), parsed_clean: false, checked: false };
    let lexer = Lexer::new(src, &arena);
    let mut parser = Parser::new(lexer, &arena);
    let (root, perr) = parser.parse_program();
    check_diags(src, perr, "parse", &mut stats)?;
    if !perr.diagnostics.is_empty() {
        return Ok(stats);
    }
    stats.parsed_clean = true;
    let mut resolver = Resolver::with_facts_arena(&res_arena, &arena);
    resolver.resolve(root);
    stats.checked = true;
    check_diags(src, &resolver.errors, "check", &mut stats)?;
    Ok(stats)
}

const TOKENS: &[&str] = &[
    "make", "get", "add", "minus", "times", "divide", "mod", "and", "or", "not", "jasi", "start", "end", "comot", "next", "na",
    "pass", "true", "false", "null", "do", "return", "small pass", "if to say", "if not so", "if", "if to", "if not", "small", "to", "say", "so",
    "x", "_a1", "shout", "1", "12.5", "1.", "1.x", "1x", "0", "007", "1..2",
    "\"\"", "\"a\"", "'a'", "\"a\\n\"", "\"a\\q\"", "\"a\\", "\"abc", "'abc", "\"{\"", "\"{{\"", "\"{x\"", "\"{x}\"", "\"{ x }\"", "\"}\"", "\"}}\"", "\"{x}{\"", "'{x}'",
    "\"\\\"\"", "\"a\\\\\"", "\"{é}\"", "\"{x é}\"",
    "(", ")", "[", "]", ",", ".", "#", "# c", "#\"", "@", "$", ";", "{", "}", "\\", "!", "=", "-", "+", "<", "`",
];

const NEIGHBOURS: &[&str] = &[
    "", " ", "\t", "\n", "\r", "\r\n", "a", "Z", "1", "_", ".", "\"", "'", "é", "€", "😀", "\u{85}", "\u{a0}", "\0", "\u{c}", "#", "\\",
];

fn stage_a() -> Vec<String> {
    let mut cells: Vec<String> = Vec::new();
    for t in TOKENS {
        for n in NEIGHBOURS {
            cells.push(format!("{n}{t}"));
            cells.push(format!("{t}{n}"));
            cells.push(format!("{n}{t}{n}"));
            for (i, _) in t.char_indices().skip(1) {
                cells.push(format!("{}{n}{}", &t[..i], &t[i..]));
            }
        }
    }
    let mut out = Vec::new();
    for c in cells {
        out.push(c.clone());
        out.push(format!("make x get {c}"));
        out.push(format!("do f() start\nreturn {c} end"));
        out.push(format!("shout({c})"));
    }
    out.sort();
    out.dedup();
    out
}

/// Stage R: small programs whose function return types depend on the functions' own inferred
/// types (the checker infers them by iterating before the bodies are checked): every operator
/// and method shape around a self call, a mutual call and a call of an outer function, with
/// literals of every type on the other side. The inference must terminate on all of them.
fn stage_r() -> Vec<String> {
    let shapes = [
        "C na L", "L na C", "C pass L", "C small pass L", "C add L", "L add C", "C minus L", "C times L", "C divide L", "C mod L", "C and L", "C or L",
        "not C", "minus C", "[C]", "[C, L]", "C[0]", "[L][C]", "C.len()", "C.abs()", "C.trim()", "C.pop()", "to_string(C)", "typeof(C)", "C na C", "C add C",
        "not (C na L)", "minus (C add L)", "(C na L) na L", "(C add L) add L", "(C and L) na L", "C na (C na L)",
    ];
    let lits = ["1", "\"s\"", "true", "null", "[1]"];
    let mut out = Vec::new();
    for sh in shapes {
        for l in lits {
            let self_call = sh.replace('C', "f()").replace('L', l);
            out.push(format!("do f() start\nreturn {self_call}\nend\nshout(f())\n"));
            out.push(format!("do f() start\nif to say (true) start\nreturn {l}\nend\nreturn {self_call}\nend\n"));
            let a = sh.replace('C', "g()").replace('L', l);
            let b = sh.replace('C', "f()").replace('L', l);
            out.push(format!("do f() start\nreturn {a}\nend\ndo g() start\nreturn {b}\nend\n"));
            out.push(format!("do f() start\nreturn {a}\nend\ndo g() start\nreturn f()\nend\ndo h() start\nreturn g()\nend\n"));
            out.push(format!("do f(p) start\nreturn {}\nend\n", sh.replace('C', "f(p)").replace('L', l)));
            out.push(format!("start\ndo f() start\nreturn {self_call}\nend\nend\n"));
        }
    }
    out.sort();
    out.dedup();
    out
}

fn valid_program(rng: &mut Rng) -> (String, Vec<Tok>) {
    let profile = *rng.pick(&[Profile::Core, Profile::Scope, Profile::Array, Profile::Mem, Profile::Dead]);
    let (prog, _) = genp::generate(rng, profile);
    let toks = print::tokens(&prog);
    (print::layout_default(&toks), toks)
}

/// Statement-level mutation of a valid program: the text stays syntactically valid, but
/// declarations go missing, appear twice (functions with their bodies too), or change order,
/// which is what reaches the checker's error paths and the analyses behind them.
fn mutate_statements(rng: &mut Rng, prog: &mut Program) {
    fn blocks<'a>(b: &'a mut Block, out: &mut Vec<*mut Block>) {
        out.push(b as *mut Block);
        for s in &mut b.stmts {
            match s {
                Stmt::If { then_b, else_b, .. } => {
                    blocks(then_b, out);
                    if let Some(eb) = else_b {
                        blocks(eb, out);
                    }
                }
                Stmt::Loop { body, .. } => blocks(body, out),
                Stmt::Block(b) => blocks(b, out),
                Stmt::FuncDef(f) => blocks(&mut f.body, out),
                _ => {}
            }
        }
    }
    for _ in 0..rng.range(1, 3) {
        let mut all: Vec<*mut Block> = Vec::new();
        blocks(&mut prog.body, &mut all);
        let nonempty: Vec<*mut Block> = all.iter().copied().filter(|b| unsafe { !(**b).stmts.is_empty() }).collect();
        if nonempty.is_empty() {
            return;
        }
        // SAFETY: the pointers were collected from `prog` just above and exactly one of them is
        // dereferenced per round, after the collecting borrow has ended.
        let b: &mut Block = unsafe { &mut **rng.pick(&nonempty) };
        let i = rng.usize(b.stmts.len());
        match rng.weighted(&[4, 3, 3, 2]) {
            0 => {
                // duplicate (function definitions with their bodies, declarations, loops ...)
                let st = b.stmts[i].clone();
                let at = rng.usize(b.stmts.len() + 1);
                b.stmts.insert(at, st);
            }
            1 => {
                b.stmts.remove(i);
            }
            2 => {
                let j = rng.usize(b.stmts.len());
                b.stmts.swap(i, j);
            }
            _ => {
                // move into another block
                let st = b.stmts.remove(i);
                let mut all2: Vec<*mut Block> = Vec::new();
                blocks(&mut prog.body, &mut all2);
                let t: &mut Block = unsafe { &mut **rng.pick(&all2) };
                let at = rng.usize(t.stmts.len() + 1);
                t.stmts.insert(at, st);
            }
        }
    }
}

const JUNK: &[&str] = &["é", "€", "😀", "\u{85}", "\u{a0}", "\0", "\"", "'", "\\", "{", "}", "#", "1.", ".", "\r", "\n", "@", "if", "small", "if to", "1x", "(", ")", "[", "]", ",", "start", "end", "get", "make", "do", "return", "not", "minus"];

fn mutate_tokens(rng: &mut Rng, toks: &[Tok]) -> String {
    let mut v: Vec<Tok> = toks.to_vec();
    let n = rng.range(1, 4);
    for _ in 0..n {
        if v.is_empty() {
            break;
        }
        let i = rng.usize(v.len());
        match rng.below(5) {
            0 => {
                v.remove(i);
            }
            1 => {
                let t = v[i].clone();
                v.insert(i, t);
            }
            2 => {
                let j = rng.usize(v.len());
                v.swap(i, j);
            }
            3 => v.insert(i, Tok::Word((*rng.pick(JUNK)).to_string())),
            _ => {
                let t = (*rng.pick(TOKENS)).to_string();
                v[i] = Tok::Word(t);
            }
        }
    }
    print::layout_default(&v)
}

fn random_text(rng: &mut Rng) -> String {
    let n = rng.range(1, 60);
    let mut s = String::new();
    for _ in 0..n {
        match rng.below(4) {
            0 => s.push_str(rng.pick(TOKENS)),
            1 => s.push_str(rng.pick(JUNK)),
            2 => s.push_str(rng.pick(NEIGHBOURS)),
            _ => s.push(' '),
        }
    }
    s
}

fn run_one(ctx: &mut Ctx, idx: u64, src: &str, kind: &str) {
    ctx.out.evaluations += 1;
    let replay = json!({"src": src, "kind": kind});
    match util::guarded(|| check_text(src)) {
        Ok(Ok(st)) => {
            ctx.out.tag_n("diagnostics_checked", st.diags as u64);
            for c in &st.codes {
                ctx.out.tag(&format!("diag.{c}"));
            }
            if st.parsed_clean {
                ctx.out.tag("parsed_clean");
            }
            if st.checked && st.errors == 0 {
                ctx.out.tag("accepted");
            }
            if st.diags >= 1 || !src.is_ascii() {
                ctx.out.nontrivial(util::hash64(src.as_bytes()));
                if st.diags >= 1 && !src.is_ascii() {
                    ctx.out.sample(json!({"kind": kind, "src": src, "diagnostics": st.codes}));
                }
            }
        }
        Ok(Err((sig, detail))) => ctx.out.fail(idx, &sig, detail, replay),
        Err((msg, loc)) => {
            let sig = format!("panic|{}|{}", util::normalise_msg(&msg), util::panic_site(&loc));
            ctx.out.fail(idx, &sig, json!({"panic": msg, "at": loc, "src": src}), replay);
        }
    }
}

pub fn run(ctx: &mut Ctx) {
    let stage = ctx.opt("stage").unwrap_or("A").to_string();
    match stage.as_str() {
        "A" => {
            let cells = stage_a();
            ctx.out.extra.insert("stage_a_size".into(), json!(cells.len()));
            // batches of 64 inputs per protocol case
            let batches = cells.len().div_ceil(64) as u64;
            let idxs: Vec<u64> = ctx.indices().filter(|i| *i < batches).collect();
            for idx in idxs {
                ctx.out.begin(idx);
                let lo = idx as usize * 64;
                for src in &cells[lo..(lo + 64).min(cells.len())] {
                    run_one(ctx, idx, src, "adjacency");
                }
            }
        }
        "R" => {
            let cells = stage_r();
            ctx.out.extra.insert("stage_r_size".into(), json!(cells.len()));
            let batches = cells.len().div_ceil(16) as u64;
            let idxs: Vec<u64> = ctx.indices().filter(|i| *i < batches).collect();
            for idx in idxs {
                ctx.out.begin(idx);
                let lo = idx as usize * 16;
                for src in &cells[lo..(lo + 16).min(cells.len())] {
                    run_one(ctx, idx, src, "self-referential-inference");
                }
            }
        }
        "B" => {
            // every prefix and every single-character deletion of a valid program
            for idx in ctx.indices() {
                ctx.out.begin(idx);
                let mut rng = Rng::new(util::case_seed(ctx.seed, "frontB", idx));
                let (src, _) = valid_program(&mut rng);
                let src: String = src.chars().take(700).collect();
                let bounds: Vec<usize> = src.char_indices().map(|(i, _)| i).chain(std::iter::once(src.len())).collect();
                for w in bounds.windows(2) {
                    run_one(ctx, idx, &src[..w[0]], "prefix");
                    let mut del = String::with_capacity(src.len());
                    del.push_str(&src[..w[0]]);
                    del.push_str(&src[w[1]..]);
                    run_one(ctx, idx, &del, "deletion");
                }
                run_one(ctx, idx, &src, "whole");
            }
        }
        "S" => {
            let cells = super::staticck::all_sources();
            ctx.out.extra.insert("stage_s_size".into(), json!(cells.len()));
            let batches = cells.len().div_ceil(32) as u64;
            let idxs: Vec<u64> = ctx.indices().filter(|i| *i < batches).collect();
            for idx in idxs {
                ctx.out.begin(idx);
                let lo = idx as usize * 32;
                for src in &cells[lo..(lo + 32).min(cells.len())] {
                    run_one(ctx, idx, src, "static-rule");
                }
            }
        }
        "M" => {
            for idx in ctx.indices() {
                ctx.out.begin(idx);
                let mut rng = Rng::new(util::case_seed(ctx.seed, "frontM", idx));
                let profile = *rng.pick(&[Profile::Core, Profile::Scope, Profile::Scope, Profile::Array, Profile::Dead]);
                let (prog, _) = genp::generate(&mut rng, profile);
                for _ in 0..8 {
                    let mut p2 = prog.clone();
                    mutate_statements(&mut rng, &mut p2);
                    let src = print::to_source(&p2);
                    run_one(ctx, idx, &src, "statement-mutation");
                }
            }
        }
        "C" => {
            for idx in ctx.indices() {
                ctx.out.begin(idx);
                let mut rng = Rng::new(util::case_seed(ctx.seed, "frontC", idx));
                let (_, toks) = valid_program(&mut rng);
                for _ in 0..16 {
                    let src = mutate_tokens(&mut rng, &toks);
                    run_one(ctx, idx, &src, "token-mutation");
                }
            }
        }
        _ => {
            for idx in ctx.indices() {
                ctx.out.begin(idx);
                let mut rng = Rng::new(util::case_seed(ctx.seed, "frontD", idx));
                for _ in 0..32 {
                    let src = random_text(&mut rng);
                    run_one(ctx, idx, &src, "random");
                }
            }
        }
    }
}
