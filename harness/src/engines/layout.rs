//! C10: layout is insignificant. A program against its own token-preserving re-layouts.

use naijascript::arena::Arena;
use naijascript::syntax::scanner::Lexer;
use naijascript::syntax::token::Token;
use serde_json::json;

use crate::Ctx;
use crate::model::ast::*;
use crate::model::genp::{self, Profile};
use crate::model::print::{self, Printer, Tok};
use crate::model::interp;
use crate::pipeline::{self, RunCfg};
use crate::util::{self, Rng};

/// Token sequence of a text according to the crate's own lexer (spans dropped).
fn lex(src: &str) -> Vec<String> {
    let arena = Arena::new(64 << 20).expect("arena");
    let lexer = Lexer::new(src, &arena);
    let mut out = Vec::new();
    for st in lexer {
        out.push(match &st.token {
            Token::String(s) => format!("S:{s}"),
            Token::Identifier(s) => format!("I:{s}"),
            Token::Number(s) => format!("N:{s}"),
            other => format!("{other:?}"),
        });
    }
    out
}

const COMMENTS: &[&str] = &["#", "# plain", "# make x get 1 end", "# \"quote' \\", "## # #", "# é€😀", "#start", "# if to say (", "#\t"];
const EOLS: &[&str] = &["\n", "\r\n", "\r"];

fn sep(rng: &mut Rng, style: u8, must: bool) -> String {
    match style {
        // single line, single blanks everywhere
        0 => " ".into(),
        // one token per line
        1 => "\n".into(),
        2 => "\r\n".into(),
        3 => "\r".into(),
        4 => "\t".into(),
        // tight: nothing where nothing is needed
        5 => {
            if must { " ".into() } else { String::new() }
        }
        // comments after tokens
        6 => {
            if rng.chance(1, 3) {
                // a comment also ends the token before it: no blank is needed in front of `#`
                format!("{}{}{}", if rng.chance(1, 2) { " " } else { "" }, rng.pick(COMMENTS), rng.pick(EOLS))
            } else if must {
                " ".into()
            } else {
                String::new()
            }
        }
        // random mixture with blank lines
        _ => {
            let comment = rng.chance(1, 6);
            // a comment with its line end separates two words as well as a blank does
            let n = rng.range(if must && !comment { 1 } else { 0 }, 4);
            let mut s = String::new();
            for _ in 0..n {
                s.push_str(rng.pick(&[" ", "  ", "\t", "\n", "\n\n", "\r\n", "\r", "\u{c}", " \n "]));
            }
            if comment {
                s.push_str(&format!("{}{}", rng.pick(COMMENTS), rng.pick(EOLS)));
            }
            s
        }
    }
}

/// White space between the words of a multi-word keyword (never a comment).
fn word_sep(rng: &mut Rng, style: u8) -> String {
    match style {
        0 | 5 | 6 => " ".into(),
        1 => "\n".into(),
        2 => "\r\n".into(),
        3 => "\r".into(),
        4 => "\t".into(),
        _ => {
            let n = rng.range(1, 3);
            (0..n).map(|_| *rng.pick(&[" ", "\t", "\n", "\r\n", "\r", "\u{c}", "   "])).collect()
        }
    }
}

fn relayout(rng: &mut Rng, toks: &[Tok], style: u8) -> String {
    let mut out = String::new();
    let real: Vec<&Tok> = toks.iter().filter(|t| !matches!(t, Tok::Line(_))).collect();
    for (i, t) in real.iter().enumerate() {
        if i > 0 {
            let must = print::needs_blank(real[i - 1], t);
            out.push_str(&sep(rng, style, must));
        }
        match t {
            Tok::Multi(ws) => {
                for (k, w) in ws.iter().enumerate() {
                    if k > 0 {
                        out.push_str(&word_sep(rng, style));
                    }
                    out.push_str(w);
                }
            }
            other => print::push_tok(&mut out, other, " "),
        }
    }
    if style >= 6 && rng.chance(1, 2) {
        out.push_str(&format!(" {}", rng.pick(COMMENTS)));
    }
    out
}

fn outcome(src: &str) -> Result<(bool, Vec<String>, String), (String, String)> {
    util::guarded(|| pipeline::run_source(src, RunCfg::default())).map(|r| (r.accepted, r.output, r.ending))
}

fn has_statement_boundary_by_token_kind(p: &Program) -> bool {
    // an expression statement directly followed by a statement that starts with an identifier
    fn block(b: &Block) -> bool {
        b.stmts.windows(2).any(|w| {
            matches!(w[0], Stmt::Expr(_) | Stmt::Make { .. } | Stmt::Assign { .. } | Stmt::Return(Some(_)))
                && matches!(w[1], Stmt::Expr(_) | Stmt::Assign { .. } | Stmt::AssignIndex { .. })
        }) || b.stmts.iter().any(|s| match s {
            Stmt::If { then_b, else_b, .. } => block(then_b) || else_b.as_ref().is_some_and(block),
            Stmt::Loop { body, .. } => block(body),
            Stmt::Block(b) => block(b),
            Stmt::FuncDef(f) => block(&f.body),
            _ => false,
        })
    }
    block(&p.body)
}

pub fn run(ctx: &mut Ctx) {
    for idx in ctx.indices() {
        ctx.out.begin(idx);
        let mut rng = Rng::new(util::case_seed(ctx.seed, "layout", idx));
        let profile = *rng.pick(&[Profile::Core, Profile::Core, Profile::Scope, Profile::Array, Profile::Mem, Profile::Dead]);
        let (mut prog, _) = genp::generate(&mut rng, profile);
        // one program in ten is statically invalid: it must be rejected alike in every layout
        let invalid = rng.chance(1, 10);
        if invalid {
            let n = prog.body.stmts.len();
            prog.body.stmts.insert(rng.usize(n + 1), shout(var("zz_not_declared")));
        }
        let _ = interp::resolve(&mut prog);
        let model = interp::run(&prog, 200_000);
        if matches!(model.ending, interp::Ending::Fuel) {
            ctx.out.discarded += 1;
            continue;
        }
        let toks = print::tokens(&prog);
        let base_src = print::layout_default(&toks);
        let base_lex = lex(&base_src);
        let base = match outcome(&base_src) {
            Ok(o) => o,
            Err((msg, loc)) => {
                let sig = format!("panic|{}|{}", util::normalise_msg(&msg), util::panic_site(&loc));
                ctx.out.fail(idx, &sig, json!({"panic": msg, "at": loc}), json!({"src": base_src}));
                continue;
            }
        };
        let multiword = toks.iter().any(|t| matches!(t, Tok::Multi(_)));
        let boundary = has_statement_boundary_by_token_kind(&prog);
        let mut compared = 0;
        for style in 0u8..9 {
            ctx.out.evaluations += 1;
            let (src, token_preserving) = if style == 8 {
                // redundant parentheses: not token preserving, must still mean the same
                let mut rng2 = Rng::new(util::case_seed(ctx.seed, "parens", idx));
                let mut pr = Printer::with_redundant_parens(&mut rng2, 64);
                pr.program(&prog);
                let toks2 = pr.toks;
                (print::layout_default(&toks2), false)
            } else {
                (relayout(&mut rng, &toks, style), true)
            };
            if token_preserving && lex(&src) != base_lex {
                // The re-layouter preserves the token sequence by construction (it only chooses the
                // white space and comments between the printer's tokens, and white space inside
                // multi-word keywords), and on the unchanged tree this never fails. So when the
                // crate's lexer sees different tokens, white space or a comment changed the tokens:
                // that is the property being violated in the lexer, not a useless case.
                let a = lex(&src);
                let k = a.iter().zip(base_lex.iter()).position(|(x, y)| x != y).unwrap_or(a.len().min(base_lex.len()));
                ctx.out.fail(
                    idx,
                    &format!("token-sequence-differs|style{style}"),
                    json!({"first_differing_token": k, "relayout_token": a.get(k), "conventional_token": base_lex.get(k), "relayout_tokens": a.len(), "conventional_tokens": base_lex.len()}),
                    json!({"src": src, "base": base_src, "style": style}),
                );
                continue;
            }
            let replay = json!({"src": src, "base": base_src, "style": style});
            match outcome(&src) {
                Ok(o) => {
                    if o != base {
                        let sig = if o.0 != base.0 {
                            format!("acceptance-differs|style{style}")
                        } else if o.2 != base.2 {
                            format!("ending-differs|style{style}")
                        } else {
                            format!("output-differs|style{style}")
                        };
                        ctx.out.fail(idx, &sig, json!({"base": {"accepted": base.0, "ending": base.2, "out_len": base.1.len()}, "relayout": {"accepted": o.0, "ending": o.2, "out_len": o.1.len()}}), replay);
                        continue;
                    }
                    compared += 1;
                    ctx.out.tag(&format!("style{style}.compared"));
                }
                Err((msg, loc)) => {
                    let sig = format!("panic|{}|{}", util::normalise_msg(&msg), util::panic_site(&loc));
                    ctx.out.fail(idx, &sig, json!({"panic": msg, "at": loc}), replay);
                }
            }
        }
        ctx.out.tag(if base.0 { "base.accepted" } else { "base.rejected" });
        if compared >= 6 && multiword && boundary {
            ctx.out.nontrivial(util::hash64(base_src.as_bytes()));
            if idx % 50 == 0 {
                let mut r3 = Rng::new(idx);
                ctx.out.sample(json!({"base": base_src, "relayout_style7": relayout(&mut r3, &toks, 7)}));
            }
        }
    }
}
