//! C03: the same program with and without the optimisation plan; statements the analysis
//! calls unreachable must never execute.

use serde_json::json;

use crate::Ctx;
use crate::model::genp::{self, Profile};
use crate::model::{interp, print};
use crate::pipeline::{self, RunCfg};
use crate::util::{self, Rng};

fn profile_for(ctx: &Ctx, idx: u64) -> Profile {
    match ctx.opt("profile").unwrap_or("deadmix") {
        "deadmix" => match idx % 10 {
            0..=5 => Profile::Dead,
            6 => Profile::Scope,
            7 => Profile::Core,
            8 => Profile::Array,
            _ => Profile::Mem,
        },
        name => Profile::from_name(name).expect("profile"),
    }
}

// ----- stage product ----------------------------------------------------------------------
//
// Every kind of operation that can end a run with a runtime error, or that has an effect other
// than its value, placed in every kind of position whose value is never used. The program is run
// with and without the plan; nothing else is assumed about what it does.

/// (name, setup statements, expression). `@` in the expression stands for the probed position.
fn observable_exprs() -> Vec<(&'static str, &'static str, &'static str)> {
    vec![
        // failing arithmetic
        ("divide-by-zero-literal", "", "1 divide 0"),
        ("divide-by-zero-point-zero", "", "1 divide 0.0"),
        ("divide-by-zero-padded", "", "1 divide 00.00"),
        ("mod-by-zero-literal", "", "7 mod 0"),
        ("mod-by-zero-point-zero", "", "7 mod 0.0"),
        ("divide-by-computed-zero", "", "1 divide (2 minus 2)"),
        ("divide-by-zero-variable", "make zz_z get 0", "5 divide zz_z"),
        ("divide-by-minus-zero", "", "1 divide minus 0"),
        // failing indexes
        ("index-out-of-bounds", "", "[1, 2][7]"),
        ("index-negative", "", "[1, 2][minus 1]"),
        ("index-fractional", "", "[1, 2][0.5]"),
        ("index-of-empty", "make zz_e get []", "zz_e[0]"),
        ("index-nested-out-of-bounds", "make zz_m get [[1]]", "zz_m[0][3]"),
        ("index-not-a-number", "make zz_ix get [\"k\"]", "[1, 2][zz_ix[0]]"),
        ("index-base-not-an-array", "make zz_nb get [5]", "zz_nb[0][0]"),
        // operators on operands whose type is only known at run time
        ("minus-on-dynamic-string", "do zz_f(p) start\nreturn p minus 1\nend", "zz_f(\"s\")"),
        ("times-on-dynamic-bool", "do zz_f(p) start\nreturn p times 2\nend", "zz_f(true)"),
        ("add-on-dynamic-bool", "do zz_f(p) start\nreturn p add 1\nend", "zz_f(true)"),
        ("compare-on-dynamic-mixed", "do zz_f(p) start\nreturn p pass 1\nend", "zz_f(\"s\")"),
        ("equal-on-dynamic-mixed", "do zz_f(p) start\nreturn p na 1\nend", "zz_f(\"s\")"),
        ("and-on-dynamic-number", "do zz_f(p) start\nreturn p and true\nend", "zz_f(1)"),
        ("or-on-dynamic-string", "do zz_f(p) start\nreturn false or p\nend", "zz_f(\"s\")"),
        ("not-on-dynamic-number", "do zz_f(p) start\nreturn not p\nend", "zz_f(1)"),
        ("negate-dynamic-string", "do zz_f(p) start\nreturn minus p\nend", "zz_f(\"s\")"),
        ("minus-on-array-element", "make zz_a get [\"s\"]", "zz_a[0] minus 1"),
        ("minus-on-pop-result", "make zz_a get [\"s\"]", "zz_a.pop() minus 1"),
        ("method-on-dynamic-number", "do zz_f(p) start\nreturn p.len()\nend", "zz_f(5)"),
        ("method-on-dynamic-null", "do zz_f(p) start\nreturn p.trim()\nend", "zz_f(null)"),
        ("index-on-dynamic-number", "do zz_f(p) start\nreturn p[0]\nend", "zz_f(5)"),
        ("condition-on-dynamic-number", "do zz_f(p) start\nif to say (p) start\nreturn 1\nend\nreturn 2\nend", "zz_f(5)"),
        ("loop-condition-on-dynamic-string", "do zz_f(p) start\njasi (p) start\nreturn 1\nend\nreturn 2\nend", "zz_f(\"s\")"),
        ("slice-bound-dynamic-string", "do zz_f(p) start\nreturn \"abc\".slice(p, 2)\nend", "zz_f(\"s\")"),
        ("join-separator-dynamic-number", "do zz_f(p) start\nreturn [1, 2].join(p)\nend", "zz_f(5)"),
        ("command-of-dynamic-number", "do zz_f(p) start\nreturn command(p)\nend", "zz_f(5)"),
        ("call-through-two-functions", "do zz_g(p) start\nreturn p minus 1\nend\ndo zz_f(p) start\nreturn zz_g(p)\nend", "zz_f(\"s\")"),
        // effects other than the value
        ("pop", "make zz_a get [1, 2, 3]", "zz_a.pop()"),
        ("pop-of-nested", "make zz_a get [[1, 2], [3]]", "zz_a[0].pop()"),
        ("pop-in-callee", "make zz_a get [1, 2, 3]\ndo zz_f() start\nreturn zz_a.pop()\nend", "zz_f()"),
        ("push-in-callee", "make zz_a get [1]\ndo zz_f() start\nzz_a.push(9)\nreturn 0\nend", "zz_f()"),
        ("reverse-in-callee", "make zz_a get [1, 2]\ndo zz_f() start\nzz_a.reverse()\nreturn 0\nend", "zz_f()"),
        ("index-write-in-callee", "make zz_a get [1, 2]\ndo zz_f() start\nzz_a[0] get 9\nreturn 0\nend", "zz_f()"),
        ("assign-captured-in-callee", "make zz_c get 0\ndo zz_f() start\nzz_c get zz_c add 1\nreturn zz_c\nend", "zz_f()"),
        ("assign-captured-two-levels", "make zz_c get 0\ndo zz_g() start\nzz_c get zz_c add 1\nreturn 0\nend\ndo zz_f() start\nreturn zz_g()\nend", "zz_f()"),
        ("assign-captured-behind-flag", "make zz_c get 0\ndo zz_f(fl) start\nif to say (fl) start\nzz_c get 5\nend\nreturn 0\nend", "zz_f(true)"),
        ("shout-in-callee", "do zz_f() start\nshout(\"effect\")\nreturn 0\nend", "zz_f()"),
        ("shout-in-recursive-callee", "do zz_f(n) start\nif to say (n small pass 1) start\nreturn 0\nend\nshout(n)\nreturn zz_f(n minus 1)\nend", "zz_f(2)"),
        ("command-arg-in-callee", "make zz_cm get command(\"/bin/true\")\ndo zz_f() start\nzz_cm.arg(\"x\")\nreturn 0\nend", "zz_f()"),
    ]
}

/// (name, template). `S` = the setup statements, `E` = the expression. Every template ends by
/// printing a marker and whatever state the setups declare, so that a skipped effect shows.
fn dead_positions() -> Vec<(&'static str, &'static str)> {
    vec![
        ("unused-declaration", "S\nmake zz_u get E\nD"),
        ("declaration-overwritten", "S\nmake zz_u get E\nzz_u get 1\nshout(zz_u)\nD"),
        ("assignment-overwritten", "S\nmake zz_u get 0\nzz_u get E\nzz_u get 1\nshout(zz_u)\nD"),
        ("assignment-never-read-again", "S\nmake zz_u get 0\nshout(zz_u)\nzz_u get E\nD"),
        ("in-array-literal", "S\nmake zz_u get [0, E]\nD"),
        ("as-argument-of-pure-call", "S\ndo zz_id(x) start\nreturn 0\nend\nmake zz_u get zz_id(E)\nD"),
        ("as-argument-of-builtin", "S\nmake zz_u get typeof(E)\nD"),
        ("as-operand", "S\nmake zz_u get 1 add [E].len()\nD"),
        ("in-function-body", "S\ndo zz_w() start\nmake zz_u get E\nreturn 0\nend\nzz_w()\nD"),
        ("in-function-called-from-dead-store", "S\ndo zz_w() start\nmake zz_u get E\nreturn 0\nend\nmake zz_v get zz_w()\nD"),
        ("in-loop-body", "S\nmake zz_i get 0\njasi (zz_i small pass 2) start\nzz_i get zz_i add 1\nmake zz_u get E\nend\nD"),
        ("in-if-arm", "S\nif to say (true) start\nmake zz_u get E\nend\nD"),
        ("in-nested-block", "S\nstart\nmake zz_u get E\nend\nD"),
        ("unused-in-branch-merge", "S\nmake zz_u get 0\nif to say (true) start\nzz_u get E\nend\nif not so start\nzz_u get 2\nend\nD"),
        ("before-return-in-function", "S\ndo zz_w() start\nmake zz_u get E\nreturn 0\nmake zz_d get 1\nend\nshout(zz_w())\nD"),
        ("short-circuited-away", "S\nmake zz_u get false and [E].len() pass 0\nD"),
        ("write-only-variable", "S\nmake zz_u get 0\nzz_u get E\nD"),
        ("write-only-variable-in-loop", "S\nmake zz_u get 0\nmake zz_i get 0\njasi (zz_i small pass 2) start\nzz_i get zz_i add 1\nzz_u get E\nend\nD"),
        ("write-only-variable-twice", "S\nmake zz_u get 0\nzz_u get 1\nzz_u get E\nzz_u get 2\nD"),
    ]
}

/// Stores that ARE read, but only in a later basic block, in functions with `pad` other locals in
/// front of them (the analyses keep per-function bit sets: 64 locals fill one word). `P` = the
/// padding declarations.
fn live_store_programs() -> Vec<(String, String)> {
    let shapes: [(&str, &str); 8] = [
        ("after-if", "P\nmake zz_u get 0\nif to say (true) start\nzz_u get 7\nend\nshout(zz_u)"),
        ("after-if-else", "P\nmake zz_u get 0\nmake zz_f get true\nif to say (zz_f) start\nzz_u get 7\nend\nif not so start\nzz_u get 8\nend\nshout(zz_u)"),
        ("after-loop", "P\nmake zz_u get 0\nmake zz_i get 0\njasi (zz_i small pass 3) start\nzz_i get zz_i add 1\nzz_u get zz_i times 2\nend\nshout(zz_u)"),
        ("next-iteration", "P\nmake zz_u get 0\nmake zz_i get 0\njasi (zz_i small pass 3) start\nzz_i get zz_i add 1\nshout(zz_u)\nzz_u get zz_i times 2\nend"),
        ("two-variables", "P\nmake zz_u get 0\nmake zz_w get false\nif to say (true) start\nzz_u get 7\nzz_w get true\nend\nshout(zz_u)\nshout(zz_w)"),
        ("in-function", "do zz_g() start\nP\nmake zz_u get 0\nif to say (true) start\nzz_u get 7\nend\nreturn zz_u\nend\nshout(zz_g())"),
        ("captured-by-callee", "P\nmake zz_u get 0\ndo zz_r() start\nreturn zz_u\nend\nif to say (true) start\nzz_u get 7\nend\nshout(zz_r())"),
        ("nested-blocks", "P\nmake zz_u get 0\nstart\nstart\nif to say (true) start\nzz_u get 7\nend\nend\nend\nshout(zz_u)"),
    ];
    let mut out = Vec::new();
    for pad in [0usize, 1, 31, 32, 33, 62, 63, 64, 65, 66, 126, 127, 128, 129, 191, 192, 193, 300] {
        let padding: String = (0..pad).map(|i| format!("make zz_p{i} get {i}\n")).collect();
        for (name, t) in shapes {
            out.push((format!("{name}|locals-in-front={pad}"), t.replace("P\n", &padding).replace('P', "") + "\n"));
        }
    }
    // a dead store whose value reads a variable of the enclosing function before that variable
    // is declared in the running activation (hoisted function, call placed before the `make`):
    // the read ends the run with an error, with or without the plan
    for (name, read) in [("plain", "zz_late"), ("interpolated", "\"v={zz_late}\""), ("in-operand", "zz_late add 1")] {
        out.push((
            format!("captured-variable-read-before-its-declaration-{name}|locals-in-front=0"),
            format!("do zz_o() start\nshout(\"before\")\nmake zz_u get zz_r()\nmake zz_late get 5\ndo zz_r() start\nreturn {read}\nend\nshout(\"after\")\nreturn 0\nend\nzz_o()\n"),
        ));
        out.push((
            format!("captured-variable-read-before-its-declaration-{name}-unused-local|locals-in-front=0"),
            format!("do zz_o() start\nshout(\"before\")\nzz_r()\nmake zz_late get 5\ndo zz_r() start\nmake zz_x get {read}\nreturn 0\nend\nshout(\"after\")\nreturn 0\nend\nzz_o()\n"),
        ));
    }
    out
}

const DUMP: &str = "shout(\"after\")";

fn state_dump(setup: &str) -> String {
    // print every variable the setup declares at top level
    let mut s = String::from(DUMP);
    for line in setup.lines() {
        if let Some(rest) = line.strip_prefix("make ")
            && let Some(name) = rest.split(' ').next()
        {
            s.push_str(&format!("\nshout({name})"));
        }
    }
    s
}

fn run_live_stores(ctx: &mut Ctx, first: u64) {
    let progs = live_store_programs();
    ctx.out.extra.insert("live_store_programs".into(), json!(progs.len()));
    let idxs: Vec<u64> = ctx.indices().filter(|i| *i >= first && ((*i - first) as usize) < progs.len()).collect();
    for idx in idxs {
        ctx.out.begin(idx);
        ctx.out.evaluations += 1;
        let (name, src) = &progs[(idx - first) as usize];
        let replay = json!({"engine": "prune", "stage": "product", "src": src, "live_store": name});
        let run = |plan: bool| util::guarded(|| pipeline::run_source(src, RunCfg { plan, trace: true, ..RunCfg::default() }));
        match (run(true), run(false)) {
            (Ok(with), Ok(without)) => {
                if !with.accepted {
                    ctx.out.inconclusive(idx, "live-store program rejected", json!({"name": name}));
                } else if with.output != without.output || with.ending != without.ending {
                    let shape = name.split('|').next().unwrap_or("");
                    let what = if shape.starts_with("captured-variable") { "error-pruned" } else { "live-store-pruned" };
                    ctx.out.fail(idx, &format!("product|{what}|{shape}"), json!({"program": name, "pruned": with.output, "full": without.output, "pruned_ending": with.ending, "full_ending": without.ending}), replay);
                } else {
                    ctx.out.tag("product.live-store.same");
                    ctx.out.nontrivial(util::hash64(src.as_bytes()));
                }
            }
            (Err((msg, loc)), _) | (_, Err((msg, loc))) => {
                let sig = format!("panic|{}|{}", util::normalise_msg(&msg), util::panic_site(&loc));
                ctx.out.fail(idx, &sig, json!({"panic": msg, "at": loc, "program": name}), replay);
            }
        }
    }
}

fn run_product(ctx: &mut Ctx) {
    let exprs = observable_exprs();
    let positions = dead_positions();
    let total = (exprs.len() * positions.len()) as u64;
    run_live_stores(ctx, total);
    ctx.out.extra.insert("product_size".into(), json!(total));
    ctx.out.extra.insert("product_operations".into(), json!(exprs.len()));
    ctx.out.extra.insert("product_positions".into(), json!(positions.len()));
    let idxs: Vec<u64> = ctx.indices().filter(|i| *i < total).collect();
    for idx in idxs {
        ctx.out.begin(idx);
        ctx.out.evaluations += 1;
        let (ename, setup, expr) = exprs[idx as usize / positions.len()];
        let (pname, template) = positions[idx as usize % positions.len()];
        let src = template.replace('S', setup).replace('E', expr).replace('D', &state_dump(setup)) + "\n";
        let replay = json!({"engine": "prune", "stage": "product", "src": src, "operation": ename, "position": pname});
        let run = |plan: bool| util::guarded(|| pipeline::run_source(&src, RunCfg { plan, trace: true, allow_process: false, ..RunCfg::default() }));
        let (with, without) = match (run(true), run(false)) {
            (Ok(a), Ok(b)) => (a, b),
            (Err((msg, loc)), _) | (_, Err((msg, loc))) => {
                let sig = format!("panic|{}|{}", util::normalise_msg(&msg), util::panic_site(&loc));
                ctx.out.fail(idx, &sig, json!({"panic": msg, "at": loc, "src": src}), replay);
                continue;
            }
        };
        if !with.accepted {
            // e.g. an operand the checker can type statically after all: nothing to compare
            ctx.out.tag("product.rejected-by-checker");
            continue;
        }
        if with.output != without.output || with.ending != without.ending {
            let sig = if with.ending == without.ending {
                format!("product|output-differs|{ename}")
            } else {
                format!("product|ending-differs|{ename}|pruned={}|full={}", with.ending, without.ending)
            };
            ctx.out.fail(idx, &sig, json!({"position": pname, "pruned": with.output, "full": without.output, "pruned_ending": with.ending, "full_ending": without.ending, "src": src}), replay);
            continue;
        }
        ctx.out.tag(&format!("product.ending.{}", with.ending));
        let skipped = with.trace.as_ref().map_or(0, |t| t.skipped.len());
        if skipped > 0 {
            ctx.out.tag("product.something-skipped");
        }
        ctx.out.nontrivial(util::hash64(src.as_bytes()));
        if idx % 97 == 0 {
            ctx.out.sample(json!({"operation": ename, "position": pname, "src": src, "ending": with.ending, "output": with.output, "skipped": skipped}));
        }
    }
}

pub fn run(ctx: &mut Ctx) {
    if ctx.opt("stage") == Some("product") {
        run_product(ctx);
        return;
    }
    for idx in ctx.indices() {
        ctx.out.begin(idx);
        ctx.out.evaluations += 1;
        let profile = profile_for(ctx, idx);
        let mut rng = Rng::new(util::case_seed(ctx.seed, "prog", idx));
        let (mut prog, _gstats) = genp::generate(&mut rng, profile);
        let static_errors = interp::resolve(&mut prog);
        let src = print::to_source(&prog);
        if !static_errors.is_empty() {
            ctx.out.inconclusive(idx, "generator produced a statically invalid program", json!({"src": src}));
            continue;
        }
        // The model only filters out programs that may not terminate. A program that leaves the
        // documented domain (an operator applied to a run-time type it is not defined for: the
        // interpreter reports Type mismatch there) is still compared with itself.
        let model = interp::run(&prog, 300_000);
        if matches!(model.ending, interp::Ending::Fuel) {
            ctx.out.discarded += 1;
            continue;
        }
        if matches!(model.ending, interp::Ending::Stuck(..)) {
            ctx.out.tag("outside-the-model-domain");
        }
        let replay = json!({"engine": "prune", "src": src});
        let run = |plan: bool| {
            util::guarded(|| pipeline::run_source(&src, RunCfg { plan, trace: true, want_mask: true, ..RunCfg::default() }))
        };
        let (with, without) = match (run(true), run(false)) {
            (Ok(a), Ok(b)) => (a, b),
            (Err((msg, loc)), _) | (_, Err((msg, loc))) => {
                let sig = format!("panic|{}|{}", util::normalise_msg(&msg), util::panic_site(&loc));
                ctx.out.fail(idx, &sig, json!({"panic": msg, "at": loc}), replay);
                continue;
            }
        };
        if !with.accepted {
            ctx.out.discarded += 1;
            ctx.out.tag("discard.rejected");
            continue;
        }
        if with.ending == "Stack overflow" || without.ending == "Stack overflow" {
            ctx.out.discarded += 1;
            continue;
        }
        if with.output != without.output || with.ending != without.ending {
            let k = with.output.iter().zip(without.output.iter()).position(|(a, b)| a != b).unwrap_or(with.output.len().min(without.output.len()));
            let sig = if with.ending == without.ending { "output-differs".to_string() } else { format!("ending-differs|pruned={}|full={}", with.ending, without.ending) };
            ctx.out.fail(
                idx,
                &sig,
                json!({"first_difference_at": k, "pruned": with.output.get(k), "full": without.output.get(k),
                       "pruned_len": with.output.len(), "full_len": without.output.len(),
                       "pruned_ending": with.ending, "full_ending": without.ending,
                       "plan_stmt_ids": with.plan_stmt_ids, "warnings": format!("{:?}", with.warnings)}),
                replay,
            );
            continue;
        }
        // executed ⊆ reachable, judged on the run that executes everything
        let mut failed = false;
        if let (Some(mask), Some(trace)) = (&without.reachable_mask, &without.trace) {
            for id in &trace.executed {
                if !mask.get(*id as usize).copied().unwrap_or(true) {
                    ctx.out.fail(idx, "unreachable-statement-executed", json!({"stmt_id": id}), replay.clone());
                    failed = true;
                    break;
                }
            }
        }
        if failed {
            continue;
        }
        let skipped = with.trace.as_ref().map_or(0, |t| t.skipped.len());
        let pruned_fns = with.trace.as_ref().map_or(0, |t| t.pruned_functions.len());
        ctx.out.tag_n("stmts_skipped_at_runtime", skipped as u64);
        ctx.out.tag_n("functions_pruned_at_runtime", pruned_fns as u64);
        ctx.out.tag_n("plan_stmts", with.plan_stmts as u64);
        ctx.out.tag_n("plan_functions", with.plan_fns as u64);
        ctx.out.tag_n("outputs_compared", with.output.len() as u64);
        ctx.out.tag(&format!("ending.{}", with.ending));
        for (w, _, _) in &with.warnings {
            ctx.out.tag(&format!("warning.{w}"));
        }
        if with.plan_stmts + with.plan_fns > 0 && skipped >= 1 && !with.output.is_empty() {
            ctx.out.nontrivial(util::hash64(src.as_bytes()));
            ctx.out.sample(json!({"src": src, "output": with.output, "skipped_stmt_ids": with.trace.as_ref().map(|t| t.skipped.clone()), "plan": with.plan_stmt_ids}));
        }
    }
}
