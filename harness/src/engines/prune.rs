//! C03: the same program with and without the optimisation plan; statements the analysis
//! calls unreachable must never execute.

use serde_json::json;

use crate::Ctx;
use crate::model::genp::{self, Profile};
use crate::model::{interp, print};
use crate::pipeline::{self, RunCfg};
use crate::util::{self, Rng};

fn profile_for(ctx: &Ctx, idx: u64) -> Profile {
    match ctx.opt("profile").unwrap_or("deadmix") {
        "deadmix" => match idx % 10 {
            0..=5 => Profile::Dead,
            6 => Profile::Scope,
            7 => Profile::Core,
            8 => Profile::Array,
            _ => Profile::Mem,
        },
        name => Profile::from_name(name).expect("profile"),
    }
}

pub fn run(ctx: &mut Ctx) {
    for idx in ctx.indices() {
        ctx.out.begin(idx);
        ctx.out.evaluations += 1;
        let profile = profile_for(ctx, idx);
        let mut rng = Rng::new(util::case_seed(ctx.seed, "prog", idx));
        let (mut prog, _gstats) = genp::generate(&mut rng, profile);
        let static_errors = interp::resolve(&mut prog);
        let src = print::to_source(&prog);
        if !static_errors.is_empty() {
            ctx.out.inconclusive(idx, "generator produced a statically invalid program", json!({"src": src}));
            continue;
        }
        let model = interp::run(&prog, 300_000);
        if !model.ending.comparable() {
            ctx.out.discarded += 1;
            continue;
        }
        let replay = json!({"engine": "prune", "src": src});
        let run = |plan: bool| {
            util::guarded(|| pipeline::run_source(&src, RunCfg { plan, trace: true, want_mask: true, ..RunCfg::default() }))
        };
        let (with, without) = match (run(true), run(false)) {
            (Ok(a), Ok(b)) => (a, b),
            (Err((msg, loc)), _) | (_, Err((msg, loc))) => {
                let sig = format!("panic|{}|{}", util::normalise_msg(&msg), util::panic_site(&loc));
                ctx.out.fail(idx, &sig, json!({"panic": msg, "at": loc}), replay);
                continue;
            }
        };
        if !with.accepted {
            ctx.out.discarded += 1;
            ctx.out.tag("discard.rejected");
            continue;
        }
        if with.ending == "Stack overflow" || without.ending == "Stack overflow" {
            ctx.out.discarded += 1;
            continue;
        }
        if with.output != without.output || with.ending != without.ending {
            let k = with.output.iter().zip(without.output.iter()).position(|(a, b)| a != b).unwrap_or(with.output.len().min(without.output.len()));
            let sig = if with.ending == without.ending { "output-differs".to_string() } else { format!("ending-differs|pruned={}|full={}", with.ending, without.ending) };
            ctx.out.fail(
                idx,
                &sig,
                json!({"first_difference_at": k, "pruned": with.output.get(k), "full": without.output.get(k),
                       "pruned_len": with.output.len(), "full_len": without.output.len(),
                       "pruned_ending": with.ending, "full_ending": without.ending,
                       "plan_stmt_ids": with.plan_stmt_ids, "warnings": format!("{:?}", with.warnings)}),
                replay,
            );
            continue;
        }
        // executed ⊆ reachable, judged on the run that executes everything
        let mut failed = false;
        if let (Some(mask), Some(trace)) = (&without.reachable_mask, &without.trace) {
            for id in &trace.executed {
                if !mask.get(*id as usize).copied().unwrap_or(true) {
                    ctx.out.fail(idx, "unreachable-statement-executed", json!({"stmt_id": id}), replay.clone());
                    failed = true;
                    break;
                }
            }
        }
        if failed {
            continue;
        }
        let skipped = with.trace.as_ref().map_or(0, |t| t.skipped.len());
        let pruned_fns = with.trace.as_ref().map_or(0, |t| t.pruned_functions.len());
        ctx.out.tag_n("stmts_skipped_at_runtime", skipped as u64);
        ctx.out.tag_n("functions_pruned_at_runtime", pruned_fns as u64);
        ctx.out.tag_n("plan_stmts", with.plan_stmts as u64);
        ctx.out.tag_n("plan_functions", with.plan_fns as u64);
        ctx.out.tag_n("outputs_compared", with.output.len() as u64);
        ctx.out.tag(&format!("ending.{}", with.ending));
        for (w, _, _) in &with.warnings {
            ctx.out.tag(&format!("warning.{w}"));
        }
        if with.plan_stmts + with.plan_fns > 0 && skipped >= 1 && !with.output.is_empty() {
            ctx.out.nontrivial(util::hash64(src.as_bytes()));
            ctx.out.sample(json!({"src": src, "output": with.output, "skipped_stmt_ids": with.trace.as_ref().map(|t| t.skipped.clone()), "plan": with.plan_stmt_ids}));
        }
    }
}
