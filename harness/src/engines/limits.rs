//! C18: exceeding an analysis budget only disables optimisation, never correctness.
//!
//! One parametric program family per metric. For each family the size is found (by search on
//! the *observed* metric) at which the metric is just below, at and just above its cap; each of
//! those programs is run and the contract is evaluated on what was observed.

use std::process::{Command, Stdio};

use naijascript::analysis::limits::{self, DEFAULT_CAPS};
use naijascript::analysis::{cfg, ids::FunctionId};
use naijascript::arena::Arena;
use naijascript::diagnostics::Severity;
use naijascript::resolver::Resolver;
use naijascript::runtime::Runtime;
use naijascript::syntax::parser::Parser;
use naijascript::syntax::scanner::Lexer;
use naijascript::verif;
use serde_json::json;

use crate::Ctx;
use crate::util;

#[derive(Clone, Debug, Default)]
struct Metrics {
    functions: u64,
    locals: u64,
    scopes: u64,
    statements: u64,
    total_ops: u64,
    max_ops_fn: u64,
    total_blocks: u64,
    max_blocks_fn: u64,
    user_calls: u64,
    summary_events: u64,
    liveness_events: u64,
}

impl Metrics {
    fn get(&self, name: &str) -> u64 {
        match name {
            "functions" => self.functions,
            "locals" => self.locals,
            "scopes" => self.scopes,
            "statements" => self.statements,
            "total_ops" => self.total_ops,
            "ops_per_function" => self.max_ops_fn,
            "total_blocks" => self.total_blocks,
            "blocks_per_function" => self.max_blocks_fn,
            "user_calls" => self.user_calls,
            "summary_events" => self.summary_events,
            "liveness_events" => self.liveness_events,
            _ => 0,
        }
    }

    fn to_json(&self) -> serde_json::Value {
        json!({"functions": self.functions, "locals": self.locals, "scopes": self.scopes, "statements": self.statements,
               "total_ops": self.total_ops, "ops_per_function": self.max_ops_fn, "total_blocks": self.total_blocks,
               "blocks_per_function": self.max_blocks_fn, "user_calls": self.user_calls,
               "summary_events": self.summary_events, "liveness_events": self.liveness_events})
    }
}

fn cap_of(name: &str) -> u64 {
    let c = DEFAULT_CAPS;
    match name {
        "functions" => u64::from(c.max_functions),
        "locals" => u64::from(c.max_locals),
        "scopes" => u64::from(c.max_scopes),
        "statements" => u64::from(c.max_statements),
        "total_ops" => u64::from(c.max_total_ops),
        "ops_per_function" => u64::from(c.max_ops_per_function),
        "total_blocks" => u64::from(c.max_total_blocks),
        "blocks_per_function" => u64::from(c.max_blocks_per_function),
        "user_calls" => u64::from(c.max_direct_user_calls),
        "summary_events" => c.max_summary_events,
        "liveness_events" => c.max_liveness_events,
        _ => u64::MAX,
    }
}

const METRIC_NAMES: [&str; 11] = [
    "functions", "locals", "scopes", "statements", "total_ops", "ops_per_function", "total_blocks", "blocks_per_function", "user_calls",
    "summary_events", "liveness_events",
];

/// metrics over their cap, by this harness's own reading of the caps (order irrelevant)
fn exceeded(m: &Metrics) -> Vec<&'static str> {
    METRIC_NAMES.iter().copied().filter(|n| m.get(n) > cap_of(n)).collect()
}

struct Observed {
    metrics: Metrics,
    accepted: bool,
    analysis_warnings: usize,
    semantic_warnings: Vec<String>,
    /// (message, byte offset of the span start) of every non-`analysis` warning
    warning_sites: Vec<(String, usize)>,
    plan_present: bool,
    crate_says: Option<(String, u64, u64)>,
    output: Vec<String>,
    ending: String,
    skipped: u64,
}

const GIB: usize = 1 << 30;

fn observe(src: &str, run: bool) -> Observed {
    let arena = Arena::new(16 * GIB).expect("arena");
    let res_arena = Arena::new(16 * GIB).expect("arena");
    let frame = Arena::new(4 * GIB).expect("arena");
    let lexer = Lexer::new(src, &arena);
    let mut parser = Parser::new(lexer, &arena);
    let (root, perr) = parser.parse_program();
    let mut o = Observed {
        metrics: Metrics::default(),
        accepted: false,
        analysis_warnings: 0,
        semantic_warnings: Vec::new(),
        warning_sites: Vec::new(),
        plan_present: false,
        crate_says: None,
        output: Vec::new(),
        ending: "rejected".into(),
        skipped: 0,
    };
    if !perr.diagnostics.is_empty() {
        o.ending = format!("rejected: {}", perr.diagnostics[0].message);
        return o;
    }
    let mut resolver = Resolver::with_facts_arena(&res_arena, &arena);
    resolver.resolve(root);
    let facts = &resolver.facts;
    let counts = cfg::count_program(facts, &res_arena);
    let functions = facts.functions.len() as u64;
    let locals = facts.locals.len() as u64;
    let mut liveness = 0u64;
    for (idx, (b, ops)) in counts.function_blocks.iter().zip(&counts.function_ops).enumerate() {
        let r = facts.local_range(FunctionId(idx as u32));
        let l = u64::from(r.end - r.start);
        liveness = liveness.saturating_add((u64::from(*b) * 2 + u64::from(*ops)).saturating_mul(l));
    }
    o.metrics = Metrics {
        functions,
        locals,
        scopes: facts.scopes.len() as u64,
        statements: facts.stmt_effects.len() as u64,
        total_ops: u64::from(counts.total_ops),
        max_ops_fn: counts.function_ops.iter().copied().map(u64::from).max().unwrap_or(0),
        total_blocks: u64::from(counts.total_blocks),
        max_blocks_fn: counts.function_blocks.iter().copied().map(u64::from).max().unwrap_or(0),
        user_calls: facts.user_calls.len() as u64,
        summary_events: functions.saturating_mul(functions + 2 * locals + 2),
        liveness_events: liveness,
    };
    o.crate_says = limits::first_exceeded_limit(facts, &counts, DEFAULT_CAPS).map(|l| (l.metric.to_string(), l.observed, l.limit));
    o.accepted = !resolver.errors.has_errors();
    for d in &resolver.errors.diagnostics {
        if d.severity == Severity::Warning {
            if d.code == "analysis" {
                o.analysis_warnings += 1;
            } else {
                o.semantic_warnings.push(d.message.to_string());
                o.warning_sites.push((d.message.to_string(), d.span.start));
            }
        }
    }
    o.plan_present = resolver.optimization_plan.is_some();
    if !o.accepted {
        o.ending = "rejected by checker".into();
        return o;
    }
    if !run {
        o.ending = "not run".into();
        return o;
    }
    let (facts, plan) = resolver.into_artifacts();
    let mut runtime = Runtime::new(&arena, Some(&frame));
    verif::reset_counters();
    let errs = runtime.run_with_analysis(root, &facts, plan.as_ref());
    o.ending = errs.diagnostics.iter().find(|d| d.severity == Severity::Error).map_or_else(|| "ok".to_string(), |d| d.message.to_string());
    let c = verif::counters();
    o.skipped = c[verif::COUNTER_NAMES.iter().position(|n| *n == "stmt_skipped").unwrap()];
    o.output = runtime.output.iter().map(ToString::to_string).collect();
    o
}

/// Sentinels: one certainly unused variable, one certainly unreachable statement.
const SENTINEL: &str = "make zz_unused get 7\ndo zz_s() start\nreturn 1\nshout(\"never\")\nend\nshout(zz_s())\n\
make zz_x get \"outer\"\ndo zz_show() start\nreturn zz_x\nend\ndo zz_h() start\nreturn \"outer-h\"\nend\ndo zz_use() start\nreturn zz_h() add zz_h()\nend\n\
do zz_caller(zz_p) start\nmake zz_x get \"inner\"\ndo zz_h() start\nreturn \"inner-h\"\nend\nreturn zz_show() add zz_p add zz_use() add zz_h()\nend\nshout(zz_caller(\"-\"))\n";
/// what the sentinel prints: names resolve lexically whether or not the analyses ran
const SENTINEL_OUT: [&str; 2] = ["1", "outer-outer-houter-hinner-h"];

fn sentinel_plus(rest: Vec<String>) -> Vec<String> {
    SENTINEL_OUT.iter().map(|x| x.to_string()).chain(rest).collect()
}

struct Family {
    name: &'static str,
    target: &'static str,
    build: fn(u64) -> (String, Vec<String>),
}

fn fam_statements(n: u64) -> (String, Vec<String>) {
    let mut s = String::with_capacity(n as usize * 16 + 200);
    s.push_str(SENTINEL);
    s.push_str("make t get 0\n");
    for _ in 0..n {
        s.push_str("t get t add 1\n");
    }
    s.push_str("shout(t)\n");
    (s, sentinel_plus(vec![n.to_string()]))
}

fn fam_functions(n: u64) -> (String, Vec<String>) {
    let mut s = String::with_capacity(n as usize * 20 + 200);
    s.push_str(SENTINEL);
    for k in 0..n {
        s.push_str(&format!("do f{k}() start\nend\n"));
    }
    s.push_str("shout(\"done\")\n");
    (s, sentinel_plus(vec!["done".to_string()]))
}

fn fam_locals(n: u64) -> (String, Vec<String>) {
    // one never-called function with n parameters (parameters are locals, and a huge
    // parameter list keeps every other metric small)
    let mut s = String::with_capacity(n as usize * 8 + 200);
    s.push_str(SENTINEL);
    s.push_str("do big(");
    for k in 0..n {
        if k > 0 {
            s.push(',');
        }
        s.push_str(&format!("p{k}"));
    }
    s.push_str(") start\nend\nshout(\"done\")\n");
    (s, sentinel_plus(vec!["done".to_string()]))
}

fn fam_scopes(n: u64) -> (String, Vec<String>) {
    let mut s = String::with_capacity(n as usize * 10 + 200);
    s.push_str(SENTINEL);
    for _ in 0..n {
        s.push_str("start\nend\n");
    }
    s.push_str("shout(\"done\")\n");
    (s, sentinel_plus(vec!["done".to_string()]))
}

fn fam_calls(n: u64) -> (String, Vec<String>) {
    let mut s = String::with_capacity(n as usize * 10 + 200);
    let mut out: Vec<String> = SENTINEL_OUT.iter().map(|x| x.to_string()).collect();
    s.push_str(SENTINEL);
    s.push_str("do c() start\nreturn 1\nend\n");
    let mut left = n;
    while left > 0 {
        let k = left.min(8);
        s.push_str("shout(c()");
        for _ in 1..k {
            s.push_str(" add c()");
        }
        s.push_str(")\n");
        out.push(k.to_string());
        left -= k;
    }
    (s, out)
}

fn fam_blocks_fn(n: u64) -> (String, Vec<String>) {
    let mut s = String::with_capacity(n as usize * 24 + 200);
    s.push_str(SENTINEL);
    for _ in 0..n {
        s.push_str("jasi (false) start\nend\n");
    }
    s.push_str("shout(\"done\")\n");
    (s, sentinel_plus(vec!["done".to_string()]))
}

fn fam_total_blocks(n: u64) -> (String, Vec<String>) {
    // loops spread over functions of 15 000 loops each, so that no single function is over its own cap
    let mut s = String::with_capacity(n as usize * 24 + 200);
    s.push_str(SENTINEL);
    let mut left = n;
    let mut f = 0;
    while left > 0 {
        let k = left.min(15_000);
        s.push_str(&format!("do lf{f}() start\n"));
        for _ in 0..k {
            s.push_str("jasi (false) start\nend\n");
        }
        s.push_str("end\n");
        left -= k;
        f += 1;
    }
    s.push_str("shout(\"done\")\n");
    (s, sentinel_plus(vec!["done".to_string()]))
}

fn fam_liveness(n: u64) -> (String, Vec<String>) {
    let mut s = String::with_capacity(n as usize * 30 + 200);
    let mut out: Vec<String> = SENTINEL_OUT.iter().map(|x| x.to_string()).collect();
    s.push_str(SENTINEL);
    for k in 0..n {
        s.push_str(&format!("make v{k} get {k}\n"));
    }
    for k in 0..n {
        s.push_str(&format!("shout(v{k})\n"));
        out.push(k.to_string());
    }
    (s, out)
}

/// A second scoping probe placed after everything else, so that its calls are the last ones the
/// resolver records: names must resolve lexically for the tail of a huge program as well.
const TAIL_PROBE: &str = "do zz_ttag() start\nreturn \"t-outer\"\nend\ndo zz_tprobe() start\nreturn zz_ttag()\nend\nstart\ndo zz_ttag() start\nreturn \"t-inner\"\nend\nshout(zz_ttag())\nshout(zz_tprobe())\nend\n";
const TAIL_OUT: [&str; 2] = ["t-inner", "t-outer"];

fn build_family(f: &Family, n: u64) -> (String, Vec<String>) {
    let (mut src, mut expected) = (f.build)(n);
    if f.name.ends_with("without-any-call") {
        return (src, expected);
    }
    src.push_str(TAIL_PROBE);
    expected.extend(TAIL_OUT.iter().map(|x| x.to_string()));
    (src, expected)
}

/// Declarations and reads only: no user function is defined or called anywhere in the program
/// (the head and tail probes are left out), yet the liveness bound applies to it all the same.
fn fam_liveness_no_calls(n: u64) -> (String, Vec<String>) {
    let mut s = String::with_capacity(n as usize * 30 + 200);
    let mut out: Vec<String> = Vec::new();
    s.push_str("make zz_unused get 7\njasi (true) start\ncomot\nshout(\"never\")\nend\n");
    for k in 0..n {
        s.push_str(&format!("make v{k} get {k}\n"));
    }
    for k in 0..n {
        s.push_str(&format!("shout(v{k})\n"));
        out.push(k.to_string());
    }
    (s, out)
}

fn families() -> Vec<Family> {
    vec![
        Family { name: "statements", target: "statements", build: fam_statements },
        Family { name: "statements", target: "total_ops", build: fam_statements },
        Family { name: "functions", target: "functions", build: fam_functions },
        Family { name: "functions", target: "summary_events", build: fam_functions },
        Family { name: "parameters", target: "locals", build: fam_locals },
        Family { name: "blocks", target: "scopes", build: fam_scopes },
        Family { name: "calls", target: "user_calls", build: fam_calls },
        Family { name: "loops", target: "blocks_per_function", build: fam_blocks_fn },
        Family { name: "loops-in-functions", target: "total_blocks", build: fam_total_blocks },
        Family { name: "declare-then-read", target: "liveness_events", build: fam_liveness },
        Family { name: "statements", target: "ops_per_function", build: fam_statements },
        Family { name: "declare-then-read-without-any-call", target: "liveness_events", build: fam_liveness_no_calls },
    ]
}

/// Smallest n whose observed target metric exceeds the cap (None if the source would pass 48 MB).
fn search(f: &Family, log: &mut Vec<serde_json::Value>) -> Option<u64> {
    let cap = cap_of(f.target);
    let at = |n: u64| -> u64 { observe(&build_family(f, n).0, false).metrics.get(f.target) };
    // linear extrapolation from two small sizes gives the bracket, bisection finishes
    let (n1, n2) = (16u64, 48u64);
    let (m1, m2) = (at(n1), at(n2));
    if m2 <= m1 {
        return None;
    }
    let slope = (m2 - m1) as f64 / (n2 - n1) as f64;
    let mut guess = if f.target == "summary_events" || f.target == "liveness_events" {
        // quadratic in n
        ((cap as f64) / (m2 as f64 / (n2 * n2) as f64)).sqrt() as u64
    } else {
        (n1 as f64 + (cap as f64 - m1 as f64) / slope) as u64
    };
    guess = guess.clamp(1, 3_000_000);
    // the metrics are (piecewise) linear or quadratic in n, so the guess is nearly exact:
    // start with a tight bracket and widen geometrically only if it does not hold
    let quadratic = f.target == "summary_events" || f.target == "liveness_events";
    let mut width = if quadratic { guess / 400 + 4 } else { 4 };
    let mut lo = guess.saturating_sub(width).max(1);
    while at(lo) > cap && lo > 1 {
        width *= 4;
        lo = lo.saturating_sub(width).max(1);
    }
    let mut hi = guess + if quadratic { guess / 400 + 4 } else { 4 };
    let mut guard = 0;
    while at(hi) <= cap {
        width *= 4;
        hi += width;
        guard += 1;
        if guard > 12 || hi > 3_000_000 {
            return None;
        }
    }
    while hi - lo > 1 {
        let mid = lo + (hi - lo) / 2;
        if at(mid) > cap { hi = mid } else { lo = mid }
    }
    log.push(json!({"family": f.name, "target": f.target, "cap": cap, "first_size_over": hi, "metric_there": at(hi), "metric_one_below": at(lo)}));
    Some(hi)
}

fn judge(ctx: &mut Ctx, idx: u64, f: &Family, n: u64, position: &str, naija: Option<&str>, scratch: Option<&str>) {
    ctx.out.evaluations += 1;
    let (src, expected) = build_family(f, n);
    let replay = json!({"family": f.name, "target": f.target, "size": n, "position": position});
    let o = match util::guarded(|| observe(&src, true)) {
        Ok(o) => o,
        Err((msg, loc)) => {
            let sig = format!("panic|{}|{}", util::normalise_msg(&msg), util::panic_site(&loc));
            ctx.out.fail(idx, &sig, json!({"panic": msg, "at": loc, "family": f.name, "size": n}), replay);
            return;
        }
    };
    let over = exceeded(&o.metrics);
    let detail = json!({"family": f.name, "target": f.target, "position": position, "size": n, "metrics": o.metrics.to_json(), "over": over,
                        "crate_says": o.crate_says, "analysis_warnings": o.analysis_warnings, "semantic_warnings": o.semantic_warnings.len(),
                        "plan_present": o.plan_present, "skipped": o.skipped, "ending": o.ending, "source_bytes": src.len()});
    ctx.out.record(&detail);
    let fail = |ctx: &mut Ctx, what: &str| {
        ctx.out.fail(idx, &format!("{what}|{}|{position}", f.target), detail.clone(), replay.clone());
    };
    if !o.accepted {
        return fail(ctx, "rejected");
    }
    if o.output != expected || o.ending != "ok" {
        return fail(ctx, "wrong-result");
    }
    if over.is_empty() != o.crate_says.is_none() {
        return fail(ctx, "limit-decision-disagrees-with-caps");
    }
    if over.is_empty() {
        if o.analysis_warnings != 0 {
            return fail(ctx, "limit-warning-although-within-caps");
        }
        if !o.plan_present {
            return fail(ctx, "no-plan-although-within-caps");
        }
        let unused = o.semantic_warnings.iter().any(|w| w == "Unused variable");
        let unreachable = o.semantic_warnings.iter().any(|w| w == "Unreachable code");
        if !unused || !unreachable {
            return fail(ctx, "analysis-warnings-missing-although-within-caps");
        }
        if o.skipped == 0 {
            return fail(ctx, "no-pruning-although-within-caps");
        }
        ctx.out.tag(&format!("within-caps.{}", f.target));
    } else {
        if o.analysis_warnings != 1 {
            return fail(ctx, "not-exactly-one-limit-warning");
        }
        if !o.semantic_warnings.is_empty() {
            return fail(ctx, "analysis-warnings-although-over-cap");
        }
        if o.plan_present || o.skipped != 0 {
            return fail(ctx, "pruning-although-over-cap");
        }
        ctx.out.tag(&format!("over-cap.{}.fired={}", f.target, o.crate_says.as_ref().map_or("?", |c| c.0.as_str())));
    }
    // the configuration users run: the CLI with its 256 MiB scratch arenas
    let cli_max = ctx.opt_u64("cli-max-source", u64::MAX);
    if let (Some(naija), Some(scratch)) = (naija, scratch)
        && (src.len() as u64) <= cli_max
    {
        ctx.out.evaluations += 1;
        let path = format!("{scratch}/limits-{idx}-{position}.ns");
        std::fs::write(&path, &src).expect("write");
        let out = Command::new(naija).arg(&path).stdin(Stdio::null()).stdout(Stdio::piped()).stderr(Stdio::piped()).output();
        let _ = std::fs::remove_file(&path);
        match out {
            Ok(out) => {
                let stderr = String::from_utf8_lossy(&out.stderr).to_string();
                let lines: Vec<String> = String::from_utf8_lossy(&out.stdout).lines().filter(|l| !l.contains('\u{1b}') && !l.trim().is_empty()).map(str::to_string).collect();
                if out.status.code() != Some(0) {
                    let why = if stderr.contains("memory allocation of") { "allocation-failure-abort" } else { "nonzero-exit" };
                    ctx.out.fail(idx, &format!("cli|{why}|{}|{position}", f.target), json!({"code": out.status.code(), "stderr": stderr.chars().take(300).collect::<String>(), "metrics": o.metrics.to_json(), "size": n}), replay.clone());
                    return;
                }
                // warnings are rendered with ANSI colours; the shout lines are what remains
                let tail: Vec<String> = lines.iter().rev().take(expected.len()).rev().cloned().collect();
                if tail != expected {
                    ctx.out.fail(idx, &format!("cli|wrong-result|{}|{position}", f.target), json!({"size": n}), replay.clone());
                    return;
                }
                ctx.out.tag("cli.ok");
            }
            Err(e) => ctx.out.inconclusive(idx, "could not run the CLI", json!({"error": e.to_string()})),
        }
    }
    let t = o.metrics.get(f.target);
    let cap = cap_of(f.target);
    if t + 1 >= cap && t <= cap + 1 {
        ctx.out.nontrivial(util::hash64(format!("{}|{}|{n}", f.name, f.target).as_bytes()));
        ctx.out.sample(json!({"family": f.name, "target": f.target, "position": position, "size": n, "metric": t, "cap": cap, "over": over, "fired": o.crate_says}));
    } else {
        ctx.out.tag(&format!("cap-not-reachable-exactly.{}", f.target));
    }
}

// ----- programs far below every cap that are hard for the analyses -------------------------
//
// "Just below a limit the analyses run as usual" must hold a fortiori far below every limit,
// however the call graph is shaped. A fixed tail of statements whose warnings and pruning depend
// on the interprocedural summaries follows a call graph of n functions; what the analyses say
// about the tail, and how many statements the run skips, must be what they are for n = 3.

const DENSE_SIZES: [u64; 8] = [3, 24, 90, 200, 340, 420, 640, 900];
const DENSE_SHAPES: [&str; 6] = ["ring-forward", "ring-backward", "chain-forward", "chain-backward", "two-callees", "ring-forward-writing-global"];

fn dense_program(shape: &str, n: u64) -> (String, usize, Vec<String>) {
    let mut s = String::new();
    let writes = shape == "ring-forward-writing-global";
    if writes {
        s.push_str("make zz_g get 0\n");
    }
    let def = |i: u64, callees: &[u64], s: &mut String| {
        s.push_str(&format!("do f{i}(k) start\n"));
        if writes {
            s.push_str("    zz_g get zz_g add 1\n");
        }
        s.push_str("    if to say (k small pass 1) start\n        return 0\n    end\n");
        let calls: Vec<String> = callees.iter().map(|c| format!("f{c}(k minus 1)")).collect();
        if calls.is_empty() {
            s.push_str("    return 1\nend\n");
        } else {
            s.push_str(&format!("    return 1 add {}\nend\n", calls.join(" add ")));
        }
    };
    let order: Vec<u64> = if shape.ends_with("backward") { (0..n).rev().collect() } else { (0..n).collect() };
    for &i in &order {
        match shape {
            "ring-forward" | "ring-backward" | "ring-forward-writing-global" => def(i, &[(i + 1) % n], &mut s),
            "chain-forward" | "chain-backward" => {
                if i + 1 < n { def(i, &[i + 1], &mut s) } else { def(i, &[], &mut s) }
            }
            _ => def(i, &[(i + 1) % n, (i * 7 + 3) % n], &mut s),
        }
    }
    let tail_at = s.len();
    // the tail: two dead stores around a call into the graph, a live store, an unused variable,
    // unreachable code in a function, and a statement the plan may skip
    s.push_str("make zz_d get 1\nzz_d get 2\nmake zz_r get f0(2)\nzz_d get 3\nshout(zz_r)\nshout(zz_d)\n");
    s.push_str("make zz_unused get 7\ndo zz_s() start\n    return 1\n    shout(\"never\")\nend\nshout(zz_s())\n");
    let hops: u64 = match shape {
        "two-callees" => 7,          // 1 + 2 + 4 calls at k = 2, 1, 0
        _ => 3u64.min(n),
    };
    let r = match shape {
        "two-callees" => 3,          // 1 + (1 + 0 + 0) + (1 + 0 + 0)
        "chain-forward" | "chain-backward" if n < 3 => n - 1,
        _ => 2,
    };
    let mut out = vec![r.to_string(), "3".to_string(), "1".to_string()];
    if writes {
        s.push_str("shout(zz_g)\n");
        out.push(hops.to_string());
    }
    (s, tail_at, out)
}

struct TailView {
    warnings: Vec<(String, usize)>,
    skipped: u64,
}

fn tail_view(o: &Observed, tail_at: usize) -> TailView {
    let mut w: Vec<(String, usize)> = o.warning_sites.iter().filter(|(_, at)| *at >= tail_at).map(|(m, at)| (m.clone(), at - tail_at)).collect();
    w.sort();
    TailView { warnings: w, skipped: o.skipped }
}

fn run_dense(ctx: &mut Ctx) {
    let total = (DENSE_SHAPES.len() * (DENSE_SIZES.len() - 1)) as u64;
    let idxs: Vec<u64> = ctx.indices().filter(|i| *i < total).collect();
    for idx in idxs {
        ctx.out.begin(idx);
        let shape = DENSE_SHAPES[idx as usize / (DENSE_SIZES.len() - 1)];
        let n = DENSE_SIZES[1 + idx as usize % (DENSE_SIZES.len() - 1)];
        if n > ctx.opt_u64("dense-max", 420) {
            continue;
        }
        ctx.out.evaluations += 1;
        let replay = json!({"stage": "dense", "shape": shape, "size": n});
        let (base_src, base_tail, base_out) = dense_program(shape, DENSE_SIZES[0]);
        let (src, tail_at, expected) = dense_program(shape, n);
        let both = util::guarded(|| (observe(&base_src, true), observe(&src, true)));
        let (b, o) = match both {
            Ok(x) => x,
            Err((msg, loc)) => {
                let sig = format!("panic|{}|{}", util::normalise_msg(&msg), util::panic_site(&loc));
                ctx.out.fail(idx, &sig, json!({"panic": msg, "at": loc, "shape": shape, "size": n}), replay);
                continue;
            }
        };
        let over = exceeded(&o.metrics);
        let (bv, ov) = (tail_view(&b, base_tail), tail_view(&o, tail_at));
        let detail = json!({"shape": shape, "size": n, "metrics": o.metrics.to_json(), "over": over, "crate_says": o.crate_says,
                            "analysis_warnings": o.analysis_warnings, "plan_present": o.plan_present, "skipped": o.skipped, "skipped_at_size_3": b.skipped,
                            "tail_warnings": ov.warnings, "tail_warnings_at_size_3": bv.warnings, "ending": o.ending, "output": o.output});
        ctx.out.record(&json!({"dense": shape, "size": n, "functions": o.metrics.functions, "summary_events_bound": o.metrics.summary_events,
                               "skipped": o.skipped, "tail_warnings": ov.warnings.len()}));
        let fail = |ctx: &mut Ctx, what: &str| ctx.out.fail(idx, &format!("dense|{what}|{shape}"), detail.clone(), replay.clone());
        if !b.accepted || b.output != base_out || b.ending != "ok" || bv.warnings.is_empty() || b.skipped == 0 {
            ctx.out.inconclusive(idx, "dense: the size-3 baseline is not what the generator expects", json!({"shape": shape, "output": b.output, "ending": b.ending, "warnings": bv.warnings, "skipped": b.skipped}));
            continue;
        }
        if !over.is_empty() {
            ctx.out.inconclusive(idx, "dense: program is over a cap", json!({"shape": shape, "size": n, "over": over}));
            continue;
        }
        if !o.accepted {
            fail(ctx, "rejected");
            continue;
        }
        if o.output != expected || o.ending != "ok" {
            fail(ctx, "wrong-result");
            continue;
        }
        if o.crate_says.is_some() || o.analysis_warnings != 0 {
            fail(ctx, "limit-warning-although-within-caps");
            continue;
        }
        if !o.plan_present {
            fail(ctx, "no-plan-although-within-caps");
            continue;
        }
        if ov.warnings != bv.warnings {
            fail(ctx, "analysis-warnings-depend-on-size");
            continue;
        }
        if ov.skipped != bv.skipped {
            fail(ctx, "pruning-depends-on-size");
            continue;
        }
        ctx.out.tag(&format!("dense.{shape}"));
        ctx.out.tag("dense.within-caps-same-as-small");
        if n >= 90 {
            ctx.out.nontrivial(util::hash64(format!("dense|{shape}|{n}").as_bytes()));
        }
    }
}

pub fn run(ctx: &mut Ctx) {
    if ctx.opt("stage") == Some("dense") {
        run_dense(ctx);
        return;
    }
    let fams = families();
    let naija = ctx.opt("naija").map(str::to_string);
    let scratch = ctx.opt("scratch").map(str::to_string);
    let idxs: Vec<u64> = ctx.indices().filter(|i| (*i as usize) < fams.len()).collect();
    for idx in idxs {
        ctx.out.begin(idx);
        let f = &fams[idx as usize];
        // two families take minutes in the implementation's resolver (quadratic bookkeeping of
        // direct callees / scopes); they are left to the thorough tier
        if ctx.opt("skip-slow").is_some() && matches!(f.target, "user_calls" | "total_blocks") {
            if f.target == "user_calls" {
                // no search in the quick tier: one program a little above the cap (the contract is
                // evaluated on the observed metrics, whatever they turn out to be)
                judge(ctx, idx, f, cap_of("user_calls") + 56, "above-fixed-size", naija.as_deref(), scratch.as_deref());
                ctx.out.tag("quick-fixed-size-probe.user_calls");
            } else {
                ctx.out.tag(&format!("skipped-in-quick.{}", f.target));
            }
            continue;
        }
        let mut log = Vec::new();
        let Some(first_over) = search(f, &mut log) else {
            ctx.out.record(&json!({"family": f.name, "target": f.target, "note": "cap not reachable with this family below the size limit"}));
            ctx.out.tag(&format!("unreachable.{}", f.target));
            continue;
        };
        for l in &log {
            ctx.out.record(l);
        }
        // below, at (largest size not over), above
        if first_over >= 3 {
            judge(ctx, idx, f, first_over - 2, "below", naija.as_deref(), scratch.as_deref());
        }
        judge(ctx, idx, f, first_over - 1, "at", naija.as_deref(), scratch.as_deref());
        judge(ctx, idx, f, first_over, "above", naija.as_deref(), scratch.as_deref());
    }
}
