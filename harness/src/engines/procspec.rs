//! Engine `procspec` (C15): children get exactly the configured argv/env/cwd/stdin; invalid,
//! over-limit or policy-forbidden commands are refused before anything is spawned.
//!
//! A command specification (sequence of builder calls) is generated, rendered as a script, run
//! through the real pipeline under a chosen `HostPolicy`, and what `vhelper report` wrote into a
//! side file is compared with the generator's own record of the builder calls. The verdict the
//! command should get (run / refused / denied) comes from `judge`, which is written from the
//! property text and docs/PROCESS_EXECUTION.md, not from `ProcessCommand::validate`.
//!
//! Options: `--vhelper PATH --scratch DIR --stage limits|invalid|random [--dump 1]`.

use std::collections::{BTreeMap, BTreeSet};
use std::os::unix::ffi::OsStrExt;
use std::os::unix::fs::MetadataExt;
use std::path::Path;
use std::time::Instant;

use naijascript::diagnostics::AsStr;
use naijascript::process::{HostPolicy, ProcessCaps};
use naijascript::runtime::RuntimeErrorKind;
use serde_json::{Value as J, json};

use crate::Ctx;
use crate::pipeline::{self, RunCfg};
use crate::util::{self, Rng};

// ---------------------------------------------------------------------------
// Shared with proccap
// ---------------------------------------------------------------------------

/// Error category texts, taken from the crate so that rewording a message is not an alarm.
pub struct Endings {
    pub invalid: &'static str,
    pub denied: &'static str,
    pub limit: &'static str,
    pub utf8: &'static str,
    pub timeout: &'static str,
    pub spawn: &'static str,
}

pub fn endings() -> Endings {
    Endings {
        invalid: RuntimeErrorKind::ProcessSpecInvalid("").as_str(),
        denied: RuntimeErrorKind::ProcessDenied.as_str(),
        limit: RuntimeErrorKind::ProcessOutputLimitExceeded("").as_str(),
        utf8: RuntimeErrorKind::ProcessInvalidUtf8("").as_str(),
        timeout: RuntimeErrorKind::ProcessTimeout.as_str(),
        spawn: RuntimeErrorKind::ProcessSpawnFailed("").as_str(),
    }
}

/// Renders `s` as a double-quoted script literal.
pub fn lit(s: &str) -> String {
    let mut q = String::with_capacity(s.len() + 2);
    q.push('"');
    for ch in s.chars() {
        match ch {
            '\\' => q.push_str("\\\\"),
            '"' => q.push_str("\\\""),
            '\n' => q.push_str("\\n"),
            '\t' => q.push_str("\\t"),
            _ => q.push(ch),
        }
    }
    q.push('"');
    q
}

/// A literal is taken verbatim when it has no `{`, or when it contains an escape sequence
/// (the scanner then hands an owned buffer to the parser, which does not look for templates).
/// CR cannot be written at all.
pub fn lit_ok(s: &str) -> bool {
    !s.contains('\r') && (!s.contains('{') || s.contains(['\\', '"', '\n', '\t']))
}

pub fn hex(bytes: &[u8]) -> String {
    bytes.iter().map(|b| format!("{b:02x}")).collect()
}

pub fn unhex(s: &str) -> Vec<u8> {
    let b = s.as_bytes();
    let v = |c: u8| match c {
        b'0'..=b'9' => c - b'0',
        b'a'..=b'f' => c - b'a' + 10,
        _ => 0,
    };
    b.chunks(2).filter(|c| c.len() == 2).map(|c| (v(c[0]) << 4) | v(c[1])).collect()
}

pub fn caps_json(c: &ProcessCaps) -> J {
    json!({
        "max_program_bytes": c.max_program_bytes, "max_cwd_bytes": c.max_cwd_bytes, "max_args": c.max_args,
        "max_arg_bytes": c.max_arg_bytes, "max_total_arg_bytes": c.max_total_arg_bytes,
        "max_env_pairs": c.max_env_pairs, "max_env_key_bytes": c.max_env_key_bytes,
        "max_env_value_bytes": c.max_env_value_bytes, "max_total_env_bytes": c.max_total_env_bytes,
        "max_stdin_bytes": c.max_stdin_bytes, "max_capture_bytes_per_stream": c.max_capture_bytes_per_stream,
        "default_timeout_ms": c.default_timeout_ms, "max_timeout_ms": c.max_timeout_ms, "wait_poll_ms": c.wait_poll_ms,
    })
}

fn show(s: &str) -> String {
    show_n(s, 120)
}

fn show_n(s: &str, n: usize) -> String {
    let t: String = s.chars().take(n).collect();
    format!("{t:?}{}", if s.len() > t.len() { format!("… ({} bytes)", s.len()) } else { String::new() })
}

// ---------------------------------------------------------------------------
// Command specification and its model
// ---------------------------------------------------------------------------

#[derive(Clone, Debug)]
enum Val {
    Str(String),
    Num(f64),
    Bool(bool),
    Null,
    Arr(Vec<Val>),
}

impl Val {
    /// Script expression.
    fn expr(&self) -> String {
        match self {
            Val::Str(s) => lit(s),
            Val::Num(n) => format!("{n}"),
            Val::Bool(b) => format!("{b}"),
            Val::Null => "null".into(),
            Val::Arr(items) => format!("[{}]", items.iter().map(Val::expr).collect::<Vec<_>>().join(", ")),
        }
    }

    /// What the child must see: the `to_string` rendering.
    fn text(&self) -> String {
        match self {
            Val::Str(s) => s.clone(),
            Val::Num(n) => format!("{n}"),
            Val::Bool(b) => format!("{b}"),
            Val::Null => "null".into(),
            Val::Arr(items) => {
                let parts: Vec<String> = items
                    .iter()
                    .map(|v| match v {
                        Val::Str(s) => format!("\"{s}\""),
                        other => other.text(),
                    })
                    .collect();
                format!("[{}]", parts.join(", "))
            }
        }
    }

    fn kind(&self) -> &'static str {
        match self {
            Val::Str(..) => "string",
            Val::Num(..) => "number",
            Val::Bool(..) => "boolean",
            Val::Null => "null",
            Val::Arr(..) => "array",
        }
    }
}

#[derive(Clone, Debug)]
enum Call {
    Arg(Val),
    Cwd(String),
    Env(String, Val),
    StdinText(Val),
    StdinNull,
    StdinInherit,
    Out(u8),
    Err(u8),
    Timeout(f64),
}

impl Call {
    fn letter(&self) -> char {
        match self {
            Call::Arg(..) => 'a',
            Call::Cwd(..) => 'c',
            Call::Env(..) => 'e',
            Call::StdinText(..) | Call::StdinNull | Call::StdinInherit => 'i',
            Call::Out(..) => 'o',
            Call::Err(..) => 'r',
            Call::Timeout(..) => 't',
        }
    }

    fn render(&self) -> String {
        const POL: [&str; 3] = ["capture", "inherit", "null"];
        match self {
            Call::Arg(v) => format!("c.arg({})", v.expr()),
            Call::Cwd(p) => format!("c.cwd({})", lit(p)),
            Call::Env(k, v) => format!("c.env({}, {})", lit(k), v.expr()),
            Call::StdinText(v) => format!("c.stdin_text({})", v.expr()),
            Call::StdinNull => "c.stdin_null()".into(),
            Call::StdinInherit => "c.stdin_inherit()".into(),
            Call::Out(p) => format!("c.stdout_{}()", POL[*p as usize % 3]),
            Call::Err(p) => format!("c.stderr_{}()", POL[*p as usize % 3]),
            Call::Timeout(n) => format!("c.timeout_ms({n})"),
        }
    }
}

#[derive(Clone, Debug, PartialEq)]
enum Stdin {
    Default,
    Inherit,
    Null,
    Text(String),
}

#[derive(Clone, Debug)]
struct Spec {
    program: String,
    calls: Vec<Call>,
}

/// The command as configured when `run()` is reached.
#[derive(Clone, Debug)]
struct Model {
    program: String,
    args: Vec<String>,
    cwd: Option<String>,
    env: Vec<(String, String)>,
    stdin: Stdin,
    timeout: Option<f64>,
    /// a builder call itself was invalid (timeout not a positive whole number)
    builder_error: Option<&'static str>,
}

fn model_of(spec: &Spec) -> Model {
    let mut m = Model {
        program: spec.program.clone(),
        args: Vec::new(),
        cwd: None,
        env: Vec::new(),
        stdin: Stdin::Default,
        timeout: None,
        builder_error: None,
    };
    for call in &spec.calls {
        match call {
            Call::Arg(v) => m.args.push(v.text()),
            Call::Cwd(p) => m.cwd = Some(p.clone()),
            Call::Env(k, v) => {
                // last write per key wins
                if let Some(slot) = m.env.iter_mut().find(|(key, _)| key == k) {
                    slot.1 = v.text();
                } else {
                    m.env.push((k.clone(), v.text()));
                }
            }
            Call::StdinText(v) => m.stdin = Stdin::Text(v.text()),
            Call::StdinNull => m.stdin = Stdin::Null,
            Call::StdinInherit => m.stdin = Stdin::Inherit,
            Call::Out(..) | Call::Err(..) => {}
            Call::Timeout(n) => {
                if !(n.is_finite() && *n > 0.0 && n.fract() == 0.0) {
                    m.builder_error = Some("timeout_zero");
                    break; // the script ends here
                }
                m.timeout = Some(*n);
            }
        }
    }
    m
}

/// Reasons for which the property requires a refusal (empty = the command must run).
fn judge(m: &Model, caps: &ProcessCaps) -> Vec<String> {
    let mut why: Vec<String> = Vec::new();
    if let Some(e) = m.builder_error {
        why.push(e.to_string());
        return why;
    }
    let over = |len: usize, cap: u32| len as u64 > u64::from(cap);
    if m.program.is_empty() {
        why.push("empty|program".into());
    }
    if m.program.contains('\0') {
        why.push("nul|program".into());
    }
    if over(m.program.len(), caps.max_program_bytes) {
        why.push("max_program_bytes".into());
    }
    if over(m.args.len(), caps.max_args) {
        why.push("max_args".into());
    }
    let mut total = 0usize;
    for a in &m.args {
        if a.contains('\0') {
            why.push("nul|arg".into());
        }
        if over(a.len(), caps.max_arg_bytes) {
            why.push("max_arg_bytes".into());
        }
        total += a.len();
    }
    if over(total, caps.max_total_arg_bytes) {
        why.push("max_total_arg_bytes".into());
    }
    if let Some(cwd) = &m.cwd {
        if cwd.is_empty() {
            why.push("empty|cwd".into());
        }
        if cwd.contains('\0') {
            why.push("nul|cwd".into());
        }
        if over(cwd.len(), caps.max_cwd_bytes) {
            why.push("max_cwd_bytes".into());
        }
    }
    if over(m.env.len(), caps.max_env_pairs) {
        why.push("max_env_pairs".into());
    }
    let mut total = 0usize;
    for (k, v) in &m.env {
        if k.is_empty() {
            why.push("empty|env_key".into());
        }
        if k.contains('\0') {
            why.push("nul|env_key".into());
        }
        if k.contains('=') {
            why.push("equals|env_key".into());
        }
        if over(k.len(), caps.max_env_key_bytes) {
            why.push("max_env_key_bytes".into());
        }
        if v.contains('\0') {
            why.push("nul|env_value".into());
        }
        if over(v.len(), caps.max_env_value_bytes) {
            why.push("max_env_value_bytes".into());
        }
        total += k.len() + v.len();
    }
    if over(total, caps.max_total_env_bytes) {
        why.push("max_total_env_bytes".into());
    }
    if let Stdin::Text(t) = &m.stdin {
        if t.contains('\0') {
            why.push("nul|stdin".into());
        }
        if over(t.len(), caps.max_stdin_bytes) {
            why.push("max_stdin_bytes".into());
        }
    }
    let t = m.timeout.unwrap_or(f64::from(caps.default_timeout_ms));
    if t <= 0.0 {
        why.push("timeout_zero".into());
    } else if t > f64::from(caps.max_timeout_ms) {
        why.push("max_timeout_ms".into());
    }
    why.sort();
    why.dedup();
    why
}

// ---------------------------------------------------------------------------
// String material
// ---------------------------------------------------------------------------

const PIECES: &[(&str, &str)] = &[
    ("space", " "),
    ("space", "a b"),
    ("space", "  two  "),
    ("squote", "'"),
    ("squote", "it's"),
    ("dquote", "\""),
    ("dquote", "say \"hi\""),
    ("dollar", "$HOME"),
    ("dollar", "$VAR"),
    ("dollar", "$(id)"),
    ("dollar", "$1"),
    ("star", "*"),
    ("star", "*.txt"),
    ("semicolon", ";"),
    ("semicolon", "; ls"),
    ("pipe", "|"),
    ("pipe", "| cat"),
    ("andand", "&&"),
    ("andand", "a && b"),
    ("newline", "\n"),
    ("newline", "x\ny"),
    ("tab", "\t"),
    ("utf8_2", "é"),
    ("utf8_2", "ñü"),
    ("utf8_3", "€"),
    ("utf8_3", "日本"),
    ("utf8_4", "😀"),
    ("utf8_4", "𝄞"),
    ("backslash", "\\"),
    ("backslash", "a\\nb"),
    ("backslash", "\\\\"),
    ("brace", "{"),
    ("brace", "{x}"),
    ("brace", "}"),
    ("brace", "${PATH}"),
    ("plain", "abc"),
    ("plain", "x"),
    ("plain", "0"),
    ("dash", "-n"),
    ("dash", "--"),
    ("redirect", ">"),
    ("redirect", "< /etc/passwd"),
    ("redirect", "2>&1"),
    ("backtick", "`id`"),
    ("tilde", "~"),
    ("hash", "#c"),
    ("paren", "(a)"),
    ("bang", "!"),
    ("percent", "%s%n"),
    ("amp", "&"),
    ("glob", "?"),
    ("glob", "[a-z]"),
    ("equals", "a=b"),
    ("ctrl", "\u{1}"),
    ("ctrl", "\u{7f}"),
    ("unicode_space", "\u{a0}"),
    ("unicode_space", "\u{feff}"),
];

/// Shell metacharacters or white space (non-triviality rule).
fn is_meta(s: &str) -> bool {
    s.chars().any(|c| c.is_whitespace() || "'\"$*;|&<>`~#()!?[]{}\\".contains(c))
}

fn gen_text(rng: &mut Rng, tags: &mut BTreeSet<String>) -> String {
    let n = rng.weighted(&[1, 4, 4, 3, 2, 1]);
    if n == 0 {
        tags.insert("class.empty".into());
        return String::new();
    }
    let mut s = String::new();
    for _ in 0..n {
        let (class, piece) = PIECES[rng.usize(PIECES.len())];
        tags.insert(format!("class.{class}"));
        s.push_str(piece);
    }
    if !lit_ok(&s) {
        s.push('\t');
        tags.insert("class.tab".into());
    }
    s
}

/// Exactly `bytes` bytes, no NUL, no `{`.
fn gen_exact(rng: &mut Rng, bytes: usize, tags: &mut BTreeSet<String>) -> String {
    let mut s = String::with_capacity(bytes);
    if bytes == 0 {
        tags.insert("class.empty".into());
    }
    if bytes >= 1000 {
        tags.insert("class.long".into());
    }
    let mut tries = 0;
    while s.len() < bytes && tries < 12 {
        tries += 1;
        let (class, piece) = PIECES[rng.usize(PIECES.len())];
        if piece.contains('{') || s.len() + piece.len() > bytes {
            continue;
        }
        tags.insert(format!("class.{class}"));
        s.push_str(piece);
    }
    // fill: a multi-byte tail when it fits exactly, then ASCII
    while bytes - s.len() >= 3 && rng.chance(1, 8) {
        s.push('€');
    }
    while s.len() < bytes {
        s.push((b'a' + (s.len() % 26) as u8) as char);
    }
    debug_assert_eq!(s.len(), bytes);
    s
}

const KEY_PIECES: &[&str] = &["VH_", "K", "k", "x1", "é", " ", "$", "-", ".", "日", "_", "9", "Path", "*", ";", "'"];

fn gen_key(rng: &mut Rng, tags: &mut BTreeSet<String>, inherited: &[String]) -> String {
    if !inherited.is_empty() && rng.chance(1, 8) {
        tags.insert("env.override_inherited".into());
        return rng.pick(inherited).clone();
    }
    loop {
        let mut k = String::from(if rng.chance(2, 3) { "VH" } else { "" });
        for _ in 0..rng.range(1, 3) {
            k.push_str(rng.pick(KEY_PIECES));
        }
        if key_allowed(&k) {
            if !k.is_ascii() {
                tags.insert("env.key_multibyte".into());
            }
            if is_meta(&k) {
                tags.insert("env.key_meta".into());
            }
            return k;
        }
    }
}

fn key_allowed(k: &str) -> bool {
    !(k.is_empty()
        || k == "VH_KEYS"
        || k == "VH_EXIT"
        || k.starts_with("LD_")
        || k.starts_with("MALLOC")
        || k.starts_with("GLIBC")
        || k == "PATH")
}

fn gen_exact_key(rng: &mut Rng, bytes: usize) -> String {
    // "VH" prefix keeps it clear of anything the loader or libc looks at
    let mut k = String::new();
    for (i, c) in "VHK".chars().enumerate() {
        if i < bytes {
            k.push(c);
        }
    }
    while k.len() < bytes {
        if bytes - k.len() >= 2 && rng.chance(1, 6) {
            k.push('é');
        } else {
            k.push((b'A' + rng.below(26) as u8) as char);
        }
    }
    k
}

fn gen_val(rng: &mut Rng, tags: &mut BTreeSet<String>) -> Val {
    let v = match rng.weighted(&[16, 2, 1, 1, 1]) {
        0 => Val::Str(gen_text(rng, tags)),
        1 => Val::Num(*rng.pick(&[0.0, 1.0, 7.0, 42.0, 2.5, 0.1, 1234567.0, 100000000000000000000.0, 0.000001, 3.0e-7])),
        2 => Val::Bool(rng.chance(1, 2)),
        3 => Val::Null,
        _ => Val::Arr(vec![Val::Num(*rng.pick(&[1.0, 2.5])), Val::Str((*rng.pick(&["s", "a b", "é", ""])).to_string()), Val::Bool(rng.chance(1, 2)), Val::Null]),
    };
    if !matches!(v, Val::Str(..)) {
        tags.insert(format!("value.{}", v.kind()));
    }
    v
}

// ---------------------------------------------------------------------------
// Environment of the engine (scratch layout, what the children inherit)
// ---------------------------------------------------------------------------

struct Env {
    vhelper: String,
    scratch: String,
    /// (path as written in scripts, canonical path the child must report)
    dirs: Vec<String>,
    worker_cwd: Vec<u8>,
    worker_env: BTreeMap<Vec<u8>, Vec<u8>>,
    inherited_keys: Vec<String>,
    stdin_ino: u64,
    devnull_rdev: u64,
    e: Endings,
    dump: bool,
}

fn setup(ctx: &Ctx) -> Env {
    let vhelper = ctx.opt("vhelper").expect("--vhelper").to_string();
    let scratch = std::fs::canonicalize(ctx.opt("scratch").expect("--scratch")).expect("scratch dir").to_string_lossy().into_owned();
    assert!(lit_ok(&scratch) && lit_ok(&vhelper));
    // directories a command can be started in; they contain files a glob would pick up
    let names = ["d0", "d 1", "dé€", "d$HOME;x", "d'q\"", "d*"];
    let mut dirs = Vec::new();
    for n in names {
        let p = format!("{scratch}/cwd/{n}");
        std::fs::create_dir_all(&p).expect("mkdir");
        let _ = std::fs::write(format!("{p}/a.txt"), b"a");
        let _ = std::fs::write(format!("{p}/b.txt"), b"b");
        dirs.push(p);
    }
    // The worker itself moves into a sandbox directory: children without a configured cwd start
    // there, and should a defect ever hand an argument to a shell (`> x`, `| tee *`), only scratch
    // files can be hit.
    let sandbox = format!("{scratch}/wcwd-{}", ctx.shard);
    std::fs::create_dir_all(&sandbox).expect("mkdir");
    let _ = std::fs::write(format!("{sandbox}/a.txt"), b"a");
    let _ = std::fs::write(format!("{sandbox}/b.txt"), b"b");
    std::env::set_current_dir(&sandbox).expect("chdir");
    std::fs::create_dir_all(format!("{scratch}/s")).expect("mkdir");
    std::fs::create_dir_all(format!("{scratch}/canary")).expect("mkdir");

    // fd 0 of this worker becomes an empty regular file: an inheriting child reads EOF at once and
    // can be told apart from a child whose stdin is /dev/null or a pipe
    let stdin_path = format!("{scratch}/stdin-{}.empty", ctx.shard);
    std::fs::write(&stdin_path, b"").expect("stdin file");
    let c = std::ffi::CString::new(stdin_path.clone()).unwrap();
    unsafe {
        let fd = libc::open(c.as_ptr(), libc::O_RDONLY);
        assert!(fd >= 0);
        libc::dup2(fd, 0);
        if fd != 0 {
            libc::close(fd);
        }
    }
    let stdin_ino = std::fs::metadata(&stdin_path).expect("stat").ino();
    let devnull_rdev = std::fs::metadata("/dev/null").expect("stat").rdev();
    let worker_env: BTreeMap<Vec<u8>, Vec<u8>> =
        std::env::vars_os().map(|(k, v)| (k.as_bytes().to_vec(), v.as_bytes().to_vec())).collect();
    let inherited_keys: Vec<String> = ["RUST_BACKTRACE", "CARGO_NET_OFFLINE", "HOME", "LANG", "USER"]
        .iter()
        .filter(|k| worker_env.contains_key(k.as_bytes()))
        .map(|k| (*k).to_string())
        .collect();
    Env {
        vhelper,
        scratch,
        dirs,
        worker_cwd: std::env::current_dir().expect("cwd").as_os_str().as_bytes().to_vec(),
        worker_env,
        inherited_keys,
        stdin_ino,
        devnull_rdev,
        e: endings(),
        dump: ctx.opt("dump").is_some(),
    }
}

/// `path` lengthened to exactly `bytes` bytes by repeating the slash after its first component.
fn pad_path(path: &str, bytes: usize) -> Option<String> {
    if bytes < path.len() {
        return None;
    }
    let cut = path[1..].find('/').map_or(path.len(), |i| i + 1);
    let mut s = String::with_capacity(bytes);
    s.push_str(&path[..cut]);
    for _ in 0..bytes - path.len() {
        s.push('/');
    }
    s.push_str(&path[cut..]);
    Some(s)
}

// ---------------------------------------------------------------------------
// Case construction
// ---------------------------------------------------------------------------

struct Case {
    spec: Spec,
    caps: ProcessCaps,
    allow: bool,
    /// evidence tags
    tags: BTreeSet<String>,
    /// what is being probed (signature suffix), e.g. "max_args"
    probe: String,
    nontrivial: bool,
    canary: Option<String>,
    side: String,
}

#[derive(Default, Clone, Debug)]
struct Usage {
    program: usize,
    cwd: usize,
    args: usize,
    arg: usize,
    total_arg: usize,
    pairs: usize,
    key: usize,
    value: usize,
    total_env: usize,
    stdin: usize,
    timeout: Option<f64>,
}

fn usage_of(m: &Model) -> Usage {
    Usage {
        program: m.program.len(),
        cwd: m.cwd.as_ref().map_or(0, String::len),
        args: m.args.len(),
        arg: m.args.iter().map(String::len).max().unwrap_or(0),
        total_arg: m.args.iter().map(String::len).sum(),
        pairs: m.env.len(),
        key: m.env.iter().map(|(k, _)| k.len()).max().unwrap_or(0),
        value: m.env.iter().map(|(_, v)| v.len()).max().unwrap_or(0),
        total_env: m.env.iter().map(|(k, v)| k.len() + v.len()).sum(),
        stdin: match &m.stdin {
            Stdin::Text(t) => t.len(),
            _ => 0,
        },
        timeout: m.timeout,
    }
}

const CAP_NAMES: [&str; 11] = [
    "max_program_bytes",
    "max_cwd_bytes",
    "max_args",
    "max_arg_bytes",
    "max_total_arg_bytes",
    "max_env_pairs",
    "max_env_key_bytes",
    "max_env_value_bytes",
    "max_total_env_bytes",
    "max_stdin_bytes",
    "max_timeout_ms",
];

fn cap_slot<'a>(caps: &'a mut ProcessCaps, name: &str) -> &'a mut u32 {
    match name {
        "max_program_bytes" => &mut caps.max_program_bytes,
        "max_cwd_bytes" => &mut caps.max_cwd_bytes,
        "max_args" => &mut caps.max_args,
        "max_arg_bytes" => &mut caps.max_arg_bytes,
        "max_total_arg_bytes" => &mut caps.max_total_arg_bytes,
        "max_env_pairs" => &mut caps.max_env_pairs,
        "max_env_key_bytes" => &mut caps.max_env_key_bytes,
        "max_env_value_bytes" => &mut caps.max_env_value_bytes,
        "max_total_env_bytes" => &mut caps.max_total_env_bytes,
        "max_stdin_bytes" => &mut caps.max_stdin_bytes,
        "max_timeout_ms" => &mut caps.max_timeout_ms,
        other => panic!("cap {other}"),
    }
}

/// Caps that fit the usage: each one exactly at the usage (often), slightly above, or generous.
fn fitting_caps(rng: &mut Rng, u: &Usage, tags: &mut BTreeSet<String>) -> ProcessCaps {
    let mut slack = |used: usize, name: &str| -> u32 {
        let d = match rng.weighted(&[3, 3, 2]) {
            0 => {
                tags.insert(format!("random_cap_at_usage.{name}"));
                0
            }
            1 => rng.range(1, 5) as usize,
            _ => rng.range(6, 100_000) as usize,
        };
        (used + d).min(u32::MAX as usize) as u32
    };
    let mut caps = ProcessCaps::defaults();
    caps.max_program_bytes = slack(u.program, "max_program_bytes");
    caps.max_cwd_bytes = slack(u.cwd, "max_cwd_bytes");
    caps.max_args = slack(u.args, "max_args");
    caps.max_arg_bytes = slack(u.arg, "max_arg_bytes");
    caps.max_total_arg_bytes = slack(u.total_arg, "max_total_arg_bytes");
    caps.max_env_pairs = slack(u.pairs, "max_env_pairs");
    caps.max_env_key_bytes = slack(u.key, "max_env_key_bytes");
    caps.max_env_value_bytes = slack(u.value, "max_env_value_bytes");
    caps.max_total_env_bytes = slack(u.total_env, "max_total_env_bytes");
    caps.max_stdin_bytes = slack(u.stdin, "max_stdin_bytes");
    // time: children finish within milliseconds; nothing below 30 s is ever configured
    let t = u.timeout.unwrap_or(0.0);
    let floor = 60_000.0_f64.max(t);
    caps.max_timeout_ms = (floor + rng.pick(&[0.0, 1.0, 5_000.0, 3_000_000.0])).min(f64::from(u32::MAX)) as u32;
    caps.default_timeout_ms = (*rng.pick(&[30_000u32, 60_000, 900_000])).min(caps.max_timeout_ms);
    caps.wait_poll_ms = rng.range(1, 20) as u32;
    caps
}

fn side_path(env: &Env, stage: &str, idx: u64) -> String {
    format!("{}/s/{}{idx}", env.scratch, &stage[..1])
}

/// How the helper learns where to write: `report <side>` as its first two arguments, or (so that
/// commands without any argument exist too) the environment variable VH_SIDE.
fn base_calls(side: &str, via_env: bool) -> Vec<Call> {
    if via_env {
        vec![Call::Env("VH_SIDE".into(), Val::Str(side.to_string()))]
    } else {
        vec![Call::Arg(Val::Str("report".into())), Call::Arg(Val::Str(side.to_string()))]
    }
}

/// Random extra builder calls (all valid as strings); `report` and the side file come first among
/// the arguments, everything else is shuffled with repeats.
fn random_calls(rng: &mut Rng, env: &Env, tags: &mut BTreeSet<String>, richness: u32) -> Vec<Call> {
    let mut v = Vec::new();
    let n_args = rng.weighted(&[2, 3, 3, 2, 1, 1]) * richness as usize;
    for _ in 0..n_args {
        v.push(Call::Arg(gen_val(rng, tags)));
    }
    let n_env = rng.weighted(&[3, 3, 2, 2, 1]) * richness as usize;
    let mut keys: Vec<String> = Vec::new();
    for _ in 0..n_env {
        let key = if !keys.is_empty() && rng.chance(1, 3) {
            tags.insert("env.rewrite_same_key".into());
            rng.pick(&keys).clone()
        } else if !keys.is_empty() && rng.chance(1, 4) {
            // a key that differs from an earlier one only in ASCII case: a different variable
            let base = rng.pick(&keys).clone();
            let flipped: String = base.chars().map(|c| if c.is_ascii_lowercase() { c.to_ascii_uppercase() } else { c.to_ascii_lowercase() }).collect();
            if flipped != base && key_allowed(&flipped) {
                tags.insert("env.key_differs_only_in_case".into());
                flipped
            } else {
                gen_key(rng, tags, &env.inherited_keys)
            }
        } else {
            gen_key(rng, tags, &env.inherited_keys)
        };
        keys.push(key.clone());
        v.push(Call::Env(key, gen_val(rng, tags)));
    }
    for _ in 0..rng.weighted(&[3, 4, 2, 1]) {
        v.push(Call::Cwd(rng.pick(&env.dirs).clone()));
    }
    for _ in 0..rng.weighted(&[2, 4, 2, 1]) {
        v.push(match rng.weighted(&[5, 1, 1]) {
            0 => Call::StdinText(gen_val(rng, tags)),
            1 => Call::StdinNull,
            _ => Call::StdinInherit,
        });
    }
    for _ in 0..rng.weighted(&[3, 2, 1]) {
        v.push(Call::Out(rng.below(3) as u8));
    }
    for _ in 0..rng.weighted(&[3, 2, 1]) {
        v.push(Call::Err(rng.below(3) as u8));
    }
    for _ in 0..rng.weighted(&[3, 2, 1]) {
        v.push(Call::Timeout(*rng.pick(&[30_000.0, 60_000.0, 600_000.0, 3_600_000.0])));
    }
    v
}

/// Shuffles `extra` and merges it with `fixed` keeping the relative order of `fixed`.
fn interleave(rng: &mut Rng, fixed: Vec<Call>, mut extra: Vec<Call>) -> Vec<Call> {
    for i in (1..extra.len()).rev() {
        extra.swap(i, rng.usize(i + 1));
    }
    let mut out = Vec::with_capacity(fixed.len() + extra.len());
    let mut fixed = fixed.into_iter().peekable();
    let mut extra = extra.into_iter().peekable();
    while fixed.peek().is_some() || extra.peek().is_some() {
        let take_fixed = match (fixed.peek().is_some(), extra.peek().is_some()) {
            // `report <side>` must stay the first two arguments
            (true, true) => matches!(extra.peek(), Some(Call::Arg(..))) || rng.chance(1, 3),
            (true, false) => true,
            _ => false,
        };
        out.push(if take_fixed { fixed.next().unwrap() } else { extra.next().unwrap() });
    }
    out
}

/// `total` split into `parts` non-negative summands, each at most `max_part`.
fn partition(rng: &mut Rng, total: usize, parts: usize, max_part: usize) -> Vec<usize> {
    let mut v = vec![0usize; parts.max(1)];
    let mut left = total;
    let n = v.len();
    for (i, slot) in v.iter_mut().enumerate() {
        let rest_capacity = (n - i - 1) * max_part;
        let lo = left.saturating_sub(rest_capacity);
        let hi = left.min(max_part);
        let take = if i == n - 1 { left.min(max_part) } else { lo + rng.usize(hi - lo + 1) };
        *slot = take;
        left -= take;
    }
    assert_eq!(left, 0, "partition does not fit");
    v
}

fn limits_case(rng: &mut Rng, env: &Env, idx: u64) -> Case {
    // idx → (cap kind, position, variant); variant 0 probes the shipped default value of the cap
    let kind = (idx % 12) as usize;
    let pos = ((idx / 12) % 3) as i64 - 1; // -1 below, 0 at, +1 above
    let variant = idx / 36;
    let defaults = variant == 0;
    let side = side_path(env, "limits", idx);
    let mut tags = BTreeSet::new();
    let pos_name = ["below", "at", "above"][(pos + 1) as usize];
    let d = ProcessCaps::defaults();
    // env-related caps keep the argument form, so that small limits stay possible
    let via_env = !(5..=8).contains(&kind) && rng.chance(1, 2);
    if via_env {
        tags.insert("side_file_via_env".into());
    }
    let base_len = if via_env { 0 } else { "report".len() + side.len() };
    let base_args_n = if via_env { 0 } else { 2 };
    let mut program = env.vhelper.clone();
    let mut fixed = base_calls(&side, via_env);
    let mut extra: Vec<Call> = Vec::new();
    let mut probe_cap: Option<(&str, u32)> = None;

    if kind == 11 {
        // timeout: zero / saturation of the u32 conversion / the largest representable limit
        let name = ["timeout_zero", "timeout_u32max", "timeout_above_u32"][(pos + 1) as usize];
        tags.insert(format!("cap.{name}"));
        let mut calls = fixed;
        // above u32: with a cap of u32::MAX - 1 the request is over the cap however the number is
        // converted. (With a cap of exactly u32::MAX the pinned tree clamps 2^32 to the cap and
        // runs; whether that counts as "over the limit" is debatable, so it is only recorded.)
        let observe_only = pos == 1 && variant % 2 == 1;
        match pos {
            -1 => calls.push(Call::Timeout(0.0)),
            0 => calls.push(Call::Timeout(f64::from(u32::MAX))),
            _ => calls.push(Call::Timeout(f64::from(u32::MAX) + 1.0)),
        }
        if rng.chance(1, 2) {
            calls.push(Call::Arg(gen_val(rng, &mut tags)));
        }
        let spec = Spec { program, calls };
        let mut caps = fitting_caps(rng, &usage_of(&model_of(&spec)), &mut tags);
        caps.max_timeout_ms = if pos == 1 && !observe_only { u32::MAX - 1 } else { u32::MAX };
        let probe = if observe_only { "observe|timeout_2^32_under_cap_u32max".to_string() } else { name.to_string() };
        return Case { spec, caps, allow: true, tags, probe, nontrivial: true, canary: None, side };
    }

    let name = CAP_NAMES[kind];
    tags.insert(format!("cap.{name}.{pos_name}{}", if defaults { ".default_value" } else { "" }));
    let mut limit: u32 = *cap_slot(&mut d.clone(), name);
    let q = |limit: u32| (i64::from(limit) + pos) as usize;
    match name {
        "max_program_bytes" => {
            if !defaults {
                limit = (env.vhelper.len() as i64 + rng.range(2, 40)) as u32;
            }
            program = pad_path(&env.vhelper, q(limit)).expect("pad");
        }
        "max_cwd_bytes" => {
            let dir = rng.pick(&env.dirs).clone();
            if !defaults {
                limit = (dir.len() as i64 + rng.range(2, 40)) as u32;
            }
            extra.push(Call::Cwd(pad_path(&dir, q(limit)).expect("pad")));
        }
        "max_args" => {
            if !defaults {
                limit = rng.range(base_args_n as i64 + 1, 24) as u32;
            }
            for _ in 0..q(limit) - base_args_n {
                let v = if rng.chance(1, 2) { Val::Str(gen_text(rng, &mut tags)) } else { Val::Str("x".into()) };
                extra.push(Call::Arg(v));
            }
        }
        "max_arg_bytes" => {
            if !defaults {
                limit = ((if via_env { 0 } else { side.len() as i64 }) + rng.range(1, 200)) as u32;
            }
            extra.push(Call::Arg(Val::Str(gen_exact(rng, q(limit), &mut tags))));
            if rng.chance(1, 2) {
                let n = rng.usize(limit as usize + 1);
                extra.push(Call::Arg(Val::Str(gen_exact(rng, n, &mut tags))));
            }
        }
        "max_total_arg_bytes" => {
            if !defaults {
                limit = (base_len as i64 + rng.range(2, 400)) as u32;
            }
            let rest = q(limit) - base_len;
            let max_part = d.max_arg_bytes as usize;
            let parts = (rest / max_part + 1).max(rng.range(1, 4) as usize);
            for n in partition(rng, rest, parts, max_part) {
                extra.push(Call::Arg(Val::Str(gen_exact(rng, n, &mut tags))));
            }
        }
        "max_env_pairs" => {
            if !defaults {
                limit = rng.range(1, 12) as u32;
            }
            for i in 0..q(limit) {
                let key = format!("VH_P{i}");
                extra.push(Call::Env(key.clone(), Val::Str(gen_text(rng, &mut tags))));
                // rewriting a key does not add a pair
                if rng.chance(1, 4) {
                    tags.insert("env.rewrite_same_key".into());
                    extra.push(Call::Env(key, Val::Str(gen_text(rng, &mut tags))));
                }
            }
        }
        "max_env_key_bytes" => {
            if !defaults {
                limit = rng.range(2, 60) as u32;
            }
            extra.push(Call::Env(gen_exact_key(rng, q(limit)), Val::Str(gen_text(rng, &mut tags))));
        }
        "max_env_value_bytes" => {
            if !defaults {
                limit = rng.range(1, 300) as u32;
            }
            extra.push(Call::Env("VH_V".into(), Val::Str(gen_exact(rng, q(limit), &mut tags))));
        }
        "max_total_env_bytes" => {
            if !defaults {
                limit = rng.range(3, 400) as u32;
            }
            let total = q(limit);
            let max_value = d.max_env_value_bytes as usize;
            let key_len = |i: usize| format!("VH{i}").len();
            // distinct non-empty keys; as many pairs as are needed for the values to fit
            let mut pairs = rng.range(1, 3) as usize;
            loop {
                let keys_total: usize = (0..pairs).map(key_len).sum();
                if keys_total > total {
                    pairs = 0;
                    break;
                }
                if total - keys_total <= pairs * max_value {
                    break;
                }
                pairs += 1;
            }
            if pairs == 0 {
                extra.push(Call::Env(gen_exact_key(rng, 1), Val::Str(gen_exact(rng, total - 1, &mut tags))));
            } else {
                let keys_total: usize = (0..pairs).map(key_len).sum();
                for (i, n) in partition(rng, total - keys_total, pairs, max_value).into_iter().enumerate() {
                    extra.push(Call::Env(format!("VH{i}"), Val::Str(gen_exact(rng, n, &mut tags))));
                }
            }
        }
        "max_stdin_bytes" => {
            if !defaults {
                // now and then more than a pipe buffer holds
                limit = if rng.chance(1, 4) { *rng.pick(&[65_536u32, 65_537, 70_000, 200_000]) } else { rng.range(1, 5000) as u32 };
            }
            extra.push(Call::StdinText(Val::Str(gen_exact(rng, q(limit), &mut tags))));
        }
        "max_timeout_ms" => {
            if !defaults {
                limit = *rng.pick(&[30_000u32, 60_000, 123_457, 86_400_000, 4_000_000_000]);
            }
            extra.push(Call::Timeout((i64::from(limit) + pos) as f64));
        }
        _ => unreachable!(),
    }
    probe_cap.replace((name, limit));
    // a little unrelated decoration, never near another cap
    if !defaults && rng.chance(1, 2) {
        extra.push(Call::Out(rng.below(3) as u8));
        extra.push(Call::Err(rng.below(3) as u8));
    }
    if name != "max_stdin_bytes" && rng.chance(1, 2) {
        extra.push(Call::StdinNull);
    }
    let calls = interleave(rng, std::mem::take(&mut fixed), extra);
    let spec = Spec { program, calls };
    let mut caps = if defaults { d } else { fitting_caps(rng, &usage_of(&model_of(&spec)), &mut tags) };
    if let Some((name, limit)) = probe_cap {
        *cap_slot(&mut caps, name) = limit;
        if name == "max_timeout_ms" {
            caps.default_timeout_ms = caps.default_timeout_ms.min(limit);
        }
    }
    Case { spec, caps, allow: true, tags, probe: name.to_string(), nontrivial: true, canary: None, side }
}

const INVALID_PROBES: [&str; 24] = [
    "nul|program",
    "nul|arg",
    "nul|cwd",
    "nul|env_key",
    "nul|env_value",
    "nul|stdin",
    "equals|env_key",
    "empty|program",
    "empty|cwd",
    "empty|env_key",
    "denied",
    "denied+invalid",
    "ok|empty_arg",
    "ok|empty_env_value",
    "ok|empty_stdin",
    "ok|invalid_env_value_overwritten",
    "ok|invalid_cwd_overwritten",
    "ok|oversize_stdin_then_null",
    "ok|equals_in_value_and_arg",
    "ok|no_args_env_cwd",
    "nul|only",
    "ok|many_rewrites_one_pair",
    "ok|dash_args",
    "ok|nonstring_values",
];

fn with_nul(rng: &mut Rng, tags: &mut BTreeSet<String>) -> String {
    let (na, nb) = (rng.usize(6), rng.usize(6));
    let a = if rng.chance(1, 2) { gen_exact(rng, na, tags) } else { String::new() };
    let b = if rng.chance(1, 2) { gen_exact(rng, nb, tags) } else { String::new() };
    tags.insert(format!("nul.{}", match (a.is_empty(), b.is_empty()) {
        (true, true) => "alone",
        (true, false) => "first",
        (false, true) => "last",
        _ => "middle",
    }));
    format!("{a}\0{b}")
}

fn invalid_case(rng: &mut Rng, env: &Env, idx: u64) -> Case {
    let probe = INVALID_PROBES[(idx % INVALID_PROBES.len() as u64) as usize];
    let side = side_path(env, "invalid", idx);
    let mut tags = BTreeSet::new();
    tags.insert(format!("probe.{probe}"));
    let mut program = env.vhelper.clone();
    let via_env = rng.chance(1, 2);
    if via_env {
        tags.insert("side_file_via_env".into());
    }
    let fixed = base_calls(&side, via_env);
    let mut extra = if rng.chance(1, 2) { random_calls(rng, env, &mut tags, 1) } else { Vec::new() };
    let mut tail: Vec<Call> = Vec::new();
    let mut allow = true;
    let mut oversize_stdin = false;
    match probe {
        "nul|program" => {
            program = if rng.chance(1, 2) { format!("{}\0", env.vhelper) } else { format!("{}\0x", env.vhelper) };
        }
        "nul|arg" => extra.push(Call::Arg(Val::Str(with_nul(rng, &mut tags)))),
        "nul|cwd" => tail.push(Call::Cwd(format!("{}\0", rng.pick(&env.dirs)))),
        "nul|env_key" => {
            let k = with_nul(rng, &mut tags).replace('=', "e");
            extra.push(Call::Env(format!("VHN{k}"), Val::Str("v".into())));
        }
        "nul|env_value" => extra.push(Call::Env("VH_NULV".into(), Val::Str(with_nul(rng, &mut tags)))),
        "nul|stdin" => tail.push(Call::StdinText(Val::Str(with_nul(rng, &mut tags)))),
        "nul|only" => extra.push(Call::Arg(Val::Str("\0".into()))),
        "equals|env_key" => {
            let k = *rng.pick(&["=", "=VH_A", "VH_A=", "VH_A=B", "VH==", "VH_A=é"]);
            extra.push(Call::Env(k.into(), Val::Str(gen_text(rng, &mut tags))));
        }
        "empty|program" => program = String::new(),
        "empty|cwd" => tail.push(Call::Cwd(String::new())),
        "empty|env_key" => extra.push(Call::Env(String::new(), Val::Str(gen_text(rng, &mut tags)))),
        "denied" => allow = false,
        "denied+invalid" => {
            allow = false;
            extra.push(Call::Arg(Val::Str("a\0b".into())));
        }
        "ok|empty_arg" => {
            extra.push(Call::Arg(Val::Str(String::new())));
            extra.push(Call::Arg(Val::Str(String::new())));
        }
        "ok|empty_env_value" => extra.push(Call::Env("VH_EMPTYV".into(), Val::Str(String::new()))),
        "ok|empty_stdin" => tail.push(Call::StdinText(Val::Str(String::new()))),
        "ok|invalid_env_value_overwritten" => {
            tail.push(Call::Env("VH_OW".into(), Val::Str("a\0b".into())));
            tail.push(Call::Env("VH_OW".into(), Val::Str(gen_text(rng, &mut tags))));
        }
        "ok|invalid_cwd_overwritten" => {
            tail.push(Call::Cwd("\0".into()));
            tail.push(Call::Cwd(rng.pick(&env.dirs).clone()));
        }
        "ok|oversize_stdin_then_null" => {
            oversize_stdin = true;
            tail.push(Call::StdinText(Val::Str(gen_exact(rng, 300, &mut tags))));
            tail.push(if rng.chance(1, 2) { Call::StdinNull } else { Call::StdinText(Val::Str("ok".into())) });
        }
        "ok|equals_in_value_and_arg" => {
            extra.push(Call::Env("VH_EQ".into(), Val::Str("a=b=c".into())));
            extra.push(Call::Arg(Val::Str("=".into())));
            extra.push(Call::Arg(Val::Str("K=V".into())));
        }
        "ok|no_args_env_cwd" => extra.clear(),
        "ok|many_rewrites_one_pair" => {
            for i in 0..rng.range(3, 9) {
                tail.push(Call::Env("VH_RW".into(), Val::Num(i as f64)));
            }
        }
        "ok|dash_args" => {
            for a in ["-", "--", "-rf", "--help", "-c", "echo hi"] {
                extra.push(Call::Arg(Val::Str(a.into())));
            }
        }
        "ok|nonstring_values" => {
            for v in [Val::Num(5.0), Val::Num(2.5), Val::Bool(true), Val::Bool(false), Val::Null, Val::Arr(vec![Val::Num(1.0), Val::Str("s".into())])] {
                tags.insert(format!("value.{}", v.kind()));
                extra.push(Call::Arg(v.clone()));
                extra.push(Call::Env(format!("VH_NS{}", extra.len()), v));
            }
            tail.push(Call::StdinText(Val::Num(12.0)));
        }
        other => panic!("probe {other}"),
    }
    let mut calls = interleave(rng, fixed, extra);
    calls.extend(tail);
    let spec = Spec { program, calls };
    let mut caps = fitting_caps(rng, &usage_of(&model_of(&spec)), &mut tags);
    if oversize_stdin {
        caps.max_stdin_bytes = caps.max_stdin_bytes.min(100);
    }
    if probe == "ok|many_rewrites_one_pair" {
        // exactly as many pairs as distinct keys
        caps.max_env_pairs = model_of(&spec).env.len() as u32;
    }
    Case { spec, caps, allow, tags, probe: probe.to_string(), nontrivial: false, canary: None, side }
}

fn random_case(rng: &mut Rng, env: &Env, idx: u64) -> Case {
    let side = side_path(env, "random", idx);
    let mut tags = BTreeSet::new();
    let richness = if rng.chance(1, 10) { 3 } else { 1 };
    let mut extra = random_calls(rng, env, &mut tags, richness);
    // a canary: if anything interprets the argument, a file appears
    let mut canary = None;
    if rng.chance(1, 2) {
        let path = format!("{}/canary/C{idx}", env.scratch);
        let forms = [
            format!("; touch {path}"),
            format!("$(touch {path})"),
            format!("`touch {path}`"),
            format!("&& touch {path}"),
            format!("| tee {path}"),
            format!("> {path}"),
            format!("x\ntouch {path}\n"),
        ];
        let form = rng.pick(&forms).clone();
        tags.insert("canary".into());
        match rng.weighted(&[6, 2, 1]) {
            0 => extra.push(Call::Arg(Val::Str(form))),
            1 => extra.push(Call::Env("VH_CANARY".into(), Val::Str(form))),
            _ => extra.push(Call::StdinText(Val::Str(form))),
        }
        if rng.chance(1, 2) {
            extra.push(Call::Arg(Val::Str("*".into())));
        }
        canary = Some(path);
    }
    let via_env = rng.chance(1, 4);
    if via_env {
        tags.insert("side_file_via_env".into());
    }
    let calls = interleave(rng, base_calls(&side, via_env), extra);
    let program = if rng.chance(1, 6) { pad_path(&env.vhelper, env.vhelper.len() + rng.usize(4)).unwrap() } else { env.vhelper.clone() };
    let spec = Spec { program, calls };
    let m = model_of(&spec);
    let u = usage_of(&m);
    let mut caps = fitting_caps(rng, &u, &mut tags);
    let mut probe = "random".to_string();
    // one cap below the usage in a fifth of the cases
    if rng.chance(1, 5) {
        let name = CAP_NAMES[rng.usize(CAP_NAMES.len())];
        let used: u64 = match name {
            "max_program_bytes" => u.program as u64,
            "max_cwd_bytes" => u.cwd as u64,
            "max_args" => u.args as u64,
            "max_arg_bytes" => u.arg as u64,
            "max_total_arg_bytes" => u.total_arg as u64,
            "max_env_pairs" => u.pairs as u64,
            "max_env_key_bytes" => u.key as u64,
            "max_env_value_bytes" => u.value as u64,
            "max_total_env_bytes" => u.total_env as u64,
            "max_stdin_bytes" => u.stdin as u64,
            _ => u.timeout.map_or(0, |t| t as u64),
        };
        if used >= 1 {
            let below = if rng.chance(2, 3) { used - 1 } else { rng.below(used) };
            *cap_slot(&mut caps, name) = below as u32;
            if name == "max_timeout_ms" {
                caps.default_timeout_ms = caps.default_timeout_ms.min(below as u32).max(1);
            }
            tags.insert(format!("random_cap_below_usage.{name}"));
            probe = name.to_string();
        }
    }
    let allow = !rng.chance(1, 25);
    let meta_args = m.args.iter().filter(|a| is_meta(a)).count();
    Case { spec, caps, allow, tags, probe, nontrivial: meta_args >= 2, canary, side }
}

// ---------------------------------------------------------------------------
// Running and checking one case
// ---------------------------------------------------------------------------

/// A string literal, or the same text computed at run time from two literals (so that it is a
/// temporary of the frame it is evaluated in rather than a slice of the source text).
fn text_expr(s: &str, computed: bool) -> String {
    if computed && !s.contains('{') && s.chars().count() >= 2 {
        let cut = s.char_indices().nth(s.chars().count() / 2).map_or(0, |(i, _)| i);
        return format!("({} add {})", lit(&s[..cut]), lit(&s[cut..]));
    }
    lit(s)
}

fn render_call(call: &Call, computed: bool) -> String {
    let val = |v: &Val| match v {
        Val::Str(s) => text_expr(s, computed),
        other => other.expr(),
    };
    match call {
        Call::Arg(v) => format!("c.arg({})", val(v)),
        Call::Cwd(p) => format!("c.cwd({})", text_expr(p, computed)),
        Call::Env(k, v) => format!("c.env({}, {})", text_expr(k, computed), val(v)),
        Call::StdinText(v) => format!("c.stdin_text({})", val(v)),
        other => other.render(),
    }
}

/// The same configuration written in different places of a script: straight-line top level
/// (style 0), or with the builder calls inside loop bodies, function bodies and nested blocks
/// whose frames end before `run()`, with values computed at run time, and with unrelated string
/// work between configuration and `run()` (styles 1-3). What the child must see does not change.
fn script_of(spec: &Spec, style_rng: &mut Rng) -> String {
    let style = style_rng.weighted(&[5, 2, 2, 3]);
    let mut s = String::new();
    s.push_str(&format!("make c get command({})\n", text_expr(&spec.program, style == 3 && style_rng.chance(1, 2))));
    if style == 0 {
        for call in &spec.calls {
            s.push_str(&call.render());
            s.push('\n');
        }
        s.push_str("make r get c.run()\nshout(r.success())\nshout(r.exit_code())\n");
        return s;
    }
    for (k, call) in spec.calls.iter().enumerate() {
        let place = match style {
            1 => 1,
            2 => style_rng.weighted(&[0, 0, 2, 0, 1]),
            _ => style_rng.weighted(&[2, 3, 3, 1, 2]),
        };
        let line = render_call(call, style == 3 && style_rng.chance(2, 3));
        match place {
            0 => s.push_str(&format!("{line}\n")),
            1 => s.push_str(&format!("make zz_i{k} get 0\njasi (zz_i{k} small pass 1) start\n    zz_i{k} get zz_i{k} add 1\n    {line}\nend\n")),
            2 => s.push_str(&format!("do zz_cfg{k}() start\n    {line}\nend\nzz_cfg{k}()\n")),
            // the configuring function is called from a function that holds a command of its own
            // under the same name: the call must reach the command of the defining scope
            4 => s.push_str(&format!(
                "do zz_cfg{k}() start\n    {line}\nend\ndo zz_via{k}() start\n    make c get command(\"/nonexistent/decoy\")\n    c.arg(\"decoy\")\n    zz_cfg{k}()\n    return 0\nend\nzz_via{k}()\n"
            )),
            _ => s.push_str(&format!("if to say (true) start\n    {line}\nend\n")),
        }
    }
    // unrelated work that reuses whatever the frames above gave back
    s.push_str("make zz_junk get []\nmake zz_j get 0\njasi (zz_j small pass 24) start\n    zz_junk.push(\"churn-\" add zz_j add \"-ZZZZZZZZZZZZZZZZZZZZZZZZZZZZZZZZZZZZZZZZ\")\n    zz_j get zz_j add 1\nend\n");
    s.push_str("do zz_noise(p) start\n    return (p add \"/ZZZZZZZZZZZZZZZZZZZZZZZZZZZZZZZZ\").len()\nend\nmake zz_n get zz_noise(\"ZZZZZZZZZZZZZZZZ\") add zz_noise(\"ZZZZ=ZZZZ\")\n");
    s.push_str("make r get c.run()\nshout(r.success())\nshout(r.exit_code())\n");
    s
}

fn hex_list(j: Option<&J>) -> Vec<Vec<u8>> {
    j.and_then(J::as_array).map(|a| a.iter().map(|x| unhex(x.as_str().unwrap_or(""))).collect()).unwrap_or_default()
}

fn lossy(b: &[u8]) -> String {
    show(&String::from_utf8_lossy(b))
}

/// Compares what the child reported with the model. `None` = identical.
fn compare(env: &Env, m: &Model, side: &J) -> Option<(String, J)> {
    // argv: program name, then exactly the arguments
    let argv = hex_list(side.get("argv"));
    let mut want: Vec<Vec<u8>> = vec![m.program.as_bytes().to_vec()];
    want.extend(m.args.iter().map(|a| a.as_bytes().to_vec()));
    if argv != want {
        let k = argv.iter().zip(&want).position(|(a, b)| a != b).unwrap_or(argv.len().min(want.len()));
        let what = if argv.len() != want.len() { "argv-count" } else if k == 0 { "argv0" } else { "argv-mismatch" };
        return Some((
            what.into(),
            json!({"argc_child": argv.len(), "argc_expected": want.len(), "first_difference_at": k,
                   "child": argv.get(k).map(|b| lossy(b)), "expected": want.get(k).map(|b| lossy(b))}),
        ));
    }
    // environment: overrides exactly once with the last written value; everything else inherited
    let mut child_env: Vec<(Vec<u8>, Vec<u8>)> = Vec::new();
    for pair in side.get("env").and_then(J::as_array).cloned().unwrap_or_default() {
        let k = unhex(pair.get(0).and_then(J::as_str).unwrap_or(""));
        let v = unhex(pair.get(1).and_then(J::as_str).unwrap_or(""));
        child_env.push((k, v));
    }
    for (k, v) in &m.env {
        let hits: Vec<&(Vec<u8>, Vec<u8>)> = child_env.iter().filter(|(ck, _)| ck == k.as_bytes()).collect();
        if hits.len() != 1 || hits[0].1 != v.as_bytes() {
            return Some((
                "env-mismatch".into(),
                json!({"key": show(k), "expected": show(v), "child_entries": hits.iter().map(|(_, v)| lossy(v)).collect::<Vec<_>>()}),
            ));
        }
    }
    let overridden: BTreeSet<&[u8]> = m.env.iter().map(|(k, _)| k.as_bytes()).collect();
    for (k, v) in &env.worker_env {
        if overridden.contains(k.as_slice()) {
            continue;
        }
        let hits: Vec<&(Vec<u8>, Vec<u8>)> = child_env.iter().filter(|(ck, _)| ck == k).collect();
        if hits.len() != 1 || &hits[0].1 != v {
            return Some(("env-inherit-mismatch".into(), json!({"key": lossy(k), "expected": lossy(v), "child_entries": hits.len()})));
        }
    }
    for (k, v) in &child_env {
        if !overridden.contains(k.as_slice()) && !env.worker_env.contains_key(k) {
            return Some(("env-extra-variable".into(), json!({"key": lossy(k), "value": lossy(v)})));
        }
    }
    // cwd
    let cwd = side.get("cwd").and_then(J::as_str).map(unhex);
    let want_cwd: Vec<u8> = match &m.cwd {
        Some(p) => std::fs::canonicalize(p).map(|c| c.as_os_str().as_bytes().to_vec()).unwrap_or_else(|_| p.as_bytes().to_vec()),
        None => env.worker_cwd.clone(),
    };
    if cwd.as_deref() != Some(want_cwd.as_slice()) {
        return Some(("cwd-mismatch".into(), json!({"child": cwd.map(|c| lossy(&c)), "expected": lossy(&want_cwd), "configured": m.cwd})));
    }
    // stdin
    let data = unhex(side.get("stdin").and_then(J::as_str).unwrap_or(""));
    let kind = side.get("stdin_kind").and_then(J::as_str).unwrap_or("?");
    let read_ok = side.get("stdin_read_ok").and_then(J::as_bool).unwrap_or(false);
    let ino = side.get("stdin_ino").and_then(J::as_u64).unwrap_or(0);
    let rdev = side.get("stdin_rdev").and_then(J::as_u64).unwrap_or(0);
    let (want_data, kind_ok): (&[u8], bool) = match &m.stdin {
        Stdin::Text(t) => (t.as_bytes(), kind == "pipe"),
        Stdin::Null => (b"", kind == "chr" && rdev == env.devnull_rdev),
        Stdin::Inherit => (b"", kind == "reg" && ino == env.stdin_ino),
        Stdin::Default => (b"", true), // which of inherit/null is the default is not stated: not asserted
    };
    if m.stdin != Stdin::Default && (!read_ok || data != want_data) {
        let k = data.iter().zip(want_data).position(|(a, b)| a != b).unwrap_or(data.len().min(want_data.len()));
        return Some((
            "stdin-mismatch".into(),
            json!({"child_len": data.len(), "expected_len": want_data.len(), "first_difference_at": k, "read_ok": read_ok,
                   "child_head": lossy(&data[..data.len().min(80)]), "expected_head": lossy(&want_data[..want_data.len().min(80)])}),
        ));
    }
    if !kind_ok {
        return Some(("stdin-kind".into(), json!({"configured": format!("{:?}", m.stdin).chars().take(40).collect::<String>(), "child_fd0": kind, "ino": ino, "rdev": rdev})));
    }
    None
}

struct Pending {
    idx: u64,
    marker: String,
    canary: Option<String>,
    replay: J,
}

fn run_case(ctx: &mut Ctx, env: &Env, stage: &str, idx: u64, pending: &mut Vec<Pending>) {
    let mut rng = Rng::new(util::case_seed(ctx.seed, &format!("procspec-{stage}"), idx));
    let case = match stage {
        "limits" => limits_case(&mut rng, env, idx),
        "invalid" => invalid_case(&mut rng, env, idx),
        _ => random_case(&mut rng, env, idx),
    };
    let mut style_rng = Rng::new(util::case_seed(ctx.seed, &format!("procspec-style-{stage}"), idx));
    let src = script_of(&case.spec, &mut style_rng);
    if env.dump {
        eprintln!("### {stage} {idx} probe={} allow={} caps={}\n{}", case.probe, case.allow, caps_json(&case.caps), show(&src));
    }
    let m = model_of(&case.spec);
    let reasons = judge(&m, &case.caps);
    let marker = format!("{}.spawned", case.side);
    let _ = std::fs::remove_file(&marker);
    let _ = std::fs::remove_file(&case.side);
    let replay = json!({"engine": "procspec", "stage": stage, "seed": ctx.seed, "idx": idx, "src": src,
                        "caps": caps_json(&case.caps), "allow_process": case.allow, "probe": case.probe,
                        "must_be_refused_because": reasons});

    let policy = HostPolicy { allow_process: case.allow, process: case.caps };
    let t0 = Instant::now();
    let real = match util::guarded(|| pipeline::run_source_with_policy(&src, RunCfg::default(), policy)) {
        Ok(r) => r,
        Err((msg, loc)) => {
            let sig = format!("panic|{}|{}", util::normalise_msg(&msg), util::panic_site(&loc));
            ctx.out.fail(idx, &sig, json!({"panic": msg, "at": loc}), replay);
            return;
        }
    };
    let elapsed_ms = t0.elapsed().as_millis() as u64;
    if !real.accepted {
        // the generator wrote something the front end does not take: a broken case, not a verdict
        ctx.out.inconclusive(idx, "script rejected by the front end", json!({"parse": format!("{:?}", real.parse.first()), "sem": format!("{:?}", real.sem.first()), "src": show(&src)}));
        return;
    }
    let spawned = Path::new(&marker).exists();
    let canary_hit = case.canary.as_ref().is_some_and(|p| Path::new(p).exists());
    if canary_hit {
        ctx.out.fail(idx, "shell-interpretation", json!({"canary": case.canary}), replay);
        return;
    }
    let refused_expected = !reasons.is_empty();
    let ending = real.ending.as_str();
    if let Some(what) = case.probe.strip_prefix("observe|") {
        // recorded, never judged
        ctx.out.tag(&format!("observed.{what}.{}", if ending == "ok" { "ran" } else { ending }));
        return;
    }

    if !case.allow {
        // denied: nothing may be spawned; when the command is also invalid either refusal is fine
        let ok_ending = ending == env.e.denied || (refused_expected && ending == env.e.invalid);
        if spawned {
            ctx.out.fail(idx, "spawned-although-denied", json!({"ending": ending}), replay);
        } else if !ok_ending {
            ctx.out.fail(idx, "deny-not-enforced", json!({"ending": ending, "expected": env.e.denied}), replay);
        } else {
            ctx.out.tag("verdict.denied");
            for t in &case.tags {
                ctx.out.tag(t);
            }
            pending.push(Pending { idx, marker, canary: case.canary.clone(), replay });
        }
        return;
    }

    if refused_expected {
        let first = reasons[0].clone();
        if ending == env.e.invalid && !spawned {
            ctx.out.tag("verdict.refused");
            ctx.out.tag(&format!("refused.{first}"));
            for t in &case.tags {
                ctx.out.tag(t);
            }
            if case.nontrivial {
                ctx.out.nontrivial(util::hash64(format!("{src}{:?}", case.caps).as_bytes()));
                ctx.out.sample(json!({"src": show_n(&src, 700), "caps": caps_json(&case.caps), "verdict": "refused", "because": reasons}));
            }
            pending.push(Pending { idx, marker, canary: case.canary.clone(), replay });
        } else if spawned {
            let sig = if ending == env.e.invalid { "spawned-although-refused".to_string() } else if first.starts_with("max_") || first.starts_with("timeout") { format!("limit-not-enforced|{first}") } else { format!("invalid-accepted|{first}") };
            ctx.out.fail(idx, &sig, json!({"ending": ending, "spawned": true, "reasons": reasons}), replay);
        } else if m.program.len() >= 4096 && ending == env.e.spawn {
            // a path the kernel itself refuses (PATH_MAX); nothing was spawned
            ctx.out.tag("verdict.os_refused_path");
        } else {
            let sig = if first.starts_with("max_") || first.starts_with("timeout") { format!("limit-not-enforced|{first}") } else { format!("invalid-accepted|{first}") };
            ctx.out.fail(idx, &sig, json!({"ending": ending, "spawned": false, "reasons": reasons, "expected_ending": env.e.invalid}), replay);
        }
        return;
    }

    // the command must run
    if ending != "ok" {
        let path_too_long_for_os = m.program.len() >= 4096 || m.cwd.as_ref().is_some_and(|c| c.len() >= 4096);
        if ending == env.e.spawn && path_too_long_for_os && !spawned {
            ctx.out.tag("verdict.os_refused_path");
            for t in &case.tags {
                ctx.out.tag(t);
            }
            return;
        }
        if ending == env.e.invalid || ending == env.e.denied {
            let reason: String = real.runtime.iter().find(|d| d.severity == "error").map(|d| d.labels.iter().map(|l| l.2.clone()).collect::<Vec<_>>().join(" | ")).unwrap_or_default();
            ctx.out.fail(idx, &format!("in-limit-refused|{}", case.probe), json!({"ending": ending, "spawned": spawned, "reason_given": reason}), replay);
        } else if ending == env.e.timeout {
            let t = m.timeout.unwrap_or(f64::from(case.caps.default_timeout_ms));
            if (elapsed_ms as f64) < t {
                ctx.out.fail(idx, "premature-timeout", json!({"elapsed_ms": elapsed_ms, "timeout_ms": t}), replay);
            } else {
                // The helper needs milliseconds. Once may be a machine that stood still; twice in a
                // row (at least a minute in total) the child is waiting for something it was
                // configured not to wait for, e.g. the end of its standard input.
                let policy2 = HostPolicy { allow_process: case.allow, process: case.caps };
                let t1 = Instant::now();
                let again = util::guarded(|| pipeline::run_source_with_policy(&src, RunCfg::default(), policy2));
                let elapsed2 = t1.elapsed().as_millis() as u64;
                let stdin_kind = match &m.stdin {
                    Stdin::Text(t) if t.is_empty() => "empty-text",
                    Stdin::Text(_) => "text",
                    Stdin::Null => "null",
                    Stdin::Inherit => "inherit",
                    Stdin::Default => "default",
                };
                match again {
                    Ok(r2) if r2.ending == env.e.timeout && (elapsed2 as f64) >= t => {
                        ctx.out.fail(idx, &format!("helper-never-finished|stdin={stdin_kind}"), json!({"elapsed_ms": [elapsed_ms, elapsed2], "timeout_ms": t}), replay);
                    }
                    _ => ctx.out.inconclusive(idx, "child did not finish within the (huge) timeout once: machine too slow", json!({"elapsed_ms": elapsed_ms, "timeout_ms": t})),
                }
            }
        } else if ending == env.e.spawn {
            ctx.out.inconclusive(idx, "helper could not be started", json!({"runtime": format!("{:?}", real.runtime.first()), "spawned": spawned}));
        } else {
            ctx.out.fail(idx, &format!("unexpected-ending|{ending}"), json!({"spawned": spawned, "runtime": format!("{:?}", real.runtime.first())}), replay);
        }
        return;
    }
    if !spawned {
        ctx.out.fail(idx, "ok-without-spawn", json!({"output": real.output}), replay);
        return;
    }
    let side: J = match std::fs::read(&case.side).ok().and_then(|b| serde_json::from_slice(&b).ok()) {
        Some(j) => j,
        None => {
            ctx.out.inconclusive(idx, "helper left no side file", json!({"output": real.output}));
            return;
        }
    };
    if let Some((sig, detail)) = compare(env, &m, &side) {
        ctx.out.fail(idx, &sig, detail, replay);
        return;
    }
    if real.output.get(1).is_some_and(|c| c == "97") {
        ctx.out.inconclusive(idx, "helper reported an internal failure (exit 97)", json!({"output": real.output}));
        return;
    }
    if real.output != ["true", "0"] {
        ctx.out.fail(idx, "result-of-successful-helper", json!({"output": real.output}), replay);
        return;
    }
    let _ = std::fs::remove_file(&marker);
    let _ = std::fs::remove_file(&case.side);
    if let Some(c) = &case.canary {
        pending.push(Pending { idx, marker: String::new(), canary: Some(c.clone()), replay: replay.clone() });
    }

    // coverage
    ctx.out.tag("verdict.ran");
    for t in &case.tags {
        ctx.out.tag(t);
    }
    let mut firsts = String::new();
    for c in &case.spec.calls {
        let l = c.letter();
        if !firsts.contains(l) {
            firsts.push(l);
        }
    }
    ctx.out.tag(&format!("perm.{firsts}"));
    ctx.out.tag(&format!("stdin.{}", match &m.stdin {
        Stdin::Default => format!("default(child fd0={})", side.get("stdin_kind").and_then(J::as_str).unwrap_or("?")),
        Stdin::Inherit => "inherit".into(),
        Stdin::Null => "null".into(),
        Stdin::Text(..) => "text".into(),
    }));
    ctx.out.tag_n("args_compared", m.args.len() as u64);
    ctx.out.tag_n("env_overrides_compared", m.env.len() as u64);
    let meta_args = m.args.iter().filter(|a| is_meta(a)).count();
    if meta_args >= 2 {
        ctx.out.tag("args_with_metacharacters>=2");
    }
    if case.nontrivial {
        ctx.out.nontrivial(util::hash64(format!("{src}{:?}", case.caps).as_bytes()));
        ctx.out.sample(json!({"src": show_n(&src, 700), "caps": caps_json(&case.caps), "verdict": "ran", "argc": m.args.len() + 1, "env_overrides": m.env.len()}));
    }
}

pub fn run(ctx: &mut Ctx) {
    let env = setup(ctx);
    let stage = ctx.opt("stage").unwrap_or("random").to_string();
    let mut pending: Vec<Pending> = Vec::new();
    for idx in ctx.indices() {
        ctx.out.begin(idx);
        ctx.out.evaluations += 1;
        run_case(ctx, &env, &stage, idx, &mut pending);
    }
    // late look: nothing that was refused may have started in the meantime, no canary may exist
    for p in pending {
        if !p.marker.is_empty() && Path::new(&p.marker).exists() {
            ctx.out.fail(p.idx, "spawned-although-refused", json!({"late": true}), p.replay.clone());
        }
        if p.canary.as_ref().is_some_and(|c| Path::new(c).exists()) {
            ctx.out.fail(p.idx, "shell-interpretation", json!({"late": true, "canary": p.canary}), p.replay);
        }
    }
}
