//! Engine `procspec` (stub).
use crate::Ctx;

pub fn run(ctx: &mut Ctx) {
    let _ = ctx;
    eprintln!("engine procspec not implemented");
    std::process::exit(2);
}
