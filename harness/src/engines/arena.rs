//! Engine `arena` (stub).
use crate::Ctx;

pub fn run(ctx: &mut Ctx) {
    let _ = ctx;
    eprintln!("engine arena not implemented");
    std::process::exit(2);
}
