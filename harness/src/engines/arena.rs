//! Engine `arena` (C11): random operation histories against `naijascript::arena::Arena`
//! (debug builds: the borrow-tracking wrapper; release: the bump arena itself) and the two
//! process-wide scratch arenas, checked against a shadow model after every operation.
//!
//! Layout of this module: `arena/model.rs` (shadow model, fill patterns, operation encoding),
//! `arena/world.rs` (executes one operation against the real arena and the model and compares),
//! `arena/genr.rs` (state-dependent operation generator).

mod genr;
pub mod model;
pub mod world;

use std::collections::BTreeMap;

use serde_json::{Value as J, json};

use crate::Ctx;
use crate::util::{self, Rng};
use model::{CHUNK, Op};
use world::{Cfg, Outcome, World};

/// Where the operations of a history come from.
pub enum Source<'a> {
    Random { rng: Rng, left: usize, small: bool },
    Replay { ops: &'a [Op], pos: usize },
}

/// Scratch capacity is a property of the process (the two scratch arenas are process-wide
/// statics that keep their reservation), so it is derived from the run seed only.
pub fn scratch_cap_for(ctx: &Ctx) -> usize {
    if let Some(v) = ctx.opt("scratch-cap").and_then(|v| v.parse::<usize>().ok()) {
        return v;
    }
    let chunks = [2usize, 3, 4, 8][(ctx.seed % 4) as usize];
    chunks * CHUNK
}

pub fn case_cfg(rng: &mut Rng, small: bool, scratch_cap: usize) -> (Cfg, usize) {
    let caps: &[usize] = if small { &[1, 2, 3, 4] } else { &[1, 2, 3, 4, 6, 8, 12, 16] };
    // capacity as requested from Arena::new: sometimes not a multiple of the chunk size
    let chunks = *rng.pick(caps);
    let requested = match rng.below(4) {
        0 => chunks * CHUNK - rng.usize(CHUNK), // in ((chunks-1)*CHUNK, chunks*CHUNK]: rounded up by the arena
        1 if chunks == 1 && rng.chance(1, 4) => 0,
        _ => chunks * CHUNK,
    };
    let nops = if small { 60 + rng.usize(60) } else { 50 + rng.usize(351) };
    let reinit = rng.chance(1, 8);
    (Cfg { requested_cap: requested, scratch_cap, small, reinit }, nops)
}

/// Runs one history. Returns the executed operations, the outcome and the world's statistics.
pub fn run_history(cfg: &Cfg, mut src: Source<'_>) -> (Vec<Op>, Outcome, BTreeMap<&'static str, u64>, world::Flags) {
    let mut executed: Vec<Op> = Vec::new();
    let mut world = match World::new(cfg) {
        Ok(w) => w,
        Err(f) => return (executed, Outcome::Fail(f), BTreeMap::new(), world::Flags::default()),
    };
    let mut outcome = Outcome::Ok;
    loop {
        let op = match &mut src {
            Source::Random { rng, left, small } => {
                if *left == 0 {
                    None
                } else {
                    *left -= 1;
                    Some(genr::next_op(rng, &world, *small))
                }
            }
            Source::Replay { ops, pos } => {
                let o = ops.get(*pos).cloned();
                *pos += 1;
                o
            }
        };
        let Some(op) = op else { break };
        executed.push(op.clone());
        match world.apply(&op) {
            Ok(()) => {}
            Err(f) => {
                if f.recoverable {
                    // known-defect class: record, resynchronise the model, keep going
                    world.soft_failures.push(f);
                    if let Err(f2) = world.resync_after_soft_failure() {
                        outcome = Outcome::Fail(f2);
                        break;
                    }
                } else {
                    outcome = Outcome::Fail(f);
                    break;
                }
            }
        }
    }
    if matches!(outcome, Outcome::Ok) {
        if let Err(f) = world.finish() {
            outcome = Outcome::Fail(f);
        }
    }
    let soft = std::mem::take(&mut world.soft_failures);
    let stats = std::mem::take(&mut world.stats);
    let flags = world.flags;
    drop(world);
    if matches!(outcome, Outcome::Ok) && !soft.is_empty() {
        outcome = Outcome::Soft(soft);
    } else if let Outcome::Fail(f) = outcome {
        // keep the hard failure, mention soft ones in the detail
        let mut f = f;
        if !soft.is_empty() {
            f.detail["soft_failures_before"] = json!(soft.iter().map(|s| s.sig.clone()).collect::<Vec<_>>());
        }
        outcome = Outcome::Fail(f);
    }
    (executed, outcome, stats, flags)
}

/// The operations up to and including the one a recoverable finding was raised at.
fn trim_after(ops: &[Op], f: &world::Fail) -> Vec<Op> {
    let n = f.detail.get("op_number").and_then(J::as_u64).map_or(ops.len(), |n| n as usize);
    ops[..n.min(ops.len())].to_vec()
}

fn replay_json(cfg: &Cfg, seed: u64, idx: u64, ops: &[Op]) -> J {
    json!({
        "engine": "arena",
        "seed": seed,
        "idx": idx,
        "requested_cap": cfg.requested_cap,
        "scratch_cap": cfg.scratch_cap,
        "small": cfg.small,
        "reinit": cfg.reinit,
        "ops": ops.iter().map(Op::to_json).collect::<Vec<_>>(),
    })
}

pub fn run(ctx: &mut Ctx) {
    if let Some(path) = ctx.opt("replay-file").map(str::to_string) {
        replay_file(ctx, &path);
        return;
    }
    let small = ctx.opt_u64("small", 0) != 0;
    let scratch_cap = scratch_cap_for(ctx);
    world::init_scratch(scratch_cap);
    let verbose = ctx.opt_u64("verbose", 0) != 0;
    let mut soft_emitted: BTreeMap<String, u32> = BTreeMap::new();
    for idx in ctx.indices() {
        ctx.out.begin(idx);
        ctx.out.evaluations += 1;
        let mut rng = Rng::new(util::case_seed(ctx.seed, "arena", idx));
        let (cfg, nops) = case_cfg(&mut rng, small, scratch_cap);
        let res = util::guarded(|| run_history(&cfg, Source::Random { rng, left: nops, small }));
        match res {
            Err((msg, loc)) => {
                // a panic that no operation expected: a debug_assert / assert inside the arena
                // (or a harness bug). The history is not known here, the case is re-runnable
                // from (seed, idx).
                world::emergency_scratch_reset();
                let sig = format!("arena|panic|{}|{}", util::normalise_msg(&msg), util::panic_site(&loc));
                ctx.out.fail(
                    idx,
                    &sig,
                    json!({"panic": msg, "at": loc}),
                    json!({"engine": "arena", "seed": ctx.seed, "idx": idx, "requested_cap": cfg.requested_cap,
                           "scratch_cap": cfg.scratch_cap, "small": cfg.small, "regenerate": true}),
                );
            }
            Ok((ops, outcome, stats, flags)) => {
                for (k, v) in &stats {
                    ctx.out.tag_n(k, *v);
                }
                ctx.out.tag_n("ops.total", ops.len() as u64);
                match outcome {
                    Outcome::Ok => {}
                    Outcome::Soft(list) => {
                        // Recoverable (known-defect class) findings: the history went on after
                        // them. Only the first few per worker carry a full replay, the rest are
                        // counted, so that one defect cannot swamp the run.
                        let mut seen = std::collections::BTreeSet::new();
                        for f in list {
                            if seen.insert(f.sig.clone()) {
                                ctx.out.tag("finding.recoverable.histories");
                                let n = soft_emitted.entry(f.sig.clone()).or_insert(0);
                                if *n < 2 {
                                    *n += 1;
                                    ctx.out.fail(idx, &f.sig, f.detail.clone(), replay_json(&cfg, ctx.seed, idx, &trim_after(&ops, &f)));
                                }
                            }
                        }
                    }
                    Outcome::Fail(f) => {
                        if verbose {
                            eprintln!("case {idx}: {} {}", f.sig, f.detail);
                        }
                        if f.sig == "arena|alloc_uninit_slice|end-overflow" {
                            // known-defect class that cannot be continued (the offset is garbage):
                            // same emission budget as the recoverable findings
                            ctx.out.tag("finding.history_ended_by_known_defect_class");
                            let n = soft_emitted.entry(f.sig.clone()).or_insert(0);
                            if *n >= 2 {
                                continue;
                            }
                            *n += 1;
                        }
                        ctx.out.fail(idx, &f.sig, f.detail.clone(), replay_json(&cfg, ctx.seed, idx, &ops));
                        continue;
                    }
                }
                if flags.commit_cross {
                    ctx.out.tag("history.crosses_commit_boundary");
                }
                if flags.nontail_grow_after_reset {
                    ctx.out.tag("history.non_tail_grow_after_reset");
                }
                if flags.recommit_after_decommit {
                    ctx.out.tag("history.decommit_then_recommit");
                }
                if flags.scratch_depth_max >= 3 {
                    ctx.out.tag("history.scratch_depth_ge3");
                }
                if flags.nontrivial() {
                    let text = serde_json::to_string(&ops.iter().map(Op::to_json).collect::<Vec<_>>()).unwrap_or_default();
                    let h = util::hash64(format!("{}|{}", cfg.requested_cap, text).as_bytes());
                    ctx.out.nontrivial(h);
                    ctx.out.sample(json!({
                        "idx": idx,
                        "requested_capacity": cfg.requested_cap,
                        "operations": ops.len(),
                        "first_operations": ops.iter().take(14).map(Op::to_json).collect::<Vec<_>>(),
                    }));
                }
            }
        }
    }
}

/// `nsworker arena --replay-file F [--keep-stdout 1]`: re-runs one recorded history.
fn replay_file(ctx: &mut Ctx, path: &str) {
    let text = std::fs::read_to_string(path).expect("replay file");
    let mut j: J = serde_json::from_str(&text).expect("replay json");
    if j.get("replay").is_some() {
        j = j["replay"].clone();
    }
    let scratch_cap = j["scratch_cap"].as_u64().unwrap_or(4 * CHUNK as u64) as usize;
    let cfg = Cfg {
        requested_cap: j["requested_cap"].as_u64().unwrap_or(CHUNK as u64) as usize,
        scratch_cap,
        small: j["small"].as_bool().unwrap_or(false),
        reinit: j["reinit"].as_bool().unwrap_or(false),
    };
    world::init_scratch(scratch_cap);
    let idx = j["idx"].as_u64().unwrap_or(0);
    ctx.out.begin(idx);
    ctx.out.evaluations += 1;
    let res = if j["regenerate"].as_bool().unwrap_or(false) || j.get("ops").is_none() {
        let seed = j["seed"].as_u64().unwrap_or(ctx.seed);
        let mut rng = Rng::new(util::case_seed(seed, "arena", idx));
        let (cfg2, nops) = case_cfg(&mut rng, cfg.small, scratch_cap);
        util::guarded(|| run_history(&cfg2, Source::Random { rng, left: nops, small: cfg.small }))
    } else {
        let ops: Vec<Op> = j["ops"].as_array().map(|a| a.iter().filter_map(Op::from_json).collect()).unwrap_or_default();
        util::guarded(|| run_history(&cfg, Source::Replay { ops: &ops, pos: 0 }))
    };
    match res {
        Err((msg, loc)) => {
            eprintln!("REPLAY arena: panic `{msg}` at {loc}");
            ctx.out.fail(idx, &format!("arena|panic|{}|{}", util::normalise_msg(&msg), util::panic_site(&loc)), json!({"panic": msg, "at": loc}), j.clone());
        }
        Ok((ops, outcome, _, _)) => match outcome {
            Outcome::Ok => eprintln!("REPLAY arena: {} operations, no violation", ops.len()),
            Outcome::Soft(list) => {
                for f in list {
                    eprintln!("REPLAY arena: VIOLATION {} {}", f.sig, f.detail);
                    ctx.out.fail(idx, &f.sig, f.detail, j.clone());
                }
            }
            Outcome::Fail(f) => {
                eprintln!("REPLAY arena: VIOLATION after {} operations: {} {}", ops.len(), f.sig, f.detail);
                ctx.out.fail(idx, &f.sig, f.detail, j.clone());
            }
        },
    }
    if ctx.out.failures > 0 {
        ctx.out.finish();
        std::process::exit(1);
    }
}
