//! Engine `pool` (C12): random alloc/release interleavings on the string pool against an abstract
//! model per size class (live set, LIFO free stack, virgin boundary), through the feature-gated
//! wrappers `naijascript::arena::pool_verif::{VPool, VPoolSet}`.
//!
//! Two workloads: the runtime's real 20-class pool set, and small pools (2-64 slots) in which
//! exhaustion and refill happen every few operations.

use std::collections::BTreeMap;
use std::ptr::NonNull;

use naijascript::arena::pool_verif::{self, PoolState, VPool, VPoolSet};
use naijascript::arena::{Arena, ArenaString};
use naijascript::verif;
use serde_json::{Value as J, json};

use super::arena::model::{PERIOD, fill, gen_text, table, verify};
use crate::Ctx;
use crate::util::{self, Rng};

const SET_ARENA_CAP: usize = 64 << 20;
const SMALL_ARENA_CAP: usize = 1 << 20;
const FALLBACK_BUDGET: usize = 24 << 20;

// ---------------------------------------------------------------------------
// Specification of the size classes (written from the documentation in pool.rs, independent of
// the implementation's tables)
// ---------------------------------------------------------------------------

fn spec_class(n: u32) -> Option<usize> {
    match n {
        0 => Some(0),
        1..=128 => Some((n as usize).div_ceil(8) - 1),
        129..=256 => Some(16 + (n as usize - 129) / 32),
        _ => None,
    }
}

fn spec_slot_size(class: usize) -> u32 {
    if class < 16 { (class as u32 + 1) * 8 } else { 128 + (class as u32 - 15) * 32 }
}

fn spec_slot_count(class: usize) -> u32 {
    match class {
        0..=3 => 16_384,
        4..=7 => 4_096,
        8..=15 => 1_024,
        _ => 512,
    }
}

// ---------------------------------------------------------------------------
// Operations
// ---------------------------------------------------------------------------

#[derive(Clone, Debug)]
pub enum Op {
    /// `p` = pool index (small pools); ignored for the pool set, where the size selects the class.
    Alloc { p: usize, size: u32 },
    AllocStr { key: u64, n: u32 },
    Free { h: u32 },
    BurstAlloc { p: usize, size: u32, n: u32 },
    /// Releases up to `n` live buffers of pool/class `p` (-1 = any) in an order drawn from `key`.
    BurstFree { p: i32, n: u32, key: u64 },
    Probe { key: u64 },
    /// An unrelated allocation from the backing arena.
    ArenaAlloc { size: u32 },
}

impl Op {
    fn to_json(&self) -> J {
        match *self {
            Op::Alloc { p, size } => json!({"op": "alloc", "p": p, "size": size}),
            Op::AllocStr { key, n } => json!({"op": "alloc_str", "key": key, "n": n}),
            Op::Free { h } => json!({"op": "dealloc", "h": h}),
            Op::BurstAlloc { p, size, n } => json!({"op": "burst_alloc", "p": p, "size": size, "n": n}),
            Op::BurstFree { p, n, key } => json!({"op": "burst_dealloc", "p": p, "n": n, "key": key}),
            Op::Probe { key } => json!({"op": "probe_contains", "key": key}),
            Op::ArenaAlloc { size } => json!({"op": "arena_alloc", "size": size}),
        }
    }

    fn from_json(j: &J) -> Option<Op> {
        let u = |k: &str| j.get(k).and_then(J::as_u64);
        Some(match j.get("op")?.as_str()? {
            "alloc" => Op::Alloc { p: u("p")? as usize, size: u("size")? as u32 },
            "alloc_str" => Op::AllocStr { key: u("key")?, n: u("n")? as u32 },
            "dealloc" => Op::Free { h: u("h")? as u32 },
            "burst_alloc" => Op::BurstAlloc { p: u("p")? as usize, size: u("size")? as u32, n: u("n")? as u32 },
            "burst_dealloc" => Op::BurstFree { p: j.get("p")?.as_i64()? as i32, n: u("n")? as u32, key: u("key")? },
            "probe_contains" => Op::Probe { key: u("key")? },
            "arena_alloc" => Op::ArenaAlloc { size: u("size")? as u32 },
            _ => return None,
        })
    }
}

#[derive(Clone, Debug)]
pub enum Mode {
    Set,
    Small(Vec<(u32, u32)>),
}

impl Mode {
    fn to_json(&self) -> J {
        match self {
            Mode::Set => json!("set"),
            Mode::Small(v) => json!(v.iter().map(|(s, c)| json!([s, c])).collect::<Vec<_>>()),
        }
    }

    fn from_json(j: &J) -> Option<Mode> {
        if j.as_str() == Some("set") {
            return Some(Mode::Set);
        }
        let a = j.as_array()?;
        let mut v = Vec::new();
        for e in a {
            v.push((e.get(0)?.as_u64()? as u32, e.get(1)?.as_u64()? as u32));
        }
        Some(Mode::Small(v))
    }
}

// ---------------------------------------------------------------------------
// Model
// ---------------------------------------------------------------------------

#[derive(Debug)]
struct Fail {
    sig: String,
    detail: J,
}

fn fail(sig: &str, detail: J) -> Fail {
    Fail { sig: sig.to_string(), detail }
}

struct PoolModel {
    base: usize,
    ss: u32,
    count: u32,
    /// slot index -> handle
    live: BTreeMap<u32, u32>,
    free: Vec<u32>,
    bump: u32,
    /// handle of the most recent allocation that is still live (LIFO detection)
    alloc_order: Vec<u32>,
    exhausted: bool,
    released_after_exhaustion: bool,
    refilled: bool,
}

impl PoolModel {
    fn total(&self) -> usize {
        self.ss as usize * self.count as usize
    }

    fn predict(&self) -> Option<u32> {
        if let Some(&i) = self.free.last() {
            Some(i)
        } else if self.bump < self.count {
            Some(self.bump)
        } else {
            None
        }
    }

    fn contains(&self, addr: usize) -> bool {
        addr >= self.base && addr - self.base < self.total()
    }
}

struct Buf {
    h: u32,
    addr: usize,
    /// bytes owned (slot size for pooled buffers, the returned length for fallback buffers)
    len: usize,
    /// the size that was passed to alloc (must be passed to dealloc again)
    size: u32,
    /// pool / class index; None = arena fallback
    pool: Option<usize>,
    slot: u32,
    tab: [u8; PERIOD],
}

/// Set of live handles with O(1) insert / remove / pick (order is a deterministic function of
/// the history).
#[derive(Default)]
struct LiveSet {
    v: Vec<u32>,
    pos: BTreeMap<u32, usize>,
}

impl LiveSet {
    fn insert(&mut self, h: u32) {
        self.pos.insert(h, self.v.len());
        self.v.push(h);
    }

    fn remove(&mut self, h: u32) {
        if let Some(i) = self.pos.remove(&h) {
            self.v.swap_remove(i);
            if i < self.v.len() {
                self.pos.insert(self.v[i], i);
            }
        }
    }
}

enum Pools {
    Set(VPoolSet<'static>),
    Small(Vec<VPool<'static>>),
}

#[derive(Default, Clone, Copy)]
struct Flags {
    exhausted: bool,
    refilled: bool,
    non_lifo: bool,
}

struct World {
    pools: Option<Pools>,
    arena: Option<Box<Arena>>,
    models: Vec<PoolModel>,
    bufs: BTreeMap<u32, Buf>,
    /// start address -> handle, for the overlap check
    by_addr: BTreeMap<usize, u32>,
    live_all: LiveSet,
    live_pool: Vec<LiveSet>,
    /// fallback buffers that were "released": their memory must never come back
    dead_fallback: Vec<(usize, usize)>,
    arena_blocks: Vec<(usize, usize)>,
    fallback_bytes: usize,
    next_h: u32,
    opno: usize,
    inner: usize,
    last_op: &'static str,
    stats: BTreeMap<&'static str, u64>,
    flags: Flags,
    heap_probe: Box<[u8; 64]>,
}

impl World {
    fn new(mode: &Mode) -> Result<Self, Fail> {
        let cap = if matches!(mode, Mode::Set) { SET_ARENA_CAP } else { SMALL_ARENA_CAP };
        let arena = Box::new(Arena::new(cap).map_err(|e| fail("pool|arena-new-failed", json!({"errno": e})))?);
        let aref: &'static Arena = unsafe { &*std::ptr::from_ref::<Arena>(&*arena) };
        // something in front of the first block, so that "one byte before block 0" is arena memory
        let pre = aref.alloc_uninit_slice::<u8>(24);
        let mut arena_blocks = vec![(pre.as_ptr() as usize, 24usize)];
        let mut models = Vec::new();
        let pools = match mode {
            Mode::Set => {
                let set = VPoolSet::new(aref);
                for c in 0..pool_verif::CLASSES {
                    let st = set.class_state(c);
                    models.push(Self::model_from_state(st));
                }
                Pools::Set(set)
            }
            Mode::Small(geo) => {
                let mut v = Vec::new();
                for &(ss, count) in geo {
                    let p = VPool::new(aref, ss, count);
                    models.push(Self::model_from_state(p.state()));
                    v.push(p);
                    // unrelated arena memory between the pools
                    let gap = aref.alloc_uninit_slice::<u8>(40);
                    arena_blocks.push((gap.as_ptr() as usize, 40));
                }
                Pools::Small(v)
            }
        };
        let w = Self {
            pools: Some(pools),
            arena: Some(arena),
            models,
            bufs: BTreeMap::new(),
            by_addr: BTreeMap::new(),
            live_all: LiveSet::default(),
            live_pool: Vec::new(),
            dead_fallback: Vec::new(),
            arena_blocks,
            fallback_bytes: 0,
            next_h: 1,
            opno: 0,
            inner: 0,
            last_op: "new",
            stats: BTreeMap::new(),
            flags: Flags::default(),
            heap_probe: Box::new([0; 64]),
        };
        let mut w = w;
        w.live_pool = (0..w.models.len()).map(|_| LiveSet::default()).collect();
        w.check_geometry(mode)?;
        Ok(w)
    }

    fn model_from_state(st: PoolState) -> PoolModel {
        PoolModel {
            base: st.5,
            ss: st.3,
            count: st.4,
            live: BTreeMap::new(),
            free: Vec::new(),
            bump: 0,
            alloc_order: Vec::new(),
            exhausted: false,
            released_after_exhaustion: false,
            refilled: false,
        }
    }

    fn arena(&self) -> &Arena {
        self.arena.as_ref().expect("arena")
    }

    fn stat(&mut self, k: &'static str) {
        *self.stats.entry(k).or_insert(0) += 1;
    }

    fn ctx(&self) -> J {
        json!({"op_number": self.opno, "inner_step": self.inner, "operation": self.last_op, "live_buffers": self.bufs.len()})
    }

    /// Fresh pools: geometry as requested / as documented, blocks inside the arena, 8-aligned,
    /// pairwise disjoint, all counters zero.
    fn check_geometry(&self, mode: &Mode) -> Result<(), Fail> {
        let (abase, acap, _, aoff) = self.arena().verif_state();
        for (i, m) in self.models.iter().enumerate() {
            let (want_ss, want_count) = match mode {
                Mode::Set => (spec_slot_size(i), spec_slot_count(i)),
                Mode::Small(g) => g[i],
            };
            let st = self.state(i);
            let d = json!({"pool": i, "state": [st.0, st.1, st.2, st.3, st.4], "expected_slot_size": want_ss, "expected_slot_count": want_count});
            if m.ss != want_ss || m.count != want_count {
                return Err(fail("pool|geometry", d));
            }
            if st.0 != 0 || st.1 != 0 || st.2 != 0 {
                return Err(fail("pool|fresh-not-empty", d));
            }
            if m.base % 8 != 0 || m.base < abase || m.base + m.total() > abase + aoff || aoff > acap {
                return Err(fail("pool|block-outside-arena", d));
            }
            for (j, o) in self.models.iter().enumerate() {
                if j != i && m.base < o.base + o.total() && o.base < m.base + m.total() {
                    return Err(fail("pool|blocks-overlap", d));
                }
            }
        }
        if matches!(mode, Mode::Set) {
            if pool_verif::slot_sizes().iter().enumerate().any(|(i, s)| *s != spec_slot_size(i)) || pool_verif::slot_counts().iter().enumerate().any(|(i, s)| *s != spec_slot_count(i)) {
                return Err(fail("pool|geometry", json!({"tables": "SLOT_SIZES / SLOT_COUNTS differ from the documented geometry"})));
            }
            for n in 0..=600u32 {
                let got = pool_verif::size_class(n).map(|c| c as usize);
                if got != spec_class(n) {
                    return Err(fail("pool|size-class", json!({"size": n, "class": got, "expected": spec_class(n)})));
                }
            }
            for n in [1000u32, 65535, 65536, 70000, 1 << 20, u32::MAX] {
                if pool_verif::size_class(n).is_some() {
                    return Err(fail("pool|size-class", json!({"size": n, "class": pool_verif::size_class(n)})));
                }
            }
        }
        Ok(())
    }

    fn state(&self, i: usize) -> PoolState {
        match self.pools.as_ref().expect("pools") {
            Pools::Set(s) => s.class_state(i),
            Pools::Small(v) => v[i].state(),
        }
    }

    fn real_contains(&self, addr: usize) -> bool {
        match self.pools.as_ref().expect("pools") {
            Pools::Set(s) => s.contains(addr as *const u8),
            Pools::Small(v) => v.iter().any(|p| p.contains(addr as *const u8)),
        }
    }

    fn is_set(&self) -> bool {
        matches!(self.pools, Some(Pools::Set(_)))
    }

    // -----------------------------------------------------------------------

    /// Everything that must hold after each single alloc / dealloc.
    fn check_all(&self) -> Result<(), Fail> {
        for (i, m) in self.models.iter().enumerate() {
            let st = self.state(i);
            let d = || {
                let mut c = self.ctx();
                c["pool"] = json!(i);
                c["counters"] = json!({"live": st.0, "free": st.1, "bump": st.2, "slot_size": st.3, "slot_count": st.4});
                c["model"] = json!({"live": m.live.len(), "free": m.free.len(), "bump": m.bump});
                c
            };
            if st.3 != m.ss || st.4 != m.count || st.5 != m.base {
                return Err(fail("pool|geometry-changed", d()));
            }
            if u64::from(st.0) + u64::from(st.1) + u64::from(st.4) != u64::from(st.4) + u64::from(st.2) || st.2 > st.4 {
                return Err(fail("pool|conservation", d()));
            }
            if st.0 as usize != m.live.len() || st.1 as usize != m.free.len() || st.2 != m.bump {
                return Err(fail("pool|counter-mismatch", d()));
            }
        }
        for b in self.bufs.values() {
            if let Some((at, want, got)) = unsafe { verify(b.addr as *const u8, 0, b.len, &b.tab) } {
                let mut c = self.ctx();
                c["buffer"] = json!({"handle": b.h, "pool": b.pool, "slot": b.slot, "len": b.len});
                c["first_bad_byte"] = json!({"index": at, "expected": want, "found": got});
                return Err(fail("pool|buffer-clobbered", c));
            }
        }
        Ok(())
    }

    /// Validates a buffer the pool handed out for `size` bytes on pool/class `p` (None: the size
    /// has no class) and enters it into the model.
    fn accept(&mut self, p: Option<usize>, size: u32, addr: usize, len: Option<usize>, arena_before: usize) -> Result<u32, Fail> {
        let mut c = self.ctx();
        c["request"] = json!({"size": size, "pool": p});
        c["returned"] = json!({"addr_in_arena": addr.wrapping_sub(self.arena().verif_state().0), "len": len});
        let predicted = p.and_then(|p| self.models[p].predict().map(|i| (p, i)));
        if let Some(len) = len
            && len < size as usize
        {
            return Err(fail("pool|short-buffer", c));
        }
        // overlap with anything live, whatever the model predicted
        let my_len = len.unwrap_or(size as usize).max(1);
        let below = self.by_addr.range(..=addr).next_back().map(|(_, h)| *h);
        let above = self.by_addr.range(addr + 1..).next().map(|(_, h)| *h);
        for oh in [below, above].into_iter().flatten() {
            let b = &self.bufs[&oh];
            if addr < b.addr + b.len.max(1) && b.addr < addr + my_len {
                c["other"] = json!({"handle": b.h, "pool": b.pool, "slot": b.slot});
                return Err(fail("pool|live-buffers-overlap", c));
            }
        }
        let (abase, _, _, aoff) = self.arena().verif_state();
        let h = self.next_h;
        match predicted {
            Some((p, idx)) => {
                let m = &self.models[p];
                let want = m.base + idx as usize * m.ss as usize;
                c["predicted"] = json!({"pool": p, "slot": idx, "from": if m.free.is_empty() { "virgin" } else { "free list" }});
                if !m.contains(addr) {
                    // in another class, or fallback although a slot was available
                    if let Some(q) = self.models.iter().position(|o| o.contains(addr)) {
                        c["landed_in_pool"] = json!(q);
                        return Err(fail("pool|wrong-class", c));
                    }
                    return Err(fail("pool|fallback-although-slot-available", c));
                }
                let off = addr - m.base;
                if off % m.ss as usize != 0 {
                    return Err(fail("pool|slot-misaligned", c));
                }
                let got_idx = (off / m.ss as usize) as u32;
                if m.live.contains_key(&got_idx) {
                    return Err(fail("pool|slot-handed-out-twice", c));
                }
                if let Some(len) = len
                    && len != m.ss as usize
                {
                    return Err(fail("pool|slot-length", c));
                }
                if got_idx >= m.bump && idx != got_idx {
                    return Err(fail("pool|virgin-order", c));
                }
                if addr != want {
                    return Err(fail("pool|reuse-order", c));
                }
                if aoff != arena_before {
                    return Err(fail("pool|pooled-alloc-moved-arena", c));
                }
                let ss = m.ss as usize;
                let m = &mut self.models[p];
                if m.free.pop().is_some() {
                    if m.exhausted && m.released_after_exhaustion {
                        m.refilled = true;
                    }
                    *self.stats.entry("alloc.from_free_list").or_insert(0) += 1;
                } else {
                    m.bump += 1;
                    *self.stats.entry("alloc.virgin").or_insert(0) += 1;
                }
                m.live.insert(idx, h);
                m.alloc_order.push(h);
                self.bufs.insert(h, Buf { h, addr, len: ss, size, pool: Some(p), slot: idx, tab: table(h) });
                self.live_pool[p].insert(h);
                if self.models[p].refilled {
                    self.flags.refilled = true;
                }
            }
            None => {
                // arena fallback: class exhausted, or no class for this size
                if let Some(p) = p {
                    let m = &mut self.models[p];
                    if !m.exhausted {
                        m.exhausted = true;
                        *self.stats.entry("exhaustion.events").or_insert(0) += 1;
                    }
                    self.flags.exhausted = true;
                    self.stat("alloc.fallback.class_exhausted");
                } else {
                    self.stat("alloc.fallback.oversize");
                }
                if let Some(q) = self.models.iter().position(|o| o.contains(addr) || (size > 0 && o.contains(addr + size as usize - 1))) {
                    c["landed_in_pool"] = json!(q);
                    return Err(fail("pool|fallback-inside-pool-block", c));
                }
                // fresh bump memory: exactly the bytes above the arena's previous offset, so it
                // can be neither a recycled fallback buffer nor pool bookkeeping
                if addr != abase + arena_before || aoff != arena_before + size as usize {
                    c["arena_offset"] = json!({"before": arena_before, "after": aoff});
                    return Err(fail("pool|fallback-not-fresh-arena-memory", c));
                }
                for &(a, l) in &self.dead_fallback {
                    if addr < a + l && a < addr + my_len {
                        return Err(fail("pool|fallback-recycled", c));
                    }
                }
                if self.real_contains(addr) {
                    return Err(fail("pool|contains-wrong", c));
                }
                let l = len.unwrap_or(size as usize);
                self.fallback_bytes += l;
                self.bufs.insert(h, Buf { h, addr, len: l, size, pool: None, slot: 0, tab: table(h) });
            }
        }
        self.next_h += 1;
        self.by_addr.insert(addr, h);
        self.live_all.insert(h);
        let b = &self.bufs[&h];
        unsafe { fill(b.addr as *mut u8, 0, b.len, &b.tab) };
        Ok(h)
    }

    fn do_alloc(&mut self, p: usize, size: u32) -> Result<(), Fail> {
        let before = self.arena().verif_state().3;
        match self.pools.as_ref().expect("pools") {
            Pools::Set(set) => {
                if size as usize > 256 && self.fallback_bytes + size as usize > FALLBACK_BUDGET {
                    self.stat("skipped.inapplicable");
                    return Ok(());
                }
                let r = set.alloc(size);
                let addr = r.cast::<u8>().as_ptr() as usize;
                self.size_stat(size);
                self.accept(spec_class(size), size, addr, Some(r.len()), before)?;
            }
            Pools::Small(v) => {
                if p >= v.len() {
                    self.stat("skipped.inapplicable");
                    return Ok(());
                }
                let r = v[p].alloc();
                match (self.models[p].predict(), r) {
                    (None, None) => {
                        let m = &mut self.models[p];
                        if !m.exhausted {
                            m.exhausted = true;
                            self.stat("exhaustion.events");
                        }
                        self.flags.exhausted = true;
                        self.stat("alloc.none_when_exhausted");
                        if self.arena().verif_state().3 != before {
                            return Err(fail("pool|pooled-alloc-moved-arena", self.ctx()));
                        }
                    }
                    (Some(idx), None) => {
                        let mut c = self.ctx();
                        c["pool"] = json!(p);
                        c["predicted_slot"] = json!(idx);
                        return Err(fail("pool|none-although-slot-available", c));
                    }
                    (None, Some(r)) => {
                        let mut c = self.ctx();
                        c["pool"] = json!(p);
                        c["returned_offset_in_block"] = json!((r.cast::<u8>().as_ptr() as usize).wrapping_sub(self.models[p].base));
                        let off = (r.cast::<u8>().as_ptr() as usize).wrapping_sub(self.models[p].base);
                        let idx = (off / self.models[p].ss as usize) as u32;
                        if self.models[p].live.contains_key(&idx) {
                            return Err(fail("pool|slot-handed-out-twice", c));
                        }
                        return Err(fail("pool|slot-from-exhausted-pool", c));
                    }
                    (Some(_), Some(r)) => {
                        let ss = self.models[p].ss;
                        self.accept(Some(p), ss, r.cast::<u8>().as_ptr() as usize, Some(r.len()), before)?;
                    }
                }
            }
        }
        self.stat("op.alloc");
        Ok(())
    }

    fn size_stat(&mut self, size: u32) {
        let k = match size {
            0 => "size.0",
            1 => "size.1",
            8 => "size.8",
            9 => "size.9",
            128 => "size.128",
            129 => "size.129",
            160 => "size.160",
            161 => "size.161",
            256 => "size.256",
            257 => "size.257",
            300 => "size.300",
            70000 => "size.70000",
            _ => "size.other",
        };
        self.stat(k);
    }

    fn do_alloc_str(&mut self, key: u64, n: u32) -> Result<(), Fail> {
        let before = self.arena().verif_state().3;
        let Some(Pools::Set(set)) = self.pools.as_ref() else {
            self.stat("skipped.inapplicable");
            return Ok(());
        };
        if n as usize > 256 && self.fallback_bytes + n as usize > FALLBACK_BUDGET {
            self.stat("skipped.inapplicable");
            return Ok(());
        }
        let text = gen_text(key, n as usize);
        let s: ArenaString<'static> = set.alloc_str(&text);
        let addr = s.as_bytes().as_ptr() as usize;
        let ok = s.as_str() == text && s.len() == text.len() && s.capacity() == text.len();
        // the string's destructor hands the buffer to the arena's no-op deallocate
        std::mem::forget(s);
        self.stat("op.alloc_str");
        self.size_stat(n);
        if !ok {
            let mut c = self.ctx();
            c["text_len"] = json!(n);
            return Err(fail("pool|alloc_str-content", c));
        }
        self.accept(spec_class(n), n, addr, None, before)?;
        Ok(())
    }

    fn do_free(&mut self, h: u32) -> Result<(), Fail> {
        let Some(b) = self.bufs.remove(&h) else {
            self.stat("skipped.inapplicable");
            return Ok(());
        };
        self.by_addr.remove(&b.addr);
        self.live_all.remove(h);
        if let Some(p) = b.pool {
            self.live_pool[p].remove(h);
        }
        let before = self.arena().verif_state().3;
        let ptr = NonNull::new(b.addr as *mut u8).expect("nonnull");
        match self.pools.as_ref().expect("pools") {
            Pools::Set(set) => unsafe { set.dealloc(ptr, b.size) },
            Pools::Small(v) => unsafe { v[b.pool.expect("pooled")].dealloc(ptr) },
        }
        self.stat("op.dealloc");
        match b.pool {
            Some(p) => {
                let m = &mut self.models[p];
                m.live.remove(&b.slot);
                m.free.push(b.slot);
                if m.exhausted {
                    m.released_after_exhaustion = true;
                }
                let newest = m.alloc_order.last().copied();
                m.alloc_order.retain(|x| *x != h);
                if newest != Some(h) {
                    self.flags.non_lifo = true;
                    self.stat("dealloc.non_lifo");
                } else {
                    self.stat("dealloc.lifo");
                }
            }
            None => {
                // no-op for the pool: no counter may move (check_all), the memory is never reused
                self.dead_fallback.push((b.addr, b.len.max(1)));
                self.stat("dealloc.fallback_noop");
            }
        }
        if self.arena().verif_state().3 != before {
            return Err(fail("pool|dealloc-moved-arena", self.ctx()));
        }
        Ok(())
    }

    fn do_probe(&mut self, key: u64) -> Result<(), Fail> {
        let mut rng = Rng::new(key);
        let mut addrs: Vec<(usize, &'static str)> = Vec::new();
        let np = self.models.len();
        for _ in 0..3 {
            let m = &self.models[rng.usize(np)];
            let slot = rng.usize(m.count as usize);
            let s = m.base + slot * m.ss as usize;
            addrs.push((s, "slot start"));
            addrs.push((s + 1 + rng.usize(m.ss as usize - 1), "slot interior"));
            addrs.push((s + m.ss as usize - 1, "slot last byte"));
            addrs.push((m.base, "block first byte"));
            addrs.push((m.base + m.total() - 1, "block last byte"));
            addrs.push((m.base + m.total(), "one past the last slot (free-list storage)"));
            addrs.push((m.base + m.total() + rng.usize(4 * m.count as usize), "free-list storage"));
            addrs.push((m.base + m.total() + 4 * m.count as usize - 1, "free-list storage last byte"));
            addrs.push((m.base - 1, "one before the block"));
        }
        for b in self.bufs.values().filter(|b| b.pool.is_none()).take(4) {
            addrs.push((b.addr, "fallback buffer"));
            addrs.push((b.addr + b.len.saturating_sub(1), "fallback buffer last byte"));
        }
        for &(a, l) in self.arena_blocks.iter().rev().take(3) {
            addrs.push((a, "unrelated arena block"));
            addrs.push((a + l - 1, "unrelated arena block last byte"));
        }
        let (abase, acap, _, aoff) = self.arena().verif_state();
        addrs.push((abase, "arena base"));
        addrs.push((abase + aoff, "arena watermark"));
        addrs.push((abase + acap - 1, "arena last byte"));
        let local = 0u64;
        addrs.push((std::ptr::from_ref(&local) as usize, "stack"));
        addrs.push((self.heap_probe.as_ptr() as usize, "heap"));
        addrs.push((8, "near null"));
        addrs.push((usize::MAX, "usize::MAX"));
        for (addr, what) in addrs {
            let want = self.models.iter().any(|m| m.contains(addr));
            let got = self.real_contains(addr);
            *self.stats.entry(if want { "contains.expected_true" } else { "contains.expected_false" }).or_insert(0) += 1;
            if want != got {
                let mut c = self.ctx();
                c["probe"] = json!({"kind": what, "addr_minus_arena_base": addr.wrapping_sub(abase), "expected": want, "got": got});
                return Err(fail("pool|contains-wrong", c));
            }
        }
        if let Some(Pools::Small(v)) = self.pools.as_ref() {
            // per-pool ownership: a slot of pool i is not owned by pool j
            for (i, m) in self.models.iter().enumerate() {
                for (j, p) in v.iter().enumerate() {
                    let a = m.base + rng.usize(m.total());
                    if p.contains(a as *const u8) != (i == j) {
                        let mut c = self.ctx();
                        c["probe"] = json!({"address_in_pool": i, "asked_pool": j});
                        return Err(fail("pool|contains-wrong", c));
                    }
                }
            }
        }
        self.stat("op.probe_contains");
        Ok(())
    }

    fn live_of(&self, p: i32) -> &[u32] {
        if p < 0 { &self.live_all.v } else { self.live_pool.get(p as usize).map_or(&[][..], |l| &l.v) }
    }

    fn apply(&mut self, op: &Op) -> Result<(), Fail> {
        self.opno += 1;
        self.inner = 0;
        match *op {
            Op::Alloc { p, size } => {
                self.last_op = "alloc";
                self.do_alloc(p, size)?;
                self.check_all()
            }
            Op::AllocStr { key, n } => {
                self.last_op = "alloc_str";
                self.do_alloc_str(key, n)?;
                self.check_all()
            }
            Op::Free { h } => {
                self.last_op = "dealloc";
                self.do_free(h)?;
                self.check_all()
            }
            Op::BurstAlloc { p, size, n } => {
                self.last_op = "alloc";
                self.stat("op.burst_alloc");
                for i in 0..n {
                    self.inner = i as usize;
                    self.do_alloc(p, size)?;
                    self.check_all()?;
                }
                Ok(())
            }
            Op::BurstFree { p, n, key } => {
                self.last_op = "dealloc";
                self.stat("op.burst_dealloc");
                let mut rng = Rng::new(key);
                for i in 0..n {
                    self.inner = i as usize;
                    let live = self.live_of(p);
                    if live.is_empty() {
                        break;
                    }
                    let h = live[rng.usize(live.len())];
                    self.do_free(h)?;
                    self.check_all()?;
                }
                Ok(())
            }
            Op::Probe { key } => {
                self.last_op = "probe_contains";
                self.do_probe(key)
            }
            Op::ArenaAlloc { size } => {
                self.last_op = "arena_alloc";
                if self.fallback_bytes + size as usize > FALLBACK_BUDGET || size == 0 {
                    self.stat("skipped.inapplicable");
                    return Ok(());
                }
                if !self.is_set() && self.arena().verif_state().3 + size as usize + 4096 > SMALL_ARENA_CAP {
                    self.stat("skipped.inapplicable");
                    return Ok(());
                }
                self.fallback_bytes += size as usize;
                let s = self.arena().alloc_uninit_slice::<u8>(size as usize);
                let a = s.as_ptr() as usize;
                self.arena_blocks.push((a, size as usize));
                self.stat("op.arena_alloc");
                self.check_all()
            }
        }
    }

    /// End of history: everything is released in handle order, every class must be back to
    /// live = 0 with free + virgin = capacity.
    fn finish(&mut self) -> Result<(), Fail> {
        self.opno += 1;
        self.last_op = "dealloc";
        let all: Vec<u32> = self.bufs.keys().copied().collect();
        for (i, h) in all.into_iter().enumerate() {
            self.inner = i;
            self.do_free(h)?;
        }
        self.check_all()?;
        for (i, _) in self.models.iter().enumerate() {
            let st = self.state(i);
            if st.0 != 0 || st.1 + (st.4 - st.2) != st.4 {
                let mut c = self.ctx();
                c["pool"] = json!(i);
                c["counters"] = json!({"live": st.0, "free": st.1, "bump": st.2, "slot_count": st.4});
                return Err(fail("pool|conservation", c));
            }
        }
        Ok(())
    }
}

impl Drop for World {
    fn drop(&mut self) {
        drop(self.pools.take());
        drop(self.arena.take());
    }
}

// ---------------------------------------------------------------------------
// Generator
// ---------------------------------------------------------------------------

const BIASED: [u32; 12] = [0, 1, 8, 9, 128, 129, 160, 161, 256, 257, 300, 70000];

fn gen_mode(rng: &mut Rng) -> Mode {
    if rng.chance(4, 10) {
        Mode::Set
    } else {
        let n = 1 + rng.usize(3);
        Mode::Small((0..n).map(|_| (8 * (1 + rng.below(32) as u32), if rng.chance(1, 2) { 2 + rng.below(7) as u32 } else { 2 + rng.below(63) as u32 })).collect())
    }
}

struct GenState {
    /// Set mode: a class the history is going to exhaust (burst), and the phase it is in.
    target_class: Option<usize>,
    phase: u8,
}

fn set_size_for_class(rng: &mut Rng, c: usize) -> u32 {
    let hi = spec_slot_size(c);
    let lo = if c == 0 { 0 } else { spec_slot_size(c - 1) + 1 };
    match rng.below(3) {
        0 => hi,
        1 => lo,
        _ => lo + rng.below(u64::from(hi - lo + 1)) as u32,
    }
}

fn next_op(rng: &mut Rng, w: &World, g: &mut GenState, small: bool) -> Op {
    let live: &[u32] = &w.live_all.v;
    if w.is_set() {
        if let Some(c) = g.target_class {
            // scripted part of the history: exhaust, release out of order, refill
            match g.phase {
                0 if w.opno >= 5 => {
                    g.phase = 1;
                    let m = &w.models[c];
                    let remaining = m.count - m.bump + m.free.len() as u32;
                    return Op::BurstAlloc { p: 0, size: set_size_for_class(rng, c), n: remaining + 1 + rng.below(6) as u32 };
                }
                1 => {
                    g.phase = 2;
                    return Op::BurstFree { p: c as i32, n: 3 + rng.below(if small { 20 } else { 200 }) as u32, key: rng.next_u64() >> 11 };
                }
                2 => {
                    g.phase = 3;
                    let m = &w.models[c];
                    return Op::BurstAlloc { p: 0, size: set_size_for_class(rng, c), n: m.free.len() as u32 + rng.below(4) as u32 };
                }
                _ => {}
            }
        }
        match rng.below(100) {
            0..=39 => {
                let size = if rng.chance(55, 100) { *rng.pick(&BIASED) } else { rng.below(301) as u32 };
                Op::Alloc { p: 0, size }
            }
            40..=49 => {
                let n = if rng.chance(55, 100) { *rng.pick(&BIASED[..11]) } else { rng.below(301) as u32 };
                Op::AllocStr { key: rng.next_u64() >> 11, n }
            }
            50..=81 if !live.is_empty() => Op::Free { h: live[rng.usize(live.len())] },
            82..=84 => Op::BurstFree { p: -1, n: 1 + rng.below(30) as u32, key: rng.next_u64() >> 11 },
            85..=86 => Op::ArenaAlloc { size: 1 + rng.below(5000) as u32 },
            87..=88 => Op::BurstAlloc { p: 0, size: rng.below(257) as u32, n: 2 + rng.below(40) as u32 },
            _ => Op::Probe { key: rng.next_u64() >> 11 },
        }
    } else {
        let np = w.models.len();
        let p = rng.usize(np);
        let total_live = live.len();
        let cap: usize = w.models.iter().map(|m| m.count as usize).sum();
        // drift between mostly-full and mostly-empty so that exhaustion and refill alternate
        let alloc_w = if total_live * 10 < cap * 3 { 60 } else if total_live * 10 > cap * 8 { 30 } else { 45 };
        match rng.below(100) {
            x if x < alloc_w => Op::Alloc { p, size: 0 },
            x if x < 80 && !live.is_empty() => Op::Free { h: live[rng.usize(live.len())] },
            80..=83 => Op::BurstAlloc { p, size: 0, n: 1 + rng.below(u64::from(w.models[p].count) + 3) as u32 },
            84..=87 => Op::BurstFree { p: if rng.chance(1, 2) { p as i32 } else { -1 }, n: 1 + rng.below(70) as u32, key: rng.next_u64() >> 11 },
            88..=89 => Op::ArenaAlloc { size: 1 + rng.below(300) as u32 },
            _ => Op::Probe { key: rng.next_u64() >> 11 },
        }
    }
}

// ---------------------------------------------------------------------------
// Driver
// ---------------------------------------------------------------------------

enum Source<'a> {
    Random { rng: Rng, left: usize, g: GenState, small: bool },
    Replay { ops: &'a [Op], pos: usize },
}

type Run = (Vec<Op>, Option<Fail>, BTreeMap<&'static str, u64>, Flags);

fn run_history(mode: &Mode, mut src: Source<'_>) -> Run {
    let mut executed = Vec::new();
    let c0 = verif::counters();
    let mut w = match World::new(mode) {
        Ok(w) => w,
        Err(f) => return (executed, Some(f), BTreeMap::new(), Flags::default()),
    };
    let mut failure = None;
    loop {
        let op = match &mut src {
            Source::Random { rng, left, g, small } => {
                if *left == 0 {
                    None
                } else {
                    *left -= 1;
                    Some(next_op(rng, &w, g, *small))
                }
            }
            Source::Replay { ops, pos } => {
                let o = ops.get(*pos).cloned();
                *pos += 1;
                o
            }
        };
        let Some(op) = op else { break };
        executed.push(op.clone());
        if let Err(f) = w.apply(&op) {
            failure = Some(f);
            break;
        }
    }
    if failure.is_none()
        && let Err(f) = w.finish()
    {
        failure = Some(f);
    }
    let now = verif::counters();
    for (i, name) in verif::COUNTER_NAMES.iter().enumerate() {
        let tag = match *name {
            "pool_return" => "hook.pool_return",
            "pool_alloc_virgin" => "hook.pool_alloc_virgin",
            "pool_alloc_reuse" => "hook.pool_alloc_reuse",
            "pool_fallback" => "hook.pool_fallback",
            _ => continue,
        };
        let d = now[i].wrapping_sub(c0[i]);
        if d > 0 {
            *w.stats.entry(tag).or_insert(0) += d;
        }
    }
    let stats = std::mem::take(&mut w.stats);
    let flags = w.flags;
    (executed, failure, stats, flags)
}

fn replay_json(mode: &Mode, seed: u64, idx: u64, ops: &[Op]) -> J {
    json!({"engine": "pool", "seed": seed, "idx": idx, "mode": mode.to_json(), "ops": ops.iter().map(Op::to_json).collect::<Vec<_>>()})
}

fn case_setup(seed: u64, idx: u64, small: bool) -> (Mode, Rng, usize, GenState) {
    let mut rng = Rng::new(util::case_seed(seed, "pool", idx));
    let mode = if small { Mode::Small(vec![(8 * (1 + rng.below(8) as u32), 2 + rng.below(10) as u32)]) } else { gen_mode(&mut rng) };
    let nops = if small { 80 + rng.usize(60) } else { 200 + rng.usize(1801) };
    let target_class = if matches!(mode, Mode::Set) && rng.chance(6, 10) { Some(if rng.chance(8, 10) { 16 + rng.usize(4) } else { 8 + rng.usize(8) }) } else { None };
    (mode, rng, nops, GenState { target_class, phase: 0 })
}

pub fn run(ctx: &mut Ctx) {
    if let Some(path) = ctx.opt("replay-file").map(str::to_string) {
        replay_file(ctx, &path);
        return;
    }
    let small = ctx.opt_u64("small", 0) != 0;
    for idx in ctx.indices() {
        ctx.out.begin(idx);
        ctx.out.evaluations += 1;
        let (mode, rng, nops, g) = case_setup(ctx.seed, idx, small);
        let res = util::guarded(|| run_history(&mode, Source::Random { rng, left: nops, g, small }));
        match res {
            Err((msg, loc)) => {
                let sig = format!("pool|panic|{}|{}", util::normalise_msg(&msg), util::panic_site(&loc));
                ctx.out.fail(idx, &sig, json!({"panic": msg, "at": loc}), json!({"engine": "pool", "seed": ctx.seed, "idx": idx, "mode": mode.to_json(), "regenerate": true, "small": small}));
            }
            Ok((ops, failure, stats, flags)) => {
                for (k, v) in &stats {
                    ctx.out.tag_n(k, *v);
                }
                ctx.out.tag_n("ops.total", ops.len() as u64);
                ctx.out.tag(if matches!(mode, Mode::Set) { "workload.pool_set_20_classes" } else { "workload.small_pools" });
                if let Some(f) = failure {
                    ctx.out.fail(idx, &f.sig, f.detail, replay_json(&mode, ctx.seed, idx, &ops));
                    continue;
                }
                if flags.exhausted {
                    ctx.out.tag("history.exhausts_a_class");
                }
                if flags.refilled {
                    ctx.out.tag("history.refills_after_exhaustion");
                }
                if flags.non_lifo {
                    ctx.out.tag("history.non_lifo_release");
                }
                if flags.exhausted && flags.refilled && flags.non_lifo {
                    let text = serde_json::to_string(&replay_json(&mode, 0, 0, &ops)).unwrap_or_default();
                    ctx.out.nontrivial(util::hash64(text.as_bytes()));
                    ctx.out.sample(json!({
                        "idx": idx,
                        "workload": mode.to_json(),
                        "operations": ops.len(),
                        "first_operations": ops.iter().take(12).map(Op::to_json).collect::<Vec<_>>(),
                    }));
                }
            }
        }
    }
}

fn replay_file(ctx: &mut Ctx, path: &str) {
    let text = std::fs::read_to_string(path).expect("replay file");
    let mut j: J = serde_json::from_str(&text).expect("replay json");
    if j.get("replay").is_some() {
        j = j["replay"].clone();
    }
    let idx = j["idx"].as_u64().unwrap_or(0);
    ctx.out.begin(idx);
    ctx.out.evaluations += 1;
    let res = if j["regenerate"].as_bool().unwrap_or(false) || j.get("ops").is_none() {
        let small = j["small"].as_bool().unwrap_or(false);
        let (mode, rng, nops, g) = case_setup(j["seed"].as_u64().unwrap_or(ctx.seed), idx, small);
        util::guarded(|| run_history(&mode, Source::Random { rng, left: nops, g, small }))
    } else {
        let mode = Mode::from_json(&j["mode"]).expect("mode");
        let ops: Vec<Op> = j["ops"].as_array().map(|a| a.iter().filter_map(Op::from_json).collect()).unwrap_or_default();
        util::guarded(|| run_history(&mode, Source::Replay { ops: &ops, pos: 0 }))
    };
    match res {
        Err((msg, loc)) => {
            eprintln!("REPLAY pool: panic `{msg}` at {loc}");
            ctx.out.fail(idx, &format!("pool|panic|{}|{}", util::normalise_msg(&msg), util::panic_site(&loc)), json!({"panic": msg, "at": loc}), j.clone());
        }
        Ok((ops, None, _, _)) => eprintln!("REPLAY pool: {} operations, no violation", ops.len()),
        Ok((ops, Some(f), _, _)) => {
            eprintln!("REPLAY pool: VIOLATION after {} operations: {} {}", ops.len(), f.sig, f.detail);
            ctx.out.fail(idx, &f.sig, f.detail, j.clone());
        }
    }
    if ctx.out.failures > 0 {
        ctx.out.finish();
        std::process::exit(1);
    }
}
