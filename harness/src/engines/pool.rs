//! Engine `pool` (stub).
use crate::Ctx;

pub fn run(ctx: &mut Ctx) {
    let _ = ctx;
    eprintln!("engine pool not implemented");
    std::process::exit(2);
}
