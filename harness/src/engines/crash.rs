//! C06: an accepted program never crashes the interpreter.
//!
//! Stage `product`: the exhaustive product route × position × run-time type (regenerated on
//! every run from the templates below). Stage `random`: generated programs with 1–3
//! sub-expressions replaced by a value of another run-time type routed through a dynamically
//! typed position (`[v][0]`), which the checker cannot see through.

use serde_json::json;

use crate::Ctx;
use crate::model::ast::*;
use crate::model::genp::{self, Profile};
use crate::model::{interp, print};
use crate::pipeline::{self, RunCfg};
use crate::util::{self, Rng};

const TYPES: [(&str, &str); 7] = [
    ("number", "5"),
    ("string", "\"s\""),
    ("boolean", "true"),
    ("null", "null"),
    ("array", "[1]"),
    ("process_command", "command(\"/bin/true\")"),
    ("process_result", "command(\"/bin/true\").run()"),
];

/// literal of the static type a position expects (used to declare a variable that is later
/// reassigned to another type)
const DECL_LITS: [&str; 5] = ["1", "\"d\"", "false", "[0]", "null"];

struct Case {
    src: String,
    class: String,
    needs_process: bool,
}

/// A route turns a value literal into (prelude statements, expression text that yields the value,
/// optional wrapper: the use site must be placed inside a function body).
struct Routed {
    prelude: String,
    expr: String,
    /// Some((header, footer)): the use statement goes between header and footer
    wrap: Option<(String, String)>,
    /// the expression is an assignable variable
    lvalue: bool,
}

fn routes(lit: &str, decl: &str) -> Vec<(&'static str, Routed)> {
    let mut out = Vec::new();
    out.push((
        "param",
        Routed {
            prelude: String::new(),
            expr: "p".into(),
            wrap: Some(("do f(p) start\n".into(), format!("end\nf({lit})\n"))),
            lvalue: true,
        },
    ));
    out.push(("element", Routed { prelude: format!("make a get [{lit}]\n"), expr: "a[0]".into(), wrap: None, lvalue: false }));
    out.push(("pop", Routed { prelude: format!("make a get [{lit}]\n"), expr: "a.pop()".into(), wrap: None, lvalue: false }));
    out.push((
        "mixed-return",
        Routed {
            prelude: format!("do g(c) start\nif to say (c) start\nreturn {decl}\nend\nreturn {lit}\nend\n"),
            expr: "g(false)".into(),
            wrap: None,
            lvalue: false,
        },
    ));
    out.push(("reassigned", Routed { prelude: format!("make x get {decl}\nx get {lit}\n"), expr: "x".into(), wrap: None, lvalue: true }));
    out.push(("uninit-then-assigned", Routed { prelude: format!("make x\nx get {lit}\n"), expr: "x".into(), wrap: None, lvalue: true }));
    out.push(("index-of-literal", Routed { prelude: String::new(), expr: format!("[{lit}][0]"), wrap: None, lvalue: false }));
    out.push(("literal", Routed { prelude: String::new(), expr: lit.to_string(), wrap: None, lvalue: false }));
    out
}

const BIN_WORDS: [&str; 10] = ["add", "minus", "times", "divide", "mod", "na", "pass", "small pass", "and", "or"];
const OTHER: [&str; 5] = ["5", "\"s\"", "true", "null", "[1]"];

const METHODS: [(&str, usize); 33] = [
    ("len", 0), ("slice", 2), ("to_uppercase", 0), ("to_lowercase", 0), ("find", 1), ("replace", 2), ("trim", 0), ("to_number", 0), ("split", 1),
    ("push", 1), ("pop", 0), ("reverse", 0), ("join", 1),
    ("abs", 0), ("sqrt", 0), ("floor", 0), ("ceil", 0), ("round", 0),
    ("arg", 1), ("cwd", 1), ("env", 2), ("stdin_text", 1), ("stdin_inherit", 0), ("stdin_null", 0), ("stdout_capture", 0), ("stdout_inherit", 0),
    ("stdout_null", 0), ("stderr_capture", 0), ("stderr_null", 0), ("timeout_ms", 1), ("run", 0),
    ("success", 0), ("stdout", 0),
];

/// (class name, statement text with `V` standing for the routed expression, needs lvalue)
fn positions() -> Vec<(String, String, bool)> {
    let mut p: Vec<(String, String, bool)> = Vec::new();
    for op in BIN_WORDS {
        for w in OTHER {
            p.push((format!("binop.{op}.lhs|other={w}"), format!("shout(V {op} {w})"), false));
            p.push((format!("binop.{op}.rhs|other={w}"), format!("shout({w} {op} V)"), false));
        }
        p.push((format!("binop.{op}.both"), format!("shout(V {op} V)"), false));
    }
    p.push(("unary.not".into(), "shout(not V)".into(), false));
    p.push(("unary.minus".into(), "shout(minus V)".into(), false));
    p.push(("cond.if".into(), "if to say (V) start\nshout(1)\nend".into(), false));
    p.push(("cond.loop".into(), "jasi (V) start\ncomot\nend".into(), false));
    p.push(("index.base".into(), "shout(V[0])".into(), false));
    p.push(("index.value".into(), "shout([1, 2][V])".into(), false));
    p.push(("index.nested-base".into(), "shout(V[0][0])".into(), false));
    p.push(("assign-index.base".into(), "V[0] get 1".into(), true));
    p.push(("assign-index.value".into(), "make q get [1, 2]\nq[V] get 1".into(), false));
    p.push(("assign-index.nested-value".into(), "make q get [[1], [2]]\nq[0][V] get 1".into(), false));
    p.push(("assign-index.through-non-array".into(), "make q get [V]\nq[0][0] get 1".into(), false));
    for (m, arity) in METHODS {
        for given in [arity, arity.saturating_sub(1), arity + 1] {
            if given == arity && false {
                continue;
            }
            let args: Vec<&str> = (0..given)
                .map(|i| match (m, i) {
                    ("slice", _) | ("timeout_ms", _) => "1",
                    ("push", _) => "1",
                    _ => "\"x\"",
                })
                .collect();
            let label = if given == arity { "ok" } else if given < arity { "few" } else { "many" };
            if given == arity.saturating_sub(1) && arity == 0 {
                continue;
            }
            p.push((format!("method.{m}.arity-{label}"), format!("shout(V.{m}({}))", args.join(", ")), false));
        }
    }
    for (name, text) in [
        ("arg.slice.0", "shout(\"abc\".slice(V, 1))"),
        ("arg.slice.1", "shout(\"abc\".slice(0, V))"),
        ("arg.find", "shout(\"abc\".find(V))"),
        ("arg.replace.0", "shout(\"abc\".replace(V, \"x\"))"),
        ("arg.replace.1", "shout(\"abc\".replace(\"a\", V))"),
        ("arg.split", "shout(\"abc\".split(V))"),
        ("arg.join", "shout([1, 2].join(V))"),
        ("arg.push", "make q get [1]\nq.push(V)\nshout(q)"),
        ("global.shout", "shout(V)"),
        ("global.typeof", "shout(typeof(V))"),
        ("global.to_string", "shout(to_string(V))"),
        ("global.command", "shout(command(V))"),
        ("global.read_line", "shout(read_line(V))"),
        ("proc.arg", "make c get command(\"/bin/true\")\nc.arg(V)\nshout(c)"),
        ("proc.cwd", "make c get command(\"/bin/true\")\nc.cwd(V)\nshout(c)"),
        ("proc.env.key", "make c get command(\"/bin/true\")\nc.env(V, \"x\")\nshout(c)"),
        ("proc.env.value", "make c get command(\"/bin/true\")\nc.env(\"K\", V)\nshout(c)"),
        ("proc.stdin_text", "make c get command(\"/bin/true\")\nc.stdin_text(V)\nshout(c)"),
        ("proc.timeout_ms", "make c get command(\"/bin/true\")\nc.timeout_ms(V)\nshout(c)"),
        ("array-literal.join", "shout([V].join(\",\"))"),
        ("array-literal.print", "shout([V, [V]])"),
        ("call.user-arg", "do h(k) start\nreturn k add 1\nend\nshout(h(V))"),
        ("store.then-copy", "make w get V\nmake w2 get w\nshout(w2)"),
        ("compare.self", "shout(V na V)"),
        ("member.without-call", "shout(V.len)"),
        ("member.unknown-without-call", "shout(V.nosuch)"),
        ("call.of-value", "shout(V(1))"),
        ("call.of-call-result", "do mk() start\nreturn V\nend\nshout(mk()())"),
        ("call.of-element", "make q get [V]\nshout(q[0](1))"),
        ("assign-index.into-call-result", "do mk() start\nreturn [V]\nend\nmk()[0] get 1"),
        ("method.on-call-result.push", "do mk() start\nreturn [V]\nend\nshout(mk().push(1))"),
        ("method.on-literal.pop", "shout([V].pop())"),
        ("method.chain", "shout(V.trim().len().abs())"),
        ("return.value", "do rt() start\nreturn V\nend\nshout(rt() add 1)"),
    ] {
        p.push((name.to_string(), text.to_string(), false));
    }
    p
}

fn build_cases() -> Vec<Case> {
    let mut cases = Vec::new();
    let positions = positions();
    for (tname, lit) in TYPES {
        for decl in DECL_LITS {
            for (rname, r) in routes(lit, decl) {
                // the declared literal only matters for two routes
                if !matches!(rname, "reassigned" | "mixed-return") && decl != DECL_LITS[0] {
                    continue;
                }
                for (pname, ptext, needs_lvalue) in &positions {
                    if *needs_lvalue && !r.lvalue {
                        continue;
                    }
                    let use_stmt = ptext.replace('V', &r.expr);
                    let body = format!("shout(\"before\")\n{use_stmt}\nshout(\"after\")\n");
                    let src = match &r.wrap {
                        Some((h, f)) => format!("{}{h}{body}{f}", r.prelude),
                        None => format!("{}{body}", r.prelude),
                    };
                    let class = format!("{pname}|type={tname}|route={rname}{}", if matches!(rname, "reassigned" | "mixed-return") { format!("|declared={decl}") } else { String::new() });
                    cases.push(Case { src, class, needs_process: tname == "process_result" || pname.contains(".run.") });
                }
                // interpolation needs a plain variable name
                if r.lvalue {
                    let body = format!("shout(\"before\")\nshout(\"<{{{}}}>\")\nshout(\"after\")\n", r.expr);
                    let src = match &r.wrap {
                        Some((h, f)) => format!("{}{h}{body}{f}", r.prelude),
                        None => format!("{}{body}", r.prelude),
                    };
                    cases.push(Case { src, class: format!("interpolation|type={tname}|route={rname}"), needs_process: tname == "process_result" });
                }
            }
        }
    }
    // routes that are not about types
    for (name, use_stmt) in [
        ("read", "return v"),
        ("placeholder", "return \"{v}\""),
        ("assign", "v get 2\nreturn 0"),
        ("assign-index", "v[0] get 2\nreturn 0"),
        ("push", "v.push(2)\nreturn 0"),
    ] {
        let init = if name == "assign-index" || name == "push" { "[1]" } else { "1" };
        cases.push(Case {
            src: format!("shout(\"before\")\nshout(g())\nmake v get {init}\ndo g() start\n{use_stmt}\nend\nshout(\"after\")\n"),
            class: format!("forward-call-before-capture-declared|{name}"),
            needs_process: false,
        });
    }
    for kw in ["comot", "next"] {
        cases.push(Case {
            src: format!("make i get 0\njasi (i small pass 2) start\ni get i add 1\ndo f() start\n{kw}\nend\nshout(\"before\")\nf()\nshout(\"after\")\nend\n"),
            class: format!("loop-control-in-function-defined-in-loop|{kw}"),
            needs_process: false,
        });
    }
    // functions that fall off the end although the checker inferred a type from their returns
    for (tname, lit) in TYPES.iter().take(5) {
        for (pname, ptext, needs_lvalue) in &positions {
            if *needs_lvalue {
                continue;
            }
            let use_stmt = ptext.replace('V', "h2(false)");
            cases.push(Case {
                src: format!("do h2(c) start\nif to say (c) start\nreturn {lit}\nend\nend\nshout(\"before\")\n{use_stmt}\nshout(\"after\")\n"),
                class: format!("{pname}|type=null|route=fall-off-end|declared-return={tname}"),
                needs_process: false,
            });
        }
    }
    cases
}

fn run_case(ctx: &mut Ctx, idx: u64, src: &str, class: &str, needs_process: bool, replay: serde_json::Value) {
    let cfg = RunCfg { allow_process: needs_process || src.contains(".run()"), ..RunCfg::default() };
    match util::guarded(|| pipeline::run_source(src, cfg)) {
        Ok(real) => {
            if !real.accepted {
                ctx.out.tag("rejected_by_checker");
                return;
            }
            ctx.out.tag("accepted");
            ctx.out.tag(&format!("ending.{}", real.ending));
            let reached = real.output.iter().any(|l| l == "before");
            if reached || !src.contains("\"before\"") {
                ctx.out.nontrivial(util::hash64(src.as_bytes()));
                ctx.out.sample(json!({"class": class, "src": src, "ending": real.ending}));
            }
        }
        Err((msg, loc)) => {
            if msg.contains("arena capacity exceeded") {
                // A mutated program is not checked for termination or growth: one that recurses
                // while doubling a string fills the 256 MiB arena. Running out of memory is a
                // resource outcome, not the interpreter tripping over a value of the wrong type.
                ctx.out.inconclusive(idx, "arena exhausted by the program (resource outcome)", json!({"class": class, "at": loc}));
                return;
            }
            let sig = format!("panic|{}|{}", util::normalise_msg(&msg), util::panic_site(&loc));
            ctx.out.fail(idx, &sig, json!({"class": class, "panic": msg, "at": loc, "src": src}), replay);
        }
    }
}

/// `[lit][0]`: a value of any type behind a dynamically typed expression
fn dynamic_of(rng: &mut Rng) -> Expr {
    let lit = match rng.below(5) {
        0 => num(rng.range(0, 9)),
        1 => plain("q"),
        2 => Expr::Bool(rng.chance(1, 2)),
        3 => Expr::Null,
        _ => Expr::Arr(vec![num(1)]),
    };
    Expr::Index(Box::new(Expr::Arr(vec![lit])), Box::new(num(0)))
}

fn count_exprs_block(b: &Block) -> usize {
    b.stmts.iter().map(count_exprs_stmt).sum()
}

fn count_exprs_stmt(s: &Stmt) -> usize {
    match s {
        Stmt::Make { init, .. } => init.as_ref().map_or(0, count_exprs),
        Stmt::Assign { value, .. } => count_exprs(value),
        Stmt::AssignIndex { value, .. } => count_exprs(value),
        Stmt::If { cond, then_b, else_b } => count_exprs(cond) + count_exprs_block(then_b) + else_b.as_ref().map_or(0, count_exprs_block),
        Stmt::Loop { body, .. } => count_exprs_block(body),
        Stmt::Block(b) => count_exprs_block(b),
        Stmt::FuncDef(f) => count_exprs_block(&f.body),
        Stmt::Return(e) => e.as_ref().map_or(0, count_exprs),
        Stmt::Expr(e) => count_exprs(e),
        Stmt::Break | Stmt::Continue | Stmt::Raw(_) => 0,
    }
}

fn count_exprs(e: &Expr) -> usize {
    1 + match e {
        Expr::Bin(_, l, r) => count_exprs(l) + count_exprs(r),
        Expr::Un(_, x) => count_exprs(x),
        Expr::Arr(items) => items.iter().map(count_exprs).sum(),
        Expr::Index(b, i) => count_exprs(b) + count_exprs(i),
        Expr::Call { args, .. } => args.iter().map(count_exprs).sum(),
        Expr::Method { recv, args, .. } => count_exprs(recv) + args.iter().map(count_exprs).sum::<usize>(),
        _ => 0,
    }
}

/// Replaces the k-th expression node (pre-order) by `with`; statement-initial nodes are skipped
/// by construction because only value positions are visited.
fn replace_in_block(b: &mut Block, k: &mut isize, with: &Expr) {
    for s in &mut b.stmts {
        if *k < 0 {
            return;
        }
        match s {
            Stmt::Make { init: Some(e), .. } => replace_in_expr(e, k, with),
            // loop counters keep counting: termination
            Stmt::Assign { name, .. } if name.starts_with('i') => {}
            Stmt::Assign { value, .. } | Stmt::AssignIndex { value, .. } => replace_in_expr(value, k, with),
            Stmt::If { cond, then_b, else_b } => {
                replace_in_expr(cond, k, with);
                replace_in_block(then_b, k, with);
                if let Some(eb) = else_b {
                    replace_in_block(eb, k, with);
                }
            }
            // loop conditions stay intact: termination
            Stmt::Loop { body, .. } => replace_in_block(body, k, with),
            Stmt::Block(b) => replace_in_block(b, k, with),
            Stmt::FuncDef(f) => replace_in_block(&mut f.body, k, with),
            Stmt::Return(Some(e)) => replace_in_expr(e, k, with),
            Stmt::Expr(Expr::Call { args, .. }) => {
                for a in args {
                    replace_in_expr(a, k, with);
                }
            }
            Stmt::Expr(Expr::Method { args, .. }) => {
                for a in args {
                    replace_in_expr(a, k, with);
                }
            }
            _ => {}
        }
    }
}

fn replace_in_expr(e: &mut Expr, k: &mut isize, with: &Expr) {
    if *k < 0 {
        return;
    }
    if *k == 0 {
        *e = with.clone();
        *k = -1;
        return;
    }
    *k -= 1;
    match e {
        Expr::Bin(_, l, r) => {
            replace_in_expr(l, k, with);
            replace_in_expr(r, k, with);
        }
        Expr::Un(_, x) => replace_in_expr(x, k, with),
        Expr::Arr(items) => {
            for i in items {
                replace_in_expr(i, k, with);
            }
        }
        Expr::Index(b, i) => {
            replace_in_expr(b, k, with);
            replace_in_expr(i, k, with);
        }
        Expr::Call { args, .. } => {
            for a in args {
                replace_in_expr(a, k, with);
            }
        }
        Expr::Method { recv, args, .. } => {
            replace_in_expr(recv, k, with);
            for a in args {
                replace_in_expr(a, k, with);
            }
        }
        _ => {}
    }
}

/// Stage pressure: one program per string-pool size class that keeps more strings of that class
/// alive than the class has slots (so that the class runs dry and allocation falls back to the
/// arena), releases them all, and fills the class again. The interpreter must neither crash nor
/// show anything but the strings the program built.
fn pressure_program(size: u32, slots: u32, pattern: u32) -> (String, Vec<String>) {
    let n = slots as usize + 100;
    // every string is `<pad><6-digit number>`: exactly `size` bytes
    let pad = "p".repeat(size as usize - 6);
    let item = |k: usize| format!("{pad}{}", 100_000 + k);
    let mut s = String::new();
    let mut out = Vec::new();
    s.push_str(&format!("make pad get \"{pad}\"\nmake keep get pad add 999999\nmake a get []\nmake i get 0\njasi (i small pass {n}) start\n    a.push(pad add (100000 add i))\n    i get i add 1\nend\n"));
    s.push_str(&format!("shout(a.len())\nshout(a[0])\nshout(a[{}])\nshout(a[{}])\n", slots as usize - 1, n - 1));
    out.extend([n.to_string(), item(0), item(slots as usize - 1), item(n - 1)]);
    match pattern {
        0 => {
            // release everything front to back, fill again
            s.push_str(&format!("i get 0\njasi (i small pass {n}) start\n    a[i] get 0\n    i get i add 1\nend\n"));
            s.push_str(&format!("i get 0\njasi (i small pass {n}) start\n    a[i] get pad add (200000 add i)\n    i get i add 1\nend\n"));
            s.push_str(&format!("shout(a[0])\nshout(a[{}])\n", n - 1));
            out.extend([format!("{pad}{}", 200_000), format!("{pad}{}", 200_000 + n - 1)]);
        }
        1 => {
            // release by popping (back to front), then push again
            s.push_str(&format!("i get 0\njasi (i small pass {n}) start\n    make d get a.pop()\n    i get i add 1\nend\nshout(a.len())\n"));
            s.push_str(&format!("i get 0\njasi (i small pass {n}) start\n    a.push(pad add (300000 add i))\n    i get i add 1\nend\n"));
            s.push_str(&format!("shout(a[0])\nshout(a[{}])\n", n - 1));
            out.extend(["0".to_string(), format!("{pad}{}", 300_000), format!("{pad}{}", 300_000 + n - 1)]);
        }
        _ => {
            // churn one variable through more values than the class has slots, in a function
            s.push_str(&format!("do churn(k) start\n    make v get pad add 400000\n    make j get 0\n    jasi (j small pass k) start\n        v get pad add (400000 add j)\n        j get j add 1\n    end\n    return v\nend\nshout(churn({}))\n", n + 50));
            out.push(format!("{pad}{}", 400_000 + n + 49));
        }
    }
    s.push_str("shout(keep)\nshout(a.len())\n");
    out.push(format!("{pad}999999"));
    out.push(if pattern == 1 { n.to_string() } else { n.to_string() });
    (s, out)
}

fn run_pressure(ctx: &mut Ctx) {
    let sizes = naijascript::arena::pool_verif::slot_sizes();
    let counts = naijascript::arena::pool_verif::slot_counts();
    // per class: the largest size of the class, and the smallest one (previous size + 1)
    let mut cases: Vec<(u32, u32, u32)> = Vec::new();
    for (c, (&size, &slots)) in sizes.iter().zip(counts.iter()).enumerate() {
        let lo = if c == 0 { 6 } else { sizes[c - 1] + 1 };
        for sz in [size, lo.max(6)] {
            if sz < 6 {
                continue;
            }
            for pattern in 0..3 {
                cases.push((sz, slots, pattern));
            }
        }
    }
    // one size above the largest class: never pooled
    let top = *sizes.last().unwrap();
    for pattern in 0..3 {
        cases.push((top + 1, 600, pattern));
    }
    ctx.out.extra.insert("pressure_size".into(), json!(cases.len()));
    let idxs: Vec<u64> = ctx.indices().filter(|i| (*i as usize) < cases.len()).collect();
    for idx in idxs {
        ctx.out.begin(idx);
        ctx.out.evaluations += 1;
        let (size, slots, pattern) = cases[idx as usize];
        let (src, expected) = pressure_program(size, slots, pattern);
        let replay = json!({"stage": "pressure", "string_bytes": size, "class_slots": slots, "pattern": pattern, "src_head": src.chars().take(600).collect::<String>()});
        match util::guarded(|| pipeline::run_source(&src, RunCfg::default())) {
            Ok(real) => {
                if !real.accepted {
                    ctx.out.inconclusive(idx, "pressure program rejected by the front end", json!({"sem": format!("{:?}", real.sem.first())}));
                    continue;
                }
                if real.ending != "ok" || real.output != expected {
                    let k = real.output.iter().zip(expected.iter()).position(|(a, b)| a != b).unwrap_or(real.output.len().min(expected.len()));
                    ctx.out.fail(
                        idx,
                        &format!("pressure|wrong-result|pattern{pattern}"),
                        json!({"string_bytes": size, "class_slots": slots, "ending": real.ending, "first_difference_at": k,
                               "got": real.output.get(k).map(|s| s.chars().take(80).collect::<String>()), "expected": expected.get(k).map(|s| s.chars().take(80).collect::<String>())}),
                        replay,
                    );
                    continue;
                }
                ctx.out.tag(&format!("pressure.pattern{pattern}"));
                ctx.out.tag_n("pressure.pool_fallback", pipeline::counter(&real, "pool_fallback"));
                ctx.out.nontrivial(util::hash64(format!("pressure|{size}|{pattern}").as_bytes()));
            }
            Err((msg, loc)) => {
                let sig = format!("panic|{}|{}", util::normalise_msg(&msg), util::panic_site(&loc));
                ctx.out.fail(idx, &sig, json!({"class": "pool-pressure", "string_bytes": size, "class_slots": slots, "pattern": pattern, "panic": msg, "at": loc}), replay);
            }
        }
    }
}

pub fn run(ctx: &mut Ctx) {
    let stage = ctx.opt("stage").unwrap_or("product").to_string();
    if stage == "pressure" {
        run_pressure(ctx);
        return;
    }
    if stage == "product" {
        let cases = build_cases();
        ctx.out.extra.insert("product_size".into(), json!(cases.len()));
        let indices: Vec<u64> = ctx.indices().filter(|i| (*i as usize) < cases.len()).collect();
        for idx in indices {
            ctx.out.begin(idx);
            ctx.out.evaluations += 1;
            let c = &cases[idx as usize];
            if ctx.opt("print").is_some() {
                eprintln!("--- case {idx}: {}\n{}", c.class, c.src);
            }
            let replay = json!({"src": c.src, "class": c.class, "stage": "product"});
            run_case(ctx, idx, &c.src, &c.class, c.needs_process, replay);
        }
        return;
    }
    // random type confusion on generated programs
    for idx in ctx.indices() {
        ctx.out.begin(idx);
        ctx.out.evaluations += 1;
        let mut rng = Rng::new(util::case_seed(ctx.seed, "confuse", idx));
        let profile = *rng.pick(&[Profile::Core, Profile::Core, Profile::Scope, Profile::Array, Profile::Mem]);
        let (mut prog, _) = genp::generate(&mut rng, profile);
        let total = count_exprs_block(&prog.body);
        if total == 0 {
            ctx.out.discarded += 1;
            continue;
        }
        let muts = rng.range(1, 3);
        for _ in 0..muts {
            let mut k = rng.usize(total) as isize;
            let with = dynamic_of(&mut rng);
            replace_in_block(&mut prog.body, &mut k, &with);
        }
        let _ = interp::resolve(&mut prog);
        // the model is only a termination filter (a stuck model run says nothing here)
        let model = interp::run(&prog, 200_000);
        if matches!(model.ending, interp::Ending::Fuel) {
            ctx.out.discarded += 1;
            continue;
        }
        let src = print::to_source(&prog);
        let replay = json!({"src": src, "stage": "random"});
        run_case(ctx, idx, &src, "random-type-confusion", false, replay);
    }
}
