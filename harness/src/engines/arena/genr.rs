//! State-dependent operation generator. Every choice comes from the case RNG; the generator
//! looks at the shadow model only (never at the real arena), so a history is a pure function
//! of (seed, case index).

use super::model::{Block, CHUNK, Kind, Model, Op, Target, round_up};
use super::world::{MAX_DEPTH, World};
use crate::util::Rng;

fn pick_align(rng: &mut Rng) -> usize {
    if rng.chance(6, 10) { 1 << rng.usize(5) } else { 1 << rng.usize(13) }
}

fn pick_size(rng: &mut Rng, m: &Model, small: bool) -> usize {
    const EDGE: [usize; 11] = [0, 1, 7, 8, 9, 4095, 4096, 4097, 65535, 65536, 65537];
    let room = m.cap - m.offset;
    let to_commit = m.commit.saturating_sub(m.offset);
    match rng.below(100) {
        0..=44 => rng.usize(257),
        45..=62 => *rng.pick(&EDGE),
        63..=73 => 257 + rng.usize(if small { 4000 } else { 20000 }),
        74..=82 => {
            // around the commit mark
            let d = [0usize, 1, 2, 8, 64][rng.usize(5)];
            if rng.chance(1, 2) { to_commit + d } else { to_commit.saturating_sub(d) }
        }
        83..=90 => {
            // around the capacity
            let k = [0usize, 1, 7, 8, 16, 4096][rng.usize(6)];
            match rng.below(6) {
                0 => room.saturating_sub(k),
                1 => room,
                2 => room + 1,
                3 => m.cap.saturating_sub(k),
                4 => m.cap,
                _ => m.cap + 1,
            }
        }
        91..=94 => {
            let j = 1 + rng.usize(4);
            (j * CHUNK + rng.usize(3)).saturating_sub(1)
        }
        _ => match rng.below(4) {
            0 => isize::MAX as usize / 2,
            1 => 1usize << (20 + rng.usize(42)),
            2 => (isize::MAX as usize) - 4096,
            _ => rng.below(isize::MAX as u64 / 2) as usize,
        },
    }
}

fn pick_delta(rng: &mut Rng, m: &Model) -> usize {
    let to_commit = m.commit.saturating_sub(m.offset);
    match rng.below(100) {
        0..=9 => 0,
        10..=49 => 1 + rng.usize(64),
        50..=69 => 65 + rng.usize(4000),
        70..=79 => *rng.pick(&[4095usize, 4096, 4097, 65535, 65536, 65537]),
        80..=91 => to_commit + rng.usize(3),
        92..=96 => (m.cap - m.offset) + rng.usize(2),
        _ => 1usize << (20 + rng.usize(40)),
    }
}

fn raw_blocks<'a>(w: &'a World, tail: Option<bool>) -> Vec<(usize, &'a Block)> {
    let mut v = Vec::new();
    for (mi, m) in w.models.iter().enumerate() {
        for b in &m.blocks {
            if b.kind == Kind::Raw && w.usable(b.level) && tail.is_none_or(|t| m.is_tail(b) == t) {
                v.push((mi, b));
            }
        }
    }
    v
}

fn pick_target(rng: &mut Rng, w: &World) -> Target {
    let ts = w.usable_targets();
    if ts.len() > 1 && rng.chance(35, 100) { ts[1 + rng.usize(ts.len() - 1)] } else { -1 }
}

fn live_objs(w: &World, want_str: bool) -> Vec<usize> {
    (0..w.objs.len()).filter(|&o| w.objs[o].alive() && w.objs[o].is_str() == want_str && w.usable(w.objs[o].t)).collect()
}

fn char_boundary_at_or_before(s: &str, mut i: usize) -> usize {
    i = i.min(s.len());
    while !s.is_char_boundary(i) {
        i -= 1;
    }
    i
}

pub fn next_op(rng: &mut Rng, w: &World, small: bool) -> Op {
    let m0 = &w.models[0];
    let fill_pct = m0.offset * 100 / m0.cap;
    let commit_slack = m0.commit > round_up(m0.offset, CHUNK);
    let want_nontail = w.mflags[0].reset_seen && !w.flags.nontail_grow_after_reset;
    let want_recommit = w.mflags[0].decommitted && !w.flags.recommit_after_decommit;
    let want_decommit = !w.mflags[0].decommitted;
    let nraw0 = m0.blocks.iter().filter(|b| b.kind == Kind::Raw).count();

    // 0 alloc, 1 alloc_zeroed, 2 grow tail, 3 grow non-tail, 4 shrink, 5 uninit, 6 uninit_slice,
    // 7 str new/from, 8 str push, 9 str repeat, 10 str replace, 11 format, 12 vec new,
    // 13 vec extend, 14 shrink_to_fit, 15 mark, 16 reset, 17 decommit, 18 inject, 19 push, 20 pop
    let mut wts: [u32; 21] = [24, 6, 7, 9, 4, 3, 4, 3, 6, 3, 3, 2, 1, 3, 2, 5, 4, 3, 3, 3, 3];
    if fill_pct > 50 {
        wts[16] += 8;
    }
    if fill_pct > 85 {
        wts[16] += 30;
    }
    if want_decommit && m0.commit >= 2 * CHUNK && w.opno > 10 {
        // a reset far down makes the following decommit effective
        wts[16] += 6;
    }
    if commit_slack {
        wts[17] += if want_decommit { 40 } else { 8 };
    }
    if want_nontail && nraw0 >= 2 {
        wts[3] += 30;
    } else if want_nontail {
        wts[0] += 20;
    }
    if w.levels.is_empty() {
        wts[20] = 0;
    }
    if w.levels.len() >= MAX_DEPTH {
        wts[19] = 0;
        wts[20] += 4;
    }

    for _ in 0..12 {
        let kind = rng.weighted(&wts);
        let op = match kind {
            0 | 1 => {
                let t = pick_target(rng, w);
                let m = &w.models[w.model_of(t)];
                let mut size = pick_size(rng, m, small);
                if want_recommit && t == -1 && rng.chance(1, 2) {
                    // cross the (lowered) commit mark again
                    size = m.commit.saturating_sub(m.offset) + 1 + rng.usize(300);
                }
                Some(Op::Alloc { t, size, align: pick_align(rng), zeroed: kind == 1 })
            }
            2 | 3 => {
                let c = raw_blocks(w, Some(kind == 2));
                // prefer the owned arena while the non-trivial rule still needs a non-tail grow there
                let c: Vec<_> = if kind == 3 && want_nontail && c.iter().any(|(mi, _)| *mi == 0) { c.into_iter().filter(|(mi, _)| *mi == 0).collect() } else { c };
                if c.is_empty() {
                    None
                } else {
                    let (mi, b) = c[rng.usize(c.len())];
                    let m = &w.models[mi];
                    let mut delta = pick_delta(rng, m);
                    if kind == 3 && rng.chance(7, 10) {
                        // keep most moved blocks small enough to succeed
                        delta = delta.min(2048);
                    }
                    let new_align = if rng.chance(1, 4) { 1 << rng.usize(b.align.trailing_zeros() as usize + 1) } else { b.align };
                    b.len.checked_add(delta).map(|new_size| Op::Grow { id: b.id, new_size, new_align, zeroed: rng.chance(1, 4) })
                }
            }
            4 => {
                // Builds without debug assertions accept a shrink of a block that is not the most
                // recent one (debug builds assert against it): it must leave everything as it is.
                let inner = !cfg!(debug_assertions) && rng.chance(1, 3);
                let c = raw_blocks(w, Some(!inner));
                if c.is_empty() {
                    None
                } else {
                    let (_, b) = c[rng.usize(c.len())];
                    let new_size = match rng.below(4) {
                        0 => b.len,
                        1 => 0,
                        _ => rng.usize(b.len + 1),
                    };
                    let new_align = if rng.chance(1, 4) { 1 << rng.usize(b.align.trailing_zeros() as usize + 1) } else { b.align };
                    Some(Op::Shrink { id: b.id, new_size, new_align })
                }
            }
            5 => Some(Op::Uninit { t: pick_target(rng, w), ty: rng.below(6) as u8 }),
            6 => {
                let t = pick_target(rng, w);
                let m = &w.models[w.model_of(t)];
                let count = match rng.below(100) {
                    0..=59 => rng.usize(65),
                    60..=74 => 8191 + rng.usize(3),
                    75..=84 => (m.cap - m.offset) / 8 + rng.usize(3),
                    85..=92 => m.commit.saturating_sub(m.offset) / 8 + rng.usize(3),
                    93..=97 => 1usize << (24 + rng.usize(36)),
                    // the byte size fits into usize but `beg + bytes` does not
                    // (not on the ASan build: there the lifetime hook is handed the wrapped size and
                    // the sanitizer runtime aborts inside the hook, which says nothing new)
                    98 if rng.chance(1, 2) && !cfg!(feature = "asan") => (1usize << 61) - 1 - rng.usize(4),
                    // size_of::<u64>() * count does not fit into usize (wraps to 8 * k)
                    _ => (1usize << (61 + rng.usize(3))) + rng.usize(65),
                };
                Some(Op::UninitSlice { t, count })
            }
            7 => {
                let t = pick_target(rng, w);
                let n = if rng.chance(1, 5) { 0 } else { rng.usize(200) };
                Some(if rng.chance(1, 2) { Op::StrNew { t, cap: n } } else { Op::StrFrom { t, key: rng.next_u64() >> 11, n } })
            }
            8 => {
                let c = live_objs(w, true);
                if c.is_empty() {
                    None
                } else {
                    let n = match rng.below(10) {
                        0 => 0,
                        1..=6 => 1 + rng.usize(40),
                        7 | 8 => 41 + rng.usize(1000),
                        _ => 4000 + rng.usize(if small { 2000 } else { 70000 }),
                    };
                    Some(Op::StrPush { o: c[rng.usize(c.len())], key: rng.next_u64() >> 11, n })
                }
            }
            9 => {
                let c = live_objs(w, true);
                if c.is_empty() {
                    None
                } else {
                    let ch = *rng.pick(&['x', ' ', 'é', '€', '🙂']);
                    let n = match rng.below(10) {
                        0 => 0,
                        1..=6 => 1 + rng.usize(30),
                        7 | 8 => 31 + rng.usize(700),
                        _ => 1000 + rng.usize(if small { 1000 } else { 20000 }),
                    };
                    Some(Op::StrRepeat { o: c[rng.usize(c.len())], ch: ch as u32, n })
                }
            }
            10 => {
                let c = live_objs(w, true);
                if c.is_empty() {
                    None
                } else {
                    let o = c[rng.usize(c.len())];
                    let twin = w.objs[o].twin_str();
                    let a = char_boundary_at_or_before(twin, rng.usize(twin.len() + 1));
                    let b = char_boundary_at_or_before(twin, rng.usize(twin.len() + 1));
                    let (from, to) = if a <= b { (a, b) } else { (b, a) };
                    let n = if rng.chance(1, 4) { 0 } else { rng.usize(120) };
                    Some(Op::StrReplace { o, from, to, key: rng.next_u64() >> 11, n })
                }
            }
            11 => Some(Op::StrFormat { t: pick_target(rng, w), a: rng.range(-1_000_000, 1_000_000), key: rng.next_u64() >> 11, n: rng.usize(60) }),
            12 => Some(Op::VecNew { t: pick_target(rng, w), cap: if rng.chance(1, 3) { 0 } else { rng.usize(64) } }),
            13 => {
                let c = live_objs(w, false);
                if c.is_empty() {
                    None
                } else {
                    let n = if rng.chance(1, 8) { 500 + rng.usize(2000) } else { 1 + rng.usize(40) };
                    Some(Op::VecExtend { o: c[rng.usize(c.len())], key: rng.next_u64() >> 11, n })
                }
            }
            14 => {
                let c: Vec<usize> = (0..w.objs.len())
                    .filter(|&o| {
                        let obj = &w.objs[o];
                        obj.alive() && w.usable(obj.t) && obj.block.and_then(|id| w.models[obj.model].block(id)).is_some_and(|b| w.models[obj.model].is_tail(b))
                    })
                    .collect();
                if c.is_empty() { None } else { Some(Op::ObjShrink { o: c[rng.usize(c.len())] }) }
            }
            15 => Some(Op::Mark),
            16 => {
                let m = &w.models[0];
                if m.offset == 0 {
                    None
                } else {
                    let mark = match rng.below(10) {
                        0..=5 => {
                            let c: Vec<usize> = w.marks.iter().copied().filter(|x| *x <= m.offset).collect();
                            if c.is_empty() { 0 } else { c[rng.usize(c.len())] }
                        }
                        6 | 7 => {
                            // the end of a random block: everything up to it stays
                            if m.blocks.is_empty() { 0 } else { m.blocks[rng.usize(m.blocks.len())].end().min(m.offset) }
                        }
                        8 => 0,
                        _ => rng.usize(m.offset + 1),
                    };
                    Some(Op::Reset { mark })
                }
            }
            17 => Some(Op::Decommit),
            18 => {
                let t = pick_target(rng, w);
                let m = &w.models[w.model_of(t)];
                if m.commit >= m.cap {
                    None
                } else {
                    let align = 1usize << rng.usize(5);
                    let beg = round_up(m.offset, align);
                    let need = m.commit.saturating_sub(beg) + 1 + rng.usize(200);
                    let via = rng.below(3) as u8;
                    let tail_id = m.blocks.iter().find(|b| b.kind == Kind::Raw && b.level == t && m.is_tail(b)).map(|b| b.id);
                    match (via, tail_id) {
                        (2, Some(id)) => Some(Op::Inject { t, size: m.commit - m.offset + 1 + rng.usize(200), align: 1, via: 2, id }),
                        (1, _) => Some(Op::Inject { t, size: round_up(m.commit.saturating_sub(round_up(m.offset, 8)) + 8 + rng.usize(200), 8), align: 8, via: 1, id: 0 }),
                        _ => Some(Op::Inject { t, size: need, align, via: 0, id: 0 }),
                    }
                }
            }
            19 => {
                let depth = w.levels.len() as i32;
                let conflict = if depth == 0 {
                    if rng.chance(1, 4) { -1 } else { -2 }
                } else {
                    match rng.below(10) {
                        0..=6 => depth - 1,
                        7 => -2,
                        8 => -1,
                        _ => rng.below(depth as u64) as i32,
                    }
                };
                Some(Op::Push { conflict })
            }
            _ => Some(Op::Pop),
        };
        if let Some(op) = op {
            return op;
        }
    }
    Op::Alloc { t: -1, size: rng.usize(64), align: 1, zeroed: false }
}
