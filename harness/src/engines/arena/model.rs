//! Shadow model of one bump arena, fill patterns, and the operation vocabulary.

use serde_json::{Value as J, json};

pub const CHUNK: usize = 64 * 1024;
pub const PERIOD: usize = 251;

pub fn round_up(x: usize, to: usize) -> usize {
    (x + to - 1) & !(to - 1)
}

// ---------------------------------------------------------------------------
// Patterns
// ---------------------------------------------------------------------------

/// Byte `i` of block `id` is `table(id)[i % PERIOD]`. The period is prime so that a copy from a
/// wrong (page-, chunk- or word-aligned) source offset does not reproduce the pattern. The
/// values 0x00 / 0xCD / 0xDD (zero pages and the arena's debug fills) never occur.
///
/// A table is one of eight compile-time base sequences rotated by an id-dependent amount
/// (8 * 251 distinct patterns; neighbouring ids always differ). Built with two slice copies so
/// that it stays cheap under Miri.
const fn base_table(sel: usize) -> [u8; PERIOD] {
    const STEPS: [u8; 8] = [1, 3, 7, 11, 29, 57, 101, 173];
    let mut t = [0u8; PERIOD];
    let step = STEPS[sel];
    let mut v = 0x5Bu8.wrapping_add((sel as u8).wrapping_mul(29));
    let mut i = 0;
    while i < PERIOD {
        let mut b = v;
        if b == 0 || b == 0xCD || b == 0xDD {
            b ^= 0x55;
        }
        t[i] = b;
        v = v.wrapping_add(step);
        i += 1;
    }
    t
}

static BASES: [[u8; PERIOD]; 8] =
    [base_table(0), base_table(1), base_table(2), base_table(3), base_table(4), base_table(5), base_table(6), base_table(7)];

pub fn table(id: u32) -> [u8; PERIOD] {
    let b = &BASES[(id as usize / PERIOD) % 8];
    let r = (id as usize).wrapping_mul(97) % PERIOD;
    let mut t = [0u8; PERIOD];
    t[..PERIOD - r].copy_from_slice(&b[r..]);
    t[PERIOD - r..].copy_from_slice(&b[..r]);
    t
}

/// # Safety
/// `p[from..to)` must be writable.
pub unsafe fn fill(p: *mut u8, from: usize, to: usize, tab: &[u8; PERIOD]) {
    // first period byte-chunk-wise, the rest by doubling copies of what is already there
    let head_end = to.min(from + PERIOD);
    let mut i = from;
    while i < head_end {
        let k = i % PERIOD;
        let n = (PERIOD - k).min(head_end - i);
        unsafe { std::ptr::copy_nonoverlapping(tab.as_ptr().add(k), p.add(i), n) };
        i += n;
    }
    let total = to.saturating_sub(from);
    let mut filled = PERIOD;
    while filled < total {
        let n = filled.min(total - filled);
        unsafe { std::ptr::copy_nonoverlapping(p.add(from), p.add(from + filled), n) };
        filled += n;
    }
}

unsafe fn verify_slow(p: *const u8, from: usize, to: usize, tab: &[u8; PERIOD]) -> Option<(usize, u8, u8)> {
    let mut i = from;
    while i < to {
        let k = i % PERIOD;
        let n = (PERIOD - k).min(to - i);
        let got = unsafe { std::slice::from_raw_parts(p.add(i), n) };
        if got != &tab[k..k + n] {
            for j in 0..n {
                if got[j] != tab[k + j] {
                    return Some((i + j, tab[k + j], got[j]));
                }
            }
        }
        i += n;
    }
    None
}

/// First index in `from..to` whose byte differs from the pattern.
///
/// # Safety
/// `p[from..to)` must be readable and initialised.
pub unsafe fn verify(p: *const u8, from: usize, to: usize, tab: &[u8; PERIOD]) -> Option<(usize, u8, u8)> {
    if to <= from {
        return None;
    }
    let head_end = to.min(from + PERIOD);
    if let Some(bad) = unsafe { verify_slow(p, from, head_end, tab) } {
        return Some(bad);
    }
    if to - from > PERIOD {
        // the pattern has period PERIOD: the block must equal itself shifted by one period
        let n = to - from - PERIOD;
        let a = unsafe { std::slice::from_raw_parts(p.add(from), n) };
        let b = unsafe { std::slice::from_raw_parts(p.add(from + PERIOD), n) };
        if a != b {
            return unsafe { verify_slow(p, from, to, tab) };
        }
    }
    None
}

static ZEROS: [u8; 4096] = [0; 4096];

/// # Safety
/// `p[from..to)` must be readable and initialised.
pub unsafe fn first_nonzero(p: *const u8, from: usize, to: usize) -> Option<(usize, u8)> {
    let mut i = from;
    while i < to {
        let n = (to - i).min(ZEROS.len());
        let got = unsafe { std::slice::from_raw_parts(p.add(i), n) };
        if got != &ZEROS[..n] {
            for j in 0..n {
                if got[j] != 0 {
                    return Some((i + j, got[j]));
                }
            }
        }
        i += n;
    }
    None
}

// ---------------------------------------------------------------------------
// Model
// ---------------------------------------------------------------------------

#[derive(Clone, Copy, Debug, PartialEq, Eq)]
pub enum Kind {
    /// Filled with the pattern of its id over its whole length.
    Raw,
    /// Buffer of container object `n` (content is compared with the container's twin).
    Obj(usize),
}

#[derive(Clone, Debug)]
pub struct Block {
    pub id: u32,
    /// The pointer the arena returned (kept as a pointer so that Miri tracks its provenance).
    pub ptr: *mut u8,
    /// Offset of the first byte relative to the arena base.
    pub start: usize,
    pub len: usize,
    pub align: usize,
    /// -1 = allocated through the owned arena, k >= 0 = through scratch level k.
    pub level: i32,
    pub kind: Kind,
}

impl Block {
    pub fn end(&self) -> usize {
        self.start + self.len
    }
}

#[derive(Clone, Debug)]
pub struct Model {
    pub name: &'static str,
    pub base: usize,
    pub cap: usize,
    pub commit: usize,
    pub offset: usize,
    pub blocks: Vec<Block>,
}

impl Model {
    pub fn new(name: &'static str) -> Self {
        Self { name, base: 0, cap: 0, commit: 0, offset: 0, blocks: Vec::new() }
    }

    /// Where `alloc(size, align)` must land: `Some((beg, end, needs_commit))`, or `None` if the
    /// request cannot fit into the reservation (the arena must fail and change nothing).
    pub fn predict(&self, size: usize, align: usize) -> Option<(usize, usize, bool)> {
        let beg = self.offset.checked_add(align - 1)? & !(align - 1);
        let end = beg.checked_add(size)?;
        if end <= self.commit {
            Some((beg, end, false))
        } else if end <= self.cap {
            Some((beg, end, true))
        } else {
            None
        }
    }

    pub fn take(&mut self, end: usize) {
        self.offset = end;
        if end > self.commit {
            self.commit = round_up(end, CHUNK);
        }
    }

    pub fn reset(&mut self, mark: usize) {
        self.blocks.retain(|b| b.end() <= mark);
        self.offset = mark;
    }

    /// Returns true if the commit mark dropped.
    pub fn decommit(&mut self) -> bool {
        let keep = round_up(self.offset, CHUNK);
        if keep < self.commit {
            self.commit = keep;
            true
        } else {
            false
        }
    }

    pub fn block(&self, id: u32) -> Option<&Block> {
        self.blocks.iter().find(|b| b.id == id)
    }

    pub fn remove(&mut self, id: u32) -> Option<Block> {
        let i = self.blocks.iter().position(|b| b.id == id)?;
        Some(self.blocks.remove(i))
    }

    pub fn is_tail(&self, b: &Block) -> bool {
        b.end() == self.offset
    }

    pub fn room(&self) -> usize {
        self.cap - self.offset
    }
}

// ---------------------------------------------------------------------------
// Operations
// ---------------------------------------------------------------------------

/// Target arena of an operation: -1 = the owned arena, k >= 0 = scratch level k.
pub type Target = i32;

#[derive(Clone, Debug, PartialEq, Eq)]
pub enum Op {
    Alloc { t: Target, size: usize, align: usize, zeroed: bool },
    Grow { id: u32, new_size: usize, new_align: usize, zeroed: bool },
    Shrink { id: u32, new_size: usize, new_align: usize },
    /// `alloc_uninit::<T>()` for one of a few fixed types.
    Uninit { t: Target, ty: u8 },
    /// `alloc_uninit_slice::<u64>(count)`.
    UninitSlice { t: Target, count: usize },
    StrNew { t: Target, cap: usize },
    StrFrom { t: Target, key: u64, n: usize },
    StrPush { o: usize, key: u64, n: usize },
    StrRepeat { o: usize, ch: u32, n: usize },
    StrReplace { o: usize, from: usize, to: usize, key: u64, n: usize },
    StrFormat { t: Target, a: i64, key: u64, n: usize },
    VecNew { t: Target, cap: usize },
    VecExtend { o: usize, key: u64, n: usize },
    /// `shrink_to_fit` (only generated while the buffer is the arena's tail).
    ObjShrink { o: usize },
    Mark,
    Reset { mark: usize },
    Decommit,
    /// Commit failure injected into an allocation (`via` 0 = allocate, 1 = alloc_uninit_slice,
    /// 2 = tail grow of block `id`).
    Inject { t: Target, size: usize, align: usize, via: u8, id: u32 },
    /// `scratch_arena(conflict)`: -2 = None, -1 = Some(owned arena), k = Some(scratch level k).
    Push { conflict: i32 },
    Pop,
}

fn u(j: &J, k: &str) -> Option<usize> {
    j.get(k)?.as_u64().map(|v| v as usize)
}

fn i(j: &J, k: &str) -> Option<i64> {
    j.get(k)?.as_i64()
}

impl Op {
    pub fn name(&self) -> &'static str {
        match self {
            Op::Alloc { zeroed: false, .. } => "allocate",
            Op::Alloc { zeroed: true, .. } => "allocate_zeroed",
            Op::Grow { zeroed: false, .. } => "grow",
            Op::Grow { zeroed: true, .. } => "grow_zeroed",
            Op::Shrink { .. } => "shrink",
            Op::Uninit { .. } => "alloc_uninit",
            Op::UninitSlice { .. } => "alloc_uninit_slice",
            Op::StrNew { .. } => "str_with_capacity",
            Op::StrFrom { .. } => "str_from_str",
            Op::StrPush { .. } => "str_push_str",
            Op::StrRepeat { .. } => "str_push_repeat",
            Op::StrReplace { .. } => "str_replace_range",
            Op::StrFormat { .. } => "arena_format",
            Op::VecNew { .. } => "vec_u64_with_capacity",
            Op::VecExtend { .. } => "vec_u64_extend",
            Op::ObjShrink { .. } => "shrink_to_fit",
            Op::Mark => "mark",
            Op::Reset { .. } => "reset",
            Op::Decommit => "decommit",
            Op::Inject { .. } => "inject_commit_failure",
            Op::Push { .. } => "scratch_push",
            Op::Pop => "scratch_pop",
        }
    }

    pub fn to_json(&self) -> J {
        match *self {
            Op::Alloc { t, size, align, zeroed } => json!({"op": if zeroed { "allocate_zeroed" } else { "allocate" }, "t": t, "size": size, "align": align}),
            Op::Grow { id, new_size, new_align, zeroed } => json!({"op": if zeroed { "grow_zeroed" } else { "grow" }, "id": id, "size": new_size, "align": new_align}),
            Op::Shrink { id, new_size, new_align } => json!({"op": "shrink", "id": id, "size": new_size, "align": new_align}),
            Op::Uninit { t, ty } => json!({"op": "alloc_uninit", "t": t, "ty": ty}),
            Op::UninitSlice { t, count } => json!({"op": "alloc_uninit_slice", "t": t, "count": count}),
            Op::StrNew { t, cap } => json!({"op": "str_with_capacity", "t": t, "cap": cap}),
            Op::StrFrom { t, key, n } => json!({"op": "str_from_str", "t": t, "key": key, "n": n}),
            Op::StrPush { o, key, n } => json!({"op": "str_push_str", "o": o, "key": key, "n": n}),
            Op::StrRepeat { o, ch, n } => json!({"op": "str_push_repeat", "o": o, "ch": ch, "n": n}),
            Op::StrReplace { o, from, to, key, n } => json!({"op": "str_replace_range", "o": o, "from": from, "to": to, "key": key, "n": n}),
            Op::StrFormat { t, a, key, n } => json!({"op": "arena_format", "t": t, "a": a, "key": key, "n": n}),
            Op::VecNew { t, cap } => json!({"op": "vec_u64_with_capacity", "t": t, "cap": cap}),
            Op::VecExtend { o, key, n } => json!({"op": "vec_u64_extend", "o": o, "key": key, "n": n}),
            Op::ObjShrink { o } => json!({"op": "shrink_to_fit", "o": o}),
            Op::Mark => json!({"op": "mark"}),
            Op::Reset { mark } => json!({"op": "reset", "mark": mark}),
            Op::Decommit => json!({"op": "decommit"}),
            Op::Inject { t, size, align, via, id } => json!({"op": "inject_commit_failure", "t": t, "size": size, "align": align, "via": via, "id": id}),
            Op::Push { conflict } => json!({"op": "scratch_push", "conflict": conflict}),
            Op::Pop => json!({"op": "scratch_pop"}),
        }
    }

    pub fn from_json(j: &J) -> Option<Op> {
        let name = j.get("op")?.as_str()?;
        let t = || i(j, "t").map(|v| v as i32);
        Some(match name {
            "allocate" | "allocate_zeroed" => Op::Alloc { t: t()?, size: u(j, "size")?, align: u(j, "align")?, zeroed: name == "allocate_zeroed" },
            "grow" | "grow_zeroed" => Op::Grow { id: u(j, "id")? as u32, new_size: u(j, "size")?, new_align: u(j, "align")?, zeroed: name == "grow_zeroed" },
            "shrink" => Op::Shrink { id: u(j, "id")? as u32, new_size: u(j, "size")?, new_align: u(j, "align")? },
            "alloc_uninit" => Op::Uninit { t: t()?, ty: u(j, "ty")? as u8 },
            "alloc_uninit_slice" => Op::UninitSlice { t: t()?, count: u(j, "count")? },
            "str_with_capacity" => Op::StrNew { t: t()?, cap: u(j, "cap")? },
            "str_from_str" => Op::StrFrom { t: t()?, key: u(j, "key")? as u64, n: u(j, "n")? },
            "str_push_str" => Op::StrPush { o: u(j, "o")?, key: u(j, "key")? as u64, n: u(j, "n")? },
            "str_push_repeat" => Op::StrRepeat { o: u(j, "o")?, ch: u(j, "ch")? as u32, n: u(j, "n")? },
            "str_replace_range" => Op::StrReplace { o: u(j, "o")?, from: u(j, "from")?, to: u(j, "to")?, key: u(j, "key")? as u64, n: u(j, "n")? },
            "arena_format" => Op::StrFormat { t: t()?, a: i(j, "a")?, key: u(j, "key")? as u64, n: u(j, "n")? },
            "vec_u64_with_capacity" => Op::VecNew { t: t()?, cap: u(j, "cap")? },
            "vec_u64_extend" => Op::VecExtend { o: u(j, "o")?, key: u(j, "key")? as u64, n: u(j, "n")? },
            "shrink_to_fit" => Op::ObjShrink { o: u(j, "o")? },
            "mark" => Op::Mark,
            "reset" => Op::Reset { mark: u(j, "mark")? },
            "decommit" => Op::Decommit,
            "inject_commit_failure" => Op::Inject { t: t()?, size: u(j, "size")?, align: u(j, "align")?, via: u(j, "via")? as u8, id: u(j, "id")? as u32 },
            "scratch_push" => Op::Push { conflict: i(j, "conflict")? as i32 },
            "scratch_pop" => Op::Pop,
            _ => return None,
        })
    }
}

/// Deterministic text of exactly `n` bytes (ASCII mixed with 2-, 3- and 4-byte characters).
pub fn gen_text(key: u64, n: usize) -> String {
    const MULTI: [&str; 6] = ["é", "ß", "€", "你", "🙂", "ñ"];
    let mut s = String::with_capacity(n);
    let mut x = key | 1;
    while s.len() < n {
        x ^= x << 13;
        x ^= x >> 7;
        x ^= x << 17;
        let left = n - s.len();
        if x % 5 == 0 {
            let m = MULTI[(x >> 8) as usize % MULTI.len()];
            if m.len() <= left {
                s.push_str(m);
                continue;
            }
        }
        s.push((b'a' + ((x >> 16) % 26) as u8) as char);
    }
    s
}

#[cfg(test)]
mod tests {
    use super::*;

    #[test]
    fn fill_then_verify_finds_every_flipped_byte() {
        for (from, to) in [(0usize, 0usize), (0, 1), (0, 250), (0, 251), (0, 252), (3, 600), (100, 5000), (250, 70000), (251, 502), (7, 258)] {
            let tab = table(to as u32 + 17);
            let mut buf = vec![0xEEu8; to + 16];
            unsafe { fill(buf.as_mut_ptr(), from, to, &tab) };
            for (i, b) in buf.iter().enumerate() {
                if i >= from && i < to {
                    assert_eq!(*b, tab[i % PERIOD], "fill {from}..{to} at {i}");
                } else {
                    assert_eq!(*b, 0xEE, "fill {from}..{to} wrote outside at {i}");
                }
            }
            assert!(unsafe { verify(buf.as_ptr(), from, to, &tab) }.is_none());
            let step = if to - from > 2000 { 97 } else { 1 };
            let mut i = from;
            while i < to {
                let old = buf[i];
                buf[i] ^= 0x40;
                let bad = unsafe { verify(buf.as_ptr(), from, to, &tab) };
                assert_eq!(bad.map(|b| b.0), Some(i), "verify {from}..{to} flipped {i}");
                buf[i] = old;
                i += step;
            }
            // last byte explicitly
            if to > from {
                buf[to - 1] ^= 1;
                assert_eq!(unsafe { verify(buf.as_ptr(), from, to, &tab) }.map(|b| b.0), Some(to - 1));
            }
        }
    }

    #[test]
    fn tables_avoid_fill_bytes_and_differ() {
        for id in 0..2000u32 {
            let t = table(id);
            assert!(t.iter().all(|b| *b != 0 && *b != 0xCD && *b != 0xDD));
            assert_ne!(t, table(id + 1));
        }
    }

    #[test]
    fn ops_round_trip_through_json() {
        let ops = [
            Op::Alloc { t: -1, size: usize::MAX / 2, align: 4096, zeroed: true },
            Op::Grow { id: 7, new_size: 99, new_align: 2, zeroed: false },
            Op::UninitSlice { t: 2, count: (1 << 61) + 1 },
            Op::StrReplace { o: 3, from: 1, to: 9, key: 12345, n: 4 },
            Op::Inject { t: 0, size: 70000, align: 8, via: 2, id: 5 },
            Op::Push { conflict: -2 },
            Op::Pop,
            Op::Reset { mark: 65536 },
        ];
        for op in ops {
            assert_eq!(Op::from_json(&op.to_json()), Some(op));
        }
    }

    #[test]
    fn gen_text_has_exact_length() {
        for n in 0..300 {
            assert_eq!(gen_text(n as u64 * 977 + 1, n).len(), n);
        }
    }
}
