//! Executes operations against the real arenas and the shadow model and compares the two
//! after every operation.

use std::alloc::{Allocator, Layout};
use std::collections::BTreeMap;
use std::mem::ManuallyDrop;
use std::ptr::NonNull;

use naijascript::arena::{Arena, ArenaString, ScratchArena, scratch_arena};
use naijascript::{arena_format, verif};
use serde_json::{Value as J, json};

use super::model::{self, Block, CHUNK, Kind, Model, Op, Target, gen_text, round_up, table};
use crate::util;

pub const MAX_DEPTH: usize = 6;

#[derive(Clone, Debug)]
pub struct Cfg {
    pub requested_cap: usize,
    pub scratch_cap: usize,
    pub small: bool,
    /// Call `init` again before the history (no scratch borrow is alive then): must only reset.
    pub reinit: bool,
}

#[derive(Debug)]
pub struct Fail {
    pub sig: String,
    pub detail: J,
    /// The model can be resynchronised and the history continued (known-defect class).
    pub recoverable: bool,
}

pub enum Outcome {
    Ok,
    Soft(Vec<Fail>),
    Fail(Fail),
}

#[derive(Default, Clone, Copy, Debug)]
pub struct Flags {
    pub commit_cross: bool,
    pub nontail_grow_after_reset: bool,
    pub recommit_after_decommit: bool,
    pub scratch_depth_max: usize,
}

impl Flags {
    pub fn nontrivial(&self) -> bool {
        self.commit_cross && self.nontail_grow_after_reset && self.recommit_after_decommit
    }
}

#[derive(Default, Clone, Copy)]
pub struct ModelFlags {
    pub reset_seen: bool,
    pub decommitted: bool,
    /// The last operation that changed this arena's offset was a reset (placement check).
    pub fresh_reset: bool,
}

pub enum ObjKind {
    Str { s: ManuallyDrop<ArenaString<'static>>, twin: String },
    V64 { v: ManuallyDrop<Vec<u64, &'static Arena>>, twin: Vec<u64> },
    Dead,
}

pub struct Obj {
    pub kind: ObjKind,
    pub t: Target,
    pub model: usize,
    pub block: Option<u32>,
}

impl Obj {
    pub fn alive(&self) -> bool {
        !matches!(self.kind, ObjKind::Dead)
    }

    pub fn is_str(&self) -> bool {
        matches!(self.kind, ObjKind::Str { .. })
    }

    /// `(buffer pointer, capacity in bytes, alignment, length in bytes)`.
    fn raw(&self) -> (*mut u8, usize, usize, usize) {
        match &self.kind {
            ObjKind::Str { s, .. } => (s.as_bytes().as_ptr().cast_mut(), s.capacity(), 1, s.len()),
            ObjKind::V64 { v, .. } => (v.as_ptr().cast::<u8>().cast_mut(), v.capacity() * 8, 8, v.len() * 8),
            ObjKind::Dead => (std::ptr::null_mut(), 0, 1, 0),
        }
    }

    pub fn twin_len(&self) -> usize {
        match &self.kind {
            ObjKind::Str { twin, .. } => twin.len(),
            ObjKind::V64 { twin, .. } => twin.len(),
            ObjKind::Dead => 0,
        }
    }

    pub fn twin_str(&self) -> &str {
        match &self.kind {
            ObjKind::Str { twin, .. } => twin,
            _ => "",
        }
    }

    fn kill(&mut self) {
        // The twins live on the ordinary heap and are dropped normally.
        match &mut self.kind {
            ObjKind::Str { twin, .. } => drop(std::mem::take(twin)),
            ObjKind::V64 { twin, .. } => drop(std::mem::take(twin)),
            ObjKind::Dead => {}
        }
        // Overwrite without dropping or reading the arena-backed container: it may point into
        // memory that is gone (its destructor is a no-op for arena memory anyway).
        unsafe { std::ptr::write(&raw mut self.kind, ObjKind::Dead) };
        self.block = None;
    }
}

pub struct Level {
    sa: Option<Box<ScratchArena<'static>>>,
    pub model: usize,
    pub mark: usize,
}

pub struct World {
    main: Option<Box<Arena>>,
    pub models: [Model; 3],
    pub mflags: [ModelFlags; 3],
    pub levels: Vec<Level>,
    pub objs: Vec<Obj>,
    pub marks: Vec<usize>,
    next_id: u32,
    pub opno: usize,
    pub stats: BTreeMap<&'static str, u64>,
    pub flags: Flags,
    pub soft_failures: Vec<Fail>,
    last_model: usize,
    last_op: &'static str,
    /// fill tables of the live raw blocks (computing one is expensive under Miri)
    tabs: BTreeMap<u32, Box<[u8; model::PERIOD]>>,
    counters0: [u64; verif::COUNTER_COUNT],
}

static SCRATCH_CAP: std::sync::atomic::AtomicUsize = std::sync::atomic::AtomicUsize::new(0);

/// `init` is called once per process; the reservation of the two scratch arenas is kept.
pub fn init_scratch(cap: usize) {
    use std::sync::atomic::Ordering;
    if SCRATCH_CAP.load(Ordering::SeqCst) == 0 {
        naijascript::arena::init(cap).expect("scratch init");
        SCRATCH_CAP.store(cap, Ordering::SeqCst);
    }
}

/// After an unexpected panic: bring both scratch arenas back to offset 0 / commit 0.
pub fn emergency_scratch_reset() {
    let cap = SCRATCH_CAP.load(std::sync::atomic::Ordering::SeqCst);
    if cap == 0 {
        return;
    }
    let _ = util::guarded(|| {
        let _ = naijascript::arena::init(cap);
        let a = scratch_arena(None);
        let b = scratch_arena(Some(&a));
        drop(b);
        drop(a);
    });
}

fn fail(sig: &str, detail: J) -> Fail {
    Fail { sig: sig.to_string(), detail, recoverable: false }
}

macro_rules! skip {
    ($self:ident) => {{
        $self.stat("skipped.inapplicable");
        return Ok(());
    }};
}

#[repr(align(64))]
#[allow(dead_code)]
struct A64([u8; 192]);
#[repr(align(4096))]
#[allow(dead_code)]
struct Page([u8; 4096]);

pub fn uninit_layout(ty: u8) -> (usize, usize) {
    match ty {
        0 => (1, 1),
        1 => (8, 8),
        2 => (100, 1),
        3 => (192, 64),
        4 => (4096, 4096),
        _ => (8192, 8),
    }
}

impl World {
    pub fn new(cfg: &Cfg) -> Result<Self, Fail> {
        let arena = Arena::new(cfg.requested_cap).map_err(|e| fail("arena|new-failed", json!({"errno": e, "requested": cfg.requested_cap})))?;
        let main = Box::new(arena);
        let (base, cap, commit, offset) = main.verif_state();
        let expect_cap = round_up(cfg.requested_cap.max(1), CHUNK);
        if cap != expect_cap || commit != 0 || offset != 0 || base == 0 || base % 4096 != 0 {
            return Err(fail("arena|new-state", json!({"state": [base, cap, commit, offset], "expected_capacity": expect_cap})));
        }
        if !main.contains_ptr(base as *const u8) || !main.contains_ptr((base + cap - 1) as *const u8) || main.contains_ptr((base + cap) as *const u8) || main.contains_ptr((base - 1) as *const u8) {
            return Err(fail("arena|contains_ptr", json!({"base": base, "cap": cap})));
        }
        let mut m0 = Model::new("owned");
        m0.base = base;
        m0.cap = cap;
        let mut m1 = Model::new("scratch0");
        let mut m2 = Model::new("scratch1");
        m1.cap = round_up(cfg.scratch_cap.max(1), CHUNK);
        m2.cap = m1.cap;
        verif::clear_commit_failure();
        let mut stats = BTreeMap::new();
        if cfg.reinit {
            if let Err(e) = naijascript::arena::init(cfg.scratch_cap) {
                return Err(fail("arena|init-again-failed", json!({"errno": e})));
            }
            stats.insert("scratch.init_again", 1);
        }
        Ok(Self {
            main: Some(main),
            models: [m0, m1, m2],
            mflags: [ModelFlags::default(); 3],
            levels: Vec::new(),
            objs: Vec::new(),
            marks: vec![0],
            next_id: 1,
            opno: 0,
            stats,
            flags: Flags::default(),
            soft_failures: Vec::new(),
            last_model: 0,
            last_op: "new",
            tabs: BTreeMap::new(),
            counters0: verif::counters(),
        })
    }

    pub fn stat(&mut self, k: &'static str) {
        *self.stats.entry(k).or_insert(0) += 1;
    }

    fn arena_of(&self, t: Target) -> &'static Arena {
        if t < 0 {
            let a: &Arena = self.main.as_ref().expect("main arena");
            unsafe { &*std::ptr::from_ref(a) }
        } else {
            let sa: &ScratchArena<'static> = self.levels[t as usize].sa.as_ref().expect("level");
            let a: &Arena = sa;
            unsafe { &*std::ptr::from_ref(a) }
        }
    }

    pub fn model_of(&self, t: Target) -> usize {
        if t < 0 { 0 } else { self.levels[t as usize].model }
    }

    /// A scratch level may be used only while it is the newest borrow of its arena.
    pub fn usable(&self, t: Target) -> bool {
        if t < 0 {
            return t == -1;
        }
        let t = t as usize;
        if t >= self.levels.len() {
            return false;
        }
        let m = self.levels[t].model;
        self.levels[t + 1..].iter().all(|l| l.model != m)
    }

    pub fn usable_targets(&self) -> Vec<Target> {
        let mut v = vec![-1];
        for k in 0..self.levels.len() {
            if self.usable(k as Target) {
                v.push(k as Target);
            }
        }
        v
    }

    fn ctx(&self, mi: usize) -> J {
        let m = &self.models[mi];
        json!({"op_number": self.opno, "operation": self.last_op, "arena": m.name, "model_offset": m.offset, "model_commit": m.commit, "capacity": m.cap, "live_blocks": m.blocks.len()})
    }

    // -----------------------------------------------------------------------
    // Checks shared by every hand-out
    // -----------------------------------------------------------------------

    /// Validates a block the arena handed out and enters it into the model.
    #[allow(clippy::too_many_arguments)]
    fn accept(&mut self, mi: usize, t: Target, ptr: *mut u8, got_len: usize, size: usize, align: usize, pred: (usize, usize, bool), id: Option<u32>, kind: Kind, what: &'static str) -> Result<u32, Fail> {
        let addr = ptr as usize;
        let a = self.arena_of(t);
        let (base, cap, commit, _) = a.verif_state();
        let m = &self.models[mi];
        let d = |extra: J| {
            let mut c = self.ctx(mi);
            c["via"] = json!(what);
            c["returned_offset"] = json!(addr.wrapping_sub(base));
            c["returned_len"] = json!(got_len);
            c["requested_size"] = json!(size);
            c["requested_align"] = json!(align);
            c["predicted_start"] = json!(pred.0);
            c["info"] = extra;
            c
        };
        if got_len < size {
            return Err(fail("arena|short-block", d(json!(null))));
        }
        if addr < base || addr - base > cap || size > cap - (addr - base) {
            return Err(fail("arena|out-of-reservation", d(json!({"base": base}))));
        }
        let rel = addr - base;
        if size > 0 && rel + size > commit {
            return Err(fail("arena|beyond-commit", d(json!({"commit": commit}))));
        }
        if addr % align != 0 {
            return Err(fail("arena|misaligned", d(json!(null))));
        }
        if size > 0 {
            if !a.contains_ptr(ptr) || !a.contains_ptr(ptr.wrapping_add(size - 1)) {
                return Err(fail("arena|contains_ptr", d(json!(null))));
            }
            for b in &m.blocks {
                if b.len > 0 && rel < b.end() && b.start < rel + size {
                    return Err(fail("arena|overlap", d(json!({"other_block": {"id": b.id, "start": b.start, "len": b.len}}))));
                }
            }
        }
        if rel != pred.0 {
            let sig = if self.mflags[mi].fresh_reset { "arena|placement-after-reset" } else { "arena|placement" };
            return Err(fail(sig, d(json!(null))));
        }
        // enter into the model
        if pred.2 {
            if m.commit > 0 {
                self.flags.commit_cross = true;
                self.stat("commit.boundary_crossed");
            } else {
                self.stat("commit.first");
            }
            if self.mflags[mi].decommitted {
                self.flags.recommit_after_decommit = true;
                self.stat("commit.recommit_after_decommit");
            }
        }
        self.mflags[mi].fresh_reset = false;
        let id = id.unwrap_or_else(|| {
            self.next_id += 1;
            self.next_id - 1
        });
        let m = &mut self.models[mi];
        m.take(pred.1);
        m.blocks.push(Block { id, ptr, start: rel, len: size, align, level: t, kind });
        if kind == Kind::Raw && !self.tabs.contains_key(&id) {
            if self.tabs.len() > 4096 {
                self.tabs.clear();
            }
            self.tabs.insert(id, Box::new(table(id)));
        }
        Ok(id)
    }

    fn check_state(&self, mi: usize, a: &Arena, usable: bool) -> Result<(), Fail> {
        let (base, cap, commit, offset) = a.verif_state();
        let m = &self.models[mi];
        let d = || {
            let mut c = self.ctx(mi);
            c["actual"] = json!({"base": base, "capacity": cap, "commit": commit, "offset": offset});
            c
        };
        if base != m.base || cap != m.cap {
            return Err(fail("arena|state-reservation", d()));
        }
        if commit > cap || commit % CHUNK != 0 {
            return Err(fail("arena|commit-above-capacity", d()));
        }
        if offset != m.offset {
            return Err(fail("arena|state-offset", d()));
        }
        if commit != m.commit {
            return Err(fail("arena|state-commit", d()));
        }
        if usable && a.offset() != offset {
            return Err(fail("arena|offset-accessor", d()));
        }
        Ok(())
    }

    /// Model versus accessors, then every live block re-read.
    pub fn check_all(&self) -> Result<(), Fail> {
        let main: &Arena = self.main.as_ref().expect("main");
        self.check_state(0, main, true)?;
        for mi in 1..3 {
            if let Some(k) = self.levels.iter().rposition(|l| l.model == mi) {
                let a = self.arena_of(k as Target);
                self.check_state(mi, a, true)?;
            }
        }
        for mi in 0..3 {
            let m = &self.models[mi];
            for b in &m.blocks {
                match b.kind {
                    Kind::Raw => {
                        let computed;
                        let tab: &[u8; model::PERIOD] = match self.tabs.get(&b.id) {
                            Some(t) => t,
                            None => {
                                computed = table(b.id);
                                &computed
                            }
                        };
                        if let Some((at, want, got)) = unsafe { model::verify(b.ptr, 0, b.len, tab) } {
                            let mut c = self.ctx(mi);
                            c["block"] = json!({"id": b.id, "start": b.start, "len": b.len, "level": b.level});
                            c["first_bad_byte"] = json!({"index": at, "expected": want, "found": got});
                            return Err(fail(&format!("arena|block-clobbered|{}", self.last_op), c));
                        }
                    }
                    Kind::Obj(o) => self.check_obj(mi, o, b)?,
                }
            }
        }
        // containers without a buffer still have to equal their twins
        for (o, obj) in self.objs.iter().enumerate() {
            if obj.alive() && obj.block.is_none() && obj.twin_len() != obj.raw().3 / if obj.is_str() { 1 } else { 8 } {
                return Err(fail("arena|container-content", json!({"object": o, "operation": self.last_op})));
            }
        }
        Ok(())
    }

    fn check_obj(&self, mi: usize, o: usize, b: &Block) -> Result<(), Fail> {
        let obj = &self.objs[o];
        let ok = match &obj.kind {
            ObjKind::Str { s, twin } => s.as_bytes() == twin.as_bytes(),
            ObjKind::V64 { v, twin } => v.as_slice() == twin.as_slice(),
            ObjKind::Dead => true,
        };
        if !ok {
            let mut c = self.ctx(mi);
            c["object"] = json!(o);
            c["block"] = json!({"id": b.id, "start": b.start, "len": b.len});
            return Err(fail(&format!("arena|container-content|{}", self.last_op), c));
        }
        Ok(())
    }

    fn sweep_objects(&mut self) {
        for o in 0..self.objs.len() {
            if !self.objs[o].alive() {
                continue;
            }
            if let Some(id) = self.objs[o].block {
                let mi = self.objs[o].model;
                if self.models[mi].block(id).is_none() {
                    self.objs[o].kill();
                }
            }
        }
    }

    fn find_block(&self, id: u32) -> Option<(usize, Block)> {
        for mi in 0..3 {
            if let Some(b) = self.models[mi].block(id) {
                // the level a block was allocated through must still be the same borrow
                if b.level >= 0 && (b.level as usize >= self.levels.len() || self.levels[b.level as usize].model != mi) {
                    return None;
                }
                return Some((mi, b.clone()));
            }
        }
        None
    }

    // -----------------------------------------------------------------------
    // Operations
    // -----------------------------------------------------------------------

    pub fn apply(&mut self, op: &Op) -> Result<(), Fail> {
        self.opno += 1;
        self.last_op = op.name();
        match *op {
            Op::Alloc { t, size, align, zeroed } => self.do_alloc(t, size, align, zeroed)?,
            Op::Grow { id, new_size, new_align, zeroed } => self.do_grow(id, new_size, new_align, zeroed)?,
            Op::Shrink { id, new_size, new_align } => self.do_shrink(id, new_size, new_align)?,
            Op::Uninit { t, ty } => self.do_uninit(t, ty)?,
            Op::UninitSlice { t, count } => self.do_uninit_slice(t, count)?,
            Op::StrNew { t, cap } => self.do_obj_new(t, cap, None, false)?,
            Op::StrFrom { t, key, n } => self.do_obj_new(t, n, Some(key), false)?,
            Op::VecNew { t, cap } => self.do_obj_new(t, cap, None, true)?,
            Op::StrPush { o, key, n } => self.do_str_push(o, key, n)?,
            Op::StrRepeat { o, ch, n } => self.do_str_repeat(o, ch, n)?,
            Op::StrReplace { o, from, to, key, n } => self.do_str_replace(o, from, to, key, n)?,
            Op::StrFormat { t, a, key, n } => self.do_format(t, a, key, n)?,
            Op::VecExtend { o, key, n } => self.do_vec_extend(o, key, n)?,
            Op::ObjShrink { o } => self.do_obj_shrink(o)?,
            Op::Mark => {
                let off = self.models[0].offset;
                if self.marks.last() != Some(&off) {
                    self.marks.push(off);
                }
                self.stat("op.mark");
            }
            Op::Reset { mark } => self.do_reset(mark)?,
            Op::Decommit => {
                let main: &Arena = self.main.as_ref().expect("main");
                main.decommit();
                self.stat("op.decommit");
                if self.models[0].decommit() {
                    self.mflags[0].decommitted = true;
                    self.stat("op.decommit.lowered_commit");
                }
                self.last_model = 0;
            }
            Op::Inject { t, size, align, via, id } => self.do_inject(t, size, align, via, id)?,
            Op::Push { conflict } => self.do_push(conflict)?,
            Op::Pop => self.do_pop()?,
        }
        self.check_all()
    }

    fn do_alloc(&mut self, t: Target, size: usize, align: usize, zeroed: bool) -> Result<(), Fail> {
        if !self.usable(t) || !align.is_power_of_two() {
            skip!(self);
        }
        let Ok(layout) = Layout::from_size_align(size, align) else { skip!(self) };
        let a = self.arena_of(t);
        let mi = self.model_of(t);
        self.last_model = mi;
        let pred = self.models[mi].predict(size, align);
        let res = if zeroed { a.allocate_zeroed(layout) } else { a.allocate(layout) };
        self.stat(if zeroed { "op.allocate_zeroed" } else { "op.allocate" });
        if t >= 0 {
            self.stat("scratch.allocations");
        }
        match (pred, res) {
            (None, Err(_)) => {
                self.stat("alloc.oversize_refused");
                Ok(())
            }
            (None, Ok(p)) => {
                let mut c = self.ctx(mi);
                c["request"] = json!({"size": size, "align": align});
                c["returned_len"] = json!(p.len());
                Err(fail("arena|oversize-returned-memory", c))
            }
            (Some(_), Err(_)) => {
                let mut c = self.ctx(mi);
                c["request"] = json!({"size": size, "align": align});
                Err(fail("arena|spurious-failure", c))
            }
            (Some(pred), Ok(p)) => {
                let ptr = p.cast::<u8>().as_ptr();
                let id = self.accept(mi, t, ptr, p.len(), size, align, pred, None, Kind::Raw, if zeroed { "allocate_zeroed" } else { "allocate" })?;
                if zeroed && let Some((at, got)) = unsafe { model::first_nonzero(ptr, 0, size) } {
                    let mut c = self.ctx(mi);
                    c["first_nonzero"] = json!({"index": at, "found": got});
                    return Err(fail("arena|zeroed-not-zero", c));
                }
                unsafe { model::fill(ptr, 0, size, &table(id)) };
                self.size_stat(size);
                Ok(())
            }
        }
    }

    fn size_stat(&mut self, size: usize) {
        let k = match size {
            0 => "size.0",
            1..=8 => "size.1-8",
            9..=4094 => "size.9-4094",
            4095..=4097 => "size.4095-4097",
            4098..=65534 => "size.4098-65534",
            65535..=65537 => "size.65535-65537",
            _ => "size.gt_65537",
        };
        self.stat(k);
    }

    fn do_grow(&mut self, id: u32, new_size: usize, new_align: usize, zeroed: bool) -> Result<(), Fail> {
        let Some((mi, b)) = self.find_block(id) else { skip!(self) };
        if b.kind != Kind::Raw || !self.usable(b.level) || new_size < b.len || !new_align.is_power_of_two() || new_align > b.align {
            skip!(self);
        }
        let (Ok(old_layout), Ok(new_layout)) = (Layout::from_size_align(b.len, b.align), Layout::from_size_align(new_size, new_align)) else { skip!(self) };
        let a = self.arena_of(b.level);
        self.last_model = mi;
        let (m_base, m_commit) = (self.models[mi].base, self.models[mi].commit);
        let tail = self.models[mi].is_tail(&b);
        let pred = if tail { self.models[mi].predict(new_size - b.len, 1) } else { self.models[mi].predict(new_size, new_align) };
        let old_addr = m_base + b.start;
        let ptr = NonNull::new(b.ptr).expect("nonnull");
        let res = unsafe { if zeroed { a.grow_zeroed(ptr, old_layout, new_layout) } else { a.grow(ptr, old_layout, new_layout) } };
        self.stat(if tail { "op.grow_tail" } else { "op.grow_non_tail" });
        if zeroed {
            self.stat("op.grow_zeroed");
        }
        let mut c = self.ctx(mi);
        c["block"] = json!({"id": id, "start": b.start, "len": b.len, "align": b.align, "tail": tail});
        c["request"] = json!({"new_size": new_size, "new_align": new_align, "zeroed": zeroed});
        match (pred, res) {
            (None, Err(_)) => {
                self.stat("grow.oversize_refused");
                Ok(())
            }
            (None, Ok(_)) => Err(fail("arena|oversize-returned-memory", c)),
            (Some(_), Err(_)) => Err(fail("arena|spurious-failure", c)),
            (Some(pred), Ok(p)) => {
                let new_ptr = p.cast::<u8>().as_ptr();
                let addr = new_ptr as usize;
                if tail {
                    if addr != old_addr {
                        c["returned_offset"] = json!(addr.wrapping_sub(m_base));
                        return Err(fail("arena|grow-tail-moved", c));
                    }
                    if p.len() < new_size {
                        return Err(fail("arena|short-block", c));
                    }
                    let (_, _, commit, _) = a.verif_state();
                    if new_size > 0 && b.start + new_size > commit {
                        return Err(fail("arena|beyond-commit", c));
                    }
                    if pred.2 {
                        if m_commit > 0 {
                            self.flags.commit_cross = true;
                            self.stat("commit.boundary_crossed");
                        }
                        if self.mflags[mi].decommitted {
                            self.flags.recommit_after_decommit = true;
                            self.stat("commit.recommit_after_decommit");
                        }
                    }
                    self.mflags[mi].fresh_reset = false;
                    let m = &mut self.models[mi];
                    m.take(pred.1);
                    let blk = m.blocks.iter_mut().find(|x| x.id == id).expect("block");
                    blk.len = new_size;
                    blk.align = new_align;
                    blk.ptr = new_ptr;
                } else {
                    // the old block is still in the model: the new one must be disjoint from it
                    self.accept(mi, b.level, new_ptr, p.len(), new_size, new_align, pred, Some(id), Kind::Raw, "grow")?;
                    // drop the old entry (first occurrence of the id)
                    self.models[mi].remove(id);
                    if self.mflags[mi].reset_seen {
                        self.flags.nontail_grow_after_reset = true;
                        self.stat("op.grow_non_tail_after_reset");
                    }
                }
                let tab = table(id);
                if let Some((at, want, got)) = unsafe { model::verify(new_ptr, 0, b.len, &tab) } {
                    c["first_bad_byte"] = json!({"index": at, "expected": want, "found": got});
                    return Err(fail("arena|grow-lost-bytes", c));
                }
                if zeroed && let Some((at, got)) = unsafe { model::first_nonzero(new_ptr, b.len, new_size) } {
                    c["first_nonzero"] = json!({"index": at, "found": got});
                    return Err(fail("arena|grow_zeroed-not-zero", c));
                }
                unsafe { model::fill(new_ptr, b.len, new_size, &tab) };
                Ok(())
            }
        }
    }

    fn do_shrink(&mut self, id: u32, new_size: usize, new_align: usize) -> Result<(), Fail> {
        let Some((mi, b)) = self.find_block(id) else { skip!(self) };
        let tail = self.models[mi].is_tail(&b);
        if b.kind != Kind::Raw || !self.usable(b.level) || new_size > b.len || !new_align.is_power_of_two() || new_align > b.align || (!tail && cfg!(debug_assertions)) {
            skip!(self);
        }
        if !tail {
            // not the most recent block (builds without debug assertions only): the call must
            // return the same block and change nothing - the model stays as it is, so the overlap,
            // bounds and content checks of every later step see whether it did
            let (Ok(old_layout), Ok(new_layout)) = (Layout::from_size_align(b.len, b.align), Layout::from_size_align(new_size, new_align)) else { skip!(self) };
            let a = self.arena_of(b.level);
            self.last_model = mi;
            let old_addr = self.models[mi].base + b.start;
            let res = unsafe { a.shrink(NonNull::new(b.ptr).expect("nonnull"), old_layout, new_layout) };
            self.stat("op.shrink_inner");
            let mut c = self.ctx(mi);
            c["block"] = json!({"id": id, "start": b.start, "len": b.len});
            c["request"] = json!({"new_size": new_size, "inner": true});
            return match res {
                Err(_) => Err(fail("arena|spurious-failure", c)),
                Ok(p) if p.cast::<u8>().as_ptr() as usize != old_addr => Err(fail("arena|shrink-moved", c)),
                Ok(_) => Ok(()),
            };
        }
        let (Ok(old_layout), Ok(new_layout)) = (Layout::from_size_align(b.len, b.align), Layout::from_size_align(new_size, new_align)) else { skip!(self) };
        let a = self.arena_of(b.level);
        self.last_model = mi;
        let old_addr = self.models[mi].base + b.start;
        let res = unsafe { a.shrink(NonNull::new(b.ptr).expect("nonnull"), old_layout, new_layout) };
        self.stat("op.shrink_tail");
        let mut c = self.ctx(mi);
        c["block"] = json!({"id": id, "start": b.start, "len": b.len});
        c["request"] = json!({"new_size": new_size});
        match res {
            Err(_) => Err(fail("arena|spurious-failure", c)),
            Ok(p) => {
                if p.cast::<u8>().as_ptr() as usize != old_addr {
                    return Err(fail("arena|shrink-moved", c));
                }
                if p.len() < new_size || p.len() > b.len {
                    return Err(fail("arena|short-block", c));
                }
                let m = &mut self.models[mi];
                m.offset = b.start + new_size;
                let off = m.offset;
                m.blocks.retain(|x| x.id == id || x.end() <= off);
                let blk = m.blocks.iter_mut().find(|x| x.id == id).expect("block");
                blk.len = new_size;
                blk.align = new_align;
                self.sweep_objects();
                Ok(())
            }
        }
    }

    fn do_uninit(&mut self, t: Target, ty: u8) -> Result<(), Fail> {
        if !self.usable(t) {
            skip!(self);
        }
        let a = self.arena_of(t);
        let mi = self.model_of(t);
        self.last_model = mi;
        let (size, align) = uninit_layout(ty);
        let pred = self.models[mi].predict(size, align);
        let res = util::guarded(|| match ty {
            0 => std::ptr::from_mut(a.alloc_uninit::<u8>()).cast::<u8>(),
            1 => std::ptr::from_mut(a.alloc_uninit::<u64>()).cast::<u8>(),
            2 => std::ptr::from_mut(a.alloc_uninit::<[u8; 100]>()).cast::<u8>(),
            3 => std::ptr::from_mut(a.alloc_uninit::<A64>()).cast::<u8>(),
            4 => std::ptr::from_mut(a.alloc_uninit::<Page>()).cast::<u8>(),
            _ => std::ptr::from_mut(a.alloc_uninit::<[u64; 1024]>()).cast::<u8>(),
        });
        self.stat("op.alloc_uninit");
        match (pred, res) {
            (None, Err(_)) => {
                self.stat("alloc.oversize_refused_by_panic");
                Ok(())
            }
            (None, Ok(_)) => Err(fail("arena|oversize-returned-memory", self.ctx(mi))),
            (Some(_), Err((msg, loc))) => {
                let mut c = self.ctx(mi);
                c["panic"] = json!({"message": msg, "at": loc});
                Err(fail("arena|spurious-failure", c))
            }
            (Some(pred), Ok(ptr)) => {
                let id = self.accept(mi, t, ptr, size, size, align, pred, None, Kind::Raw, "alloc_uninit")?;
                unsafe { model::fill(ptr, 0, size, &table(id)) };
                Ok(())
            }
        }
    }

    fn do_uninit_slice(&mut self, t: Target, count: usize) -> Result<(), Fail> {
        if !self.usable(t) {
            skip!(self);
        }
        let a = self.arena_of(t);
        let mi = self.model_of(t);
        self.last_model = mi;
        let true_bytes = count.checked_mul(8);
        let pred = true_bytes.and_then(|b| self.models[mi].predict(b, 8));
        let res = util::guarded(|| {
            let s = a.alloc_uninit_slice::<u64>(count);
            (s.as_mut_ptr().cast::<u8>(), s.len())
        });
        self.stat("op.alloc_uninit_slice");
        if true_bytes.is_none() {
            self.stat("op.alloc_uninit_slice.count_overflows_usize");
        }
        let mut c = self.ctx(mi);
        c["request"] = json!({"count": count, "element_size": 8});
        match (pred, res) {
            (None, Err(_)) => {
                self.stat("alloc.oversize_refused_by_panic");
                Ok(())
            }
            (None, Ok((ptr, len))) => {
                let (base, _, _, offset) = a.verif_state();
                c["returned"] = json!({"offset": (ptr as usize).wrapping_sub(base), "elements": len});
                c["arena_offset_after"] = json!(offset);
                if true_bytes.is_none() {
                    c["explanation"] = json!("size_of::<T>() * count wrapped around; the returned slice is far larger than the memory behind it");
                    Err(Fail { sig: "arena|alloc_uninit_slice|size-overflow".into(), detail: c, recoverable: true })
                } else if true_bytes.is_some_and(|b| b > isize::MAX as usize) {
                    // no multiplication overflow, but `beg + bytes` (alloc_raw) or the round-up to
                    // the commit granularity (alloc_raw_bump) wrapped around
                    c["explanation"] = json!("the byte size exceeds isize::MAX: the address arithmetic in alloc_raw / alloc_raw_bump wrapped around; the returned slice is far larger than the memory behind it and the arena offset is corrupted (moved backwards or beyond the capacity)");
                    let (_, cap, _, _) = a.verif_state();
                    Err(Fail { sig: "arena|alloc_uninit_slice|end-overflow".into(), detail: c, recoverable: offset <= cap })
                } else {
                    Err(fail("arena|oversize-returned-memory", c))
                }
            }
            (Some(_), Err((msg, loc))) => {
                c["panic"] = json!({"message": msg, "at": loc});
                Err(fail("arena|spurious-failure", c))
            }
            (Some(pred), Ok((ptr, len))) => {
                if len != count {
                    return Err(fail("arena|alloc_uninit_slice|wrong-length", c));
                }
                let size = count * 8;
                let id = self.accept(mi, t, ptr, size, size, 8, pred, None, Kind::Raw, "alloc_uninit_slice")?;
                unsafe { model::fill(ptr, 0, size, &table(id)) };
                self.size_stat(size);
                Ok(())
            }
        }
    }

    /// After a recoverable failure the arena has moved in a way the model did not predict:
    /// adopt the actual offset/commit (the bytes in between are tracked by no block).
    pub fn resync_after_soft_failure(&mut self) -> Result<(), Fail> {
        let mi = self.last_model;
        let a: &Arena = if mi == 0 {
            self.main.as_ref().expect("main")
        } else {
            match self.levels.iter().rposition(|l| l.model == mi) {
                Some(k) => self.arena_of(k as Target),
                None => return Ok(()),
            }
        };
        let (_, cap, commit, offset) = a.verif_state();
        let m = &mut self.models[mi];
        if offset > cap || commit > cap {
            return Err(fail("arena|state-offset", json!({"after": "resync", "offset": offset, "model_offset": m.offset})));
        }
        if offset < m.offset {
            // the offset went backwards: whatever lies above it is up for grabs again
            m.reset(offset);
            if mi == 0 {
                self.marks.retain(|x| *x <= offset);
                if self.marks.is_empty() {
                    self.marks.push(0);
                }
            }
        }
        let m = &mut self.models[mi];
        m.offset = offset;
        m.commit = commit;
        self.sweep_objects();
        self.check_all()
    }

    // ---- containers --------------------------------------------------------

    fn room_ok(&self, mi: usize, need: usize) -> bool {
        let m = &self.models[mi];
        m.room() >= need.saturating_add(64)
    }

    fn do_obj_new(&mut self, t: Target, n: usize, key: Option<u64>, vec64: bool) -> Result<(), Fail> {
        if !self.usable(t) {
            skip!(self);
        }
        let mi = self.model_of(t);
        let bytes = if vec64 { n.saturating_mul(8) } else { n };
        if !self.room_ok(mi, bytes.saturating_add(8)) {
            skip!(self);
        }
        let a = self.arena_of(t);
        self.last_model = mi;
        let kind = if vec64 {
            self.stat("op.vec_u64_with_capacity");
            ObjKind::V64 { v: ManuallyDrop::new(Vec::with_capacity_in(n, a)), twin: Vec::new() }
        } else if let Some(key) = key {
            self.stat("op.str_from_str");
            let text = gen_text(key, n);
            ObjKind::Str { s: ManuallyDrop::new(ArenaString::from_str(a, &text)), twin: text }
        } else {
            self.stat("op.str_with_capacity");
            ObjKind::Str { s: ManuallyDrop::new(ArenaString::with_capacity_in(n, a)), twin: String::new() }
        };
        self.objs.push(Obj { kind, t, model: mi, block: None });
        let o = self.objs.len() - 1;
        self.sync_obj(o)
    }

    /// Pre-conditions shared by the container operations; `add` = bytes about to be appended.
    fn obj_ready(&self, o: usize, want_str: bool, add: usize) -> bool {
        let Some(obj) = self.objs.get(o) else { return false };
        if !obj.alive() || obj.is_str() != want_str || !self.usable(obj.t) {
            return false;
        }
        let (_, cap, _, _) = obj.raw();
        // worst case: amortised doubling into a fresh (moved) buffer
        self.room_ok(obj.model, cap.saturating_add(add).saturating_mul(2).saturating_add(64))
    }

    fn do_str_push(&mut self, o: usize, key: u64, n: usize) -> Result<(), Fail> {
        if !self.obj_ready(o, true, n) {
            skip!(self);
        }
        let text = gen_text(key, n);
        if let ObjKind::Str { s, twin } = &mut self.objs[o].kind {
            s.push_str(&text);
            twin.push_str(&text);
        }
        self.stat("op.str_push_str");
        self.sync_obj(o)
    }

    fn do_str_repeat(&mut self, o: usize, ch: u32, n: usize) -> Result<(), Fail> {
        let Some(ch) = char::from_u32(ch) else { skip!(self) };
        if !self.obj_ready(o, true, ch.len_utf8().saturating_mul(n)) {
            skip!(self);
        }
        if let ObjKind::Str { s, twin } = &mut self.objs[o].kind {
            s.push_repeat(ch, n);
            for _ in 0..n {
                twin.push(ch);
            }
        }
        self.stat(if ch.is_ascii() { "op.str_push_repeat.ascii" } else { "op.str_push_repeat.multibyte" });
        self.sync_obj(o)
    }

    fn do_str_replace(&mut self, o: usize, from: usize, to: usize, key: u64, n: usize) -> Result<(), Fail> {
        if !self.obj_ready(o, true, n) {
            skip!(self);
        }
        let text = gen_text(key, n);
        if let ObjKind::Str { s, twin } = &mut self.objs[o].kind {
            if from > to || to > twin.len() || !twin.is_char_boundary(from) || !twin.is_char_boundary(to) {
                skip!(self);
            }
            s.replace_range(from..to, &text);
            twin.replace_range(from..to, &text);
        }
        self.stat("op.str_replace_range");
        self.sync_obj(o)
    }

    fn do_format(&mut self, t: Target, a_int: i64, key: u64, n: usize) -> Result<(), Fail> {
        if !self.usable(t) {
            skip!(self);
        }
        let mi = self.model_of(t);
        if !self.room_ok(mi, n.saturating_mul(16).saturating_add(1024)) {
            skip!(self);
        }
        let a = self.arena_of(t);
        self.last_model = mi;
        let text = gen_text(key, n);
        let x = a_int as f64 / 7.0;
        let s = arena_format!(a, "{}|{:>12}|{:?}|{:08.3}|{:#x}", a_int, text, text, x, key);
        let twin = format!("{}|{:>12}|{:?}|{:08.3}|{:#x}", a_int, text, text, x, key);
        self.stat("op.arena_format");
        self.objs.push(Obj { kind: ObjKind::Str { s: ManuallyDrop::new(s), twin }, t, model: mi, block: None });
        let o = self.objs.len() - 1;
        // arena_format! grows its buffer several times; being the newest allocation it must have
        // grown in place, so only the final buffer exists for the model.
        self.sync_obj(o)
    }

    fn do_vec_extend(&mut self, o: usize, key: u64, n: usize) -> Result<(), Fail> {
        if !self.obj_ready(o, false, n.saturating_mul(8)) {
            skip!(self);
        }
        if let ObjKind::V64 { v, twin } = &mut self.objs[o].kind {
            for i in 0..n as u64 {
                let x = key.wrapping_mul(0x9E37_79B9_7F4A_7C15).wrapping_add(i.wrapping_mul(0xD6E8_FEB8_6659_FD93));
                v.push(x);
                twin.push(x);
            }
        }
        self.stat("op.vec_u64_extend");
        self.sync_obj(o)
    }

    fn do_obj_shrink(&mut self, o: usize) -> Result<(), Fail> {
        let Some(obj) = self.objs.get(o) else { skip!(self) };
        if !obj.alive() || !self.usable(obj.t) {
            skip!(self);
        }
        let Some(id) = obj.block else { skip!(self) };
        let mi = obj.model;
        let Some(b) = self.models[mi].block(id).cloned() else { skip!(self) };
        // shrink_to_fit on anything but the arena's tail violates the API's own precondition
        if !self.models[mi].is_tail(&b) {
            skip!(self);
        }
        match &mut self.objs[o].kind {
            ObjKind::Str { s, .. } => s.shrink_to_fit(),
            ObjKind::V64 { v, .. } => v.shrink_to_fit(),
            ObjKind::Dead => {}
        }
        self.stat("op.shrink_to_fit_tail");
        self.sync_obj(o)
    }

    /// Brings the model up to date with what a container operation did to the container's
    /// buffer, checking that the arena did the only thing it was allowed to do.
    fn sync_obj(&mut self, o: usize) -> Result<(), Fail> {
        let (ptr, cap, align, _) = self.objs[o].raw();
        let addr = ptr as usize;
        let t = self.objs[o].t;
        let mi = self.objs[o].model;
        self.last_model = mi;
        let old = self.objs[o].block.and_then(|id| self.models[mi].block(id).cloned());
        let base = self.models[mi].base;
        let mut c = self.ctx(mi);
        c["object"] = json!(o);
        c["buffer"] = json!({"offset": addr.wrapping_sub(base), "capacity_bytes": cap});
        match old {
            None => {
                if cap == 0 {
                    return Ok(());
                }
                let Some(pred) = self.models[mi].predict(cap, align) else {
                    return Err(fail("arena|oversize-returned-memory", c));
                };
                let id = self.accept(mi, t, ptr, cap, cap, align, pred, None, Kind::Obj(o), "container")?;
                self.objs[o].block = Some(id);
                self.stat("container.first_buffer");
            }
            Some(b) => {
                let old_addr = base + b.start;
                c["old_buffer"] = json!({"start": b.start, "len": b.len});
                if addr == old_addr && cap == b.len {
                    return Ok(());
                }
                let tail = self.models[mi].is_tail(&b);
                if cap > b.len {
                    if tail {
                        if addr != old_addr {
                            return Err(fail("arena|grow-tail-moved", c));
                        }
                        let Some(pred) = self.models[mi].predict(cap - b.len, 1) else {
                            return Err(fail("arena|oversize-returned-memory", c));
                        };
                        let a = self.arena_of(t);
                        if b.start + cap > a.verif_state().2 {
                            return Err(fail("arena|beyond-commit", c));
                        }
                        if pred.2 {
                            if self.models[mi].commit > 0 {
                                self.flags.commit_cross = true;
                                self.stat("commit.boundary_crossed");
                            }
                            if self.mflags[mi].decommitted {
                                self.flags.recommit_after_decommit = true;
                                self.stat("commit.recommit_after_decommit");
                            }
                        }
                        self.mflags[mi].fresh_reset = false;
                        let m = &mut self.models[mi];
                        m.take(pred.1);
                        m.blocks.iter_mut().find(|x| x.id == b.id).expect("block").len = cap;
                        self.stat("container.grow_in_place");
                    } else {
                        let Some(pred) = self.models[mi].predict(cap, align) else {
                            return Err(fail("arena|oversize-returned-memory", c));
                        };
                        self.accept(mi, t, ptr, cap, cap, align, pred, Some(b.id), Kind::Obj(o), "container grow")?;
                        self.models[mi].remove(b.id);
                        self.stat("container.grow_moved");
                        if self.mflags[mi].reset_seen {
                            self.flags.nontail_grow_after_reset = true;
                            self.stat("op.grow_non_tail_after_reset");
                        }
                    }
                } else {
                    // shrink_to_fit of the tail buffer
                    if !tail {
                        return Err(fail("arena|container-placement", c));
                    }
                    let m = &mut self.models[mi];
                    if cap == 0 {
                        // Vec hands the buffer to `deallocate`, which the arena ignores
                        m.remove(b.id);
                        self.objs[o].block = None;
                    } else {
                        if addr != old_addr {
                            return Err(fail("arena|shrink-moved", c));
                        }
                        m.offset = b.start + cap;
                        let off = m.offset;
                        m.blocks.retain(|x| x.id == b.id || x.end() <= off);
                        m.blocks.iter_mut().find(|x| x.id == b.id).expect("block").len = cap;
                        self.sweep_objects();
                    }
                }
            }
        }
        Ok(())
    }

    // ---- reset / inject / scratch -------------------------------------------

    fn do_reset(&mut self, mark: usize) -> Result<(), Fail> {
        if mark > self.models[0].offset {
            skip!(self);
        }
        let main: &Arena = self.main.as_ref().expect("main");
        let lowered = mark < self.models[0].offset;
        unsafe { main.reset(mark) };
        self.models[0].reset(mark);
        self.marks.retain(|m| *m <= mark);
        if self.marks.is_empty() {
            self.marks.push(0);
        }
        self.sweep_objects();
        self.last_model = 0;
        self.stat("op.reset");
        if lowered {
            self.stat("op.reset.lowered_offset");
            self.mflags[0].reset_seen = true;
            self.mflags[0].fresh_reset = true;
        }
        Ok(())
    }

    fn do_inject(&mut self, t: Target, size: usize, align: usize, via: u8, id: u32) -> Result<(), Fail> {
        if !self.usable(t) || !align.is_power_of_two() {
            skip!(self);
        }
        let a = self.arena_of(t);
        let mi = self.model_of(t);
        self.last_model = mi;
        let mut c = self.ctx(mi);
        c["request"] = json!({"size": size, "align": align, "via": via});
        match via {
            0 => {
                let Ok(layout) = Layout::from_size_align(size, align) else { skip!(self) };
                if !matches!(self.models[mi].predict(size, align), Some((_, _, true))) {
                    skip!(self);
                }
                verif::fail_commit_after(0);
                let res = a.allocate(layout);
                verif::clear_commit_failure();
                self.stat("op.inject_commit_failure.allocate");
                if res.is_ok() {
                    return Err(fail("arena|commit-failure-ignored", c));
                }
            }
            1 => {
                let count = size / 8;
                if !matches!(self.models[mi].predict(count * 8, 8), Some((_, _, true))) {
                    skip!(self);
                }
                verif::fail_commit_after(0);
                let res = util::guarded(|| {
                    let s = a.alloc_uninit_slice::<u64>(count);
                    s.len()
                });
                verif::clear_commit_failure();
                self.stat("op.inject_commit_failure.alloc_uninit_slice");
                if res.is_ok() {
                    return Err(fail("arena|commit-failure-ignored", c));
                }
            }
            _ => {
                let Some((bmi, b)) = self.find_block(id) else { skip!(self) };
                if bmi != mi || b.level != t || b.kind != Kind::Raw || !self.models[mi].is_tail(&b) {
                    skip!(self);
                }
                if !matches!(self.models[mi].predict(size, 1), Some((_, _, true))) {
                    skip!(self);
                }
                let (Ok(old_layout), Ok(new_layout)) = (Layout::from_size_align(b.len, b.align), Layout::from_size_align(b.len + size, b.align)) else { skip!(self) };
                let ptr = NonNull::new(b.ptr).expect("nonnull");
                verif::fail_commit_after(0);
                let res = unsafe { a.grow(ptr, old_layout, new_layout) };
                verif::clear_commit_failure();
                self.stat("op.inject_commit_failure.grow_tail");
                if res.is_ok() {
                    return Err(fail("arena|commit-failure-ignored", c));
                }
            }
        }
        // model unchanged: check_all verifies offset/commit and every live block
        Ok(())
    }

    fn do_push(&mut self, conflict: i32) -> Result<(), Fail> {
        if self.levels.len() >= MAX_DEPTH || conflict >= self.levels.len() as i32 || conflict < -2 {
            skip!(self);
        }
        // which of the two scratch arenas must come back
        let mi = if conflict >= 0 && self.levels[conflict as usize].model == 1 { 2 } else { 1 };
        let sa = match conflict {
            -2 => scratch_arena(None),
            -1 => scratch_arena(Some(self.arena_of(-1))),
            k => scratch_arena(Some(self.arena_of(k))),
        };
        let sa = Box::new(sa);
        let (base, cap, commit, offset) = sa.verif_state();
        self.stat("scratch.push");
        self.stat(match conflict {
            -2 => "scratch.push.conflict_none",
            -1 => "scratch.push.conflict_owned_arena",
            _ => "scratch.push.conflict_scratch",
        });
        let mut c = json!({"op_number": self.opno, "conflict": conflict, "depth": self.levels.len(), "returned": {"base": base, "capacity": cap, "commit": commit, "offset": offset}});
        if conflict >= 0 {
            let cm = self.levels[conflict as usize].model;
            if base == self.models[cm].base {
                self.levels.push(Level { sa: Some(sa), model: cm, mark: offset });
                return Err(fail("arena|scratch-returned-conflicting-arena", c));
            }
        }
        if self.models[mi].base == 0 {
            self.models[mi].base = base;
        }
        let other = if mi == 1 { 2 } else { 1 };
        c["expected_arena"] = json!(self.models[mi].name);
        if base != self.models[mi].base || base == self.models[other].base || base == self.models[0].base {
            // keep the borrow order intact for the unwinding drop
            let actual = if base == self.models[other].base { other } else { mi };
            self.levels.push(Level { sa: Some(sa), model: actual, mark: offset });
            return Err(fail("arena|scratch-flip-flop", c));
        }
        if offset != self.models[mi].offset || commit != self.models[mi].commit || cap != self.models[mi].cap {
            c["model"] = json!({"offset": self.models[mi].offset, "commit": self.models[mi].commit, "capacity": self.models[mi].cap});
            self.levels.push(Level { sa: Some(sa), model: mi, mark: offset });
            return Err(fail("arena|scratch-state", c));
        }
        self.levels.push(Level { sa: Some(sa), model: mi, mark: self.models[mi].offset });
        self.flags.scratch_depth_max = self.flags.scratch_depth_max.max(self.levels.len());
        match self.levels.len() {
            1 => self.stat("scratch.depth.1"),
            2 => self.stat("scratch.depth.2"),
            3 => self.stat("scratch.depth.3"),
            4 => self.stat("scratch.depth.4"),
            5 => self.stat("scratch.depth.5"),
            _ => self.stat("scratch.depth.6"),
        }
        Ok(())
    }

    fn do_pop(&mut self) -> Result<(), Fail> {
        let Some(mut level) = self.levels.pop() else { skip!(self) };
        let k = self.levels.len() as Target;
        for obj in &mut self.objs {
            if obj.alive() && obj.t == k {
                obj.kill();
            }
        }
        let mi = level.model;
        drop(level.sa.take());
        let m = &mut self.models[mi];
        let lowered = level.mark < m.offset;
        m.reset(level.mark);
        // zero-length blocks sitting exactly at the mark belong to the released borrow too
        m.blocks.retain(|b| b.level != k);
        if lowered {
            self.mflags[mi].reset_seen = true;
            self.mflags[mi].fresh_reset = true;
        }
        if self.models[mi].decommit() {
            self.mflags[mi].decommitted = true;
            self.stat("scratch.pop.lowered_commit");
        }
        self.sweep_objects();
        self.last_model = mi;
        self.stat("scratch.pop");
        if !self.models[mi].blocks.is_empty() {
            self.stat("scratch.pop.outer_blocks_rechecked");
        }
        Ok(())
    }

    /// End of history: release all scratch levels innermost-first, final check, hook counters.
    pub fn finish(&mut self) -> Result<(), Fail> {
        while !self.levels.is_empty() {
            self.opno += 1;
            self.last_op = "scratch_pop";
            self.do_pop()?;
            self.check_all()?;
        }
        for mi in 1..3 {
            if self.models[mi].offset != 0 || self.models[mi].commit != 0 {
                return Err(fail("arena|scratch-not-released", self.ctx(mi)));
            }
        }
        let now = verif::counters();
        const WANT: [(&str, &str); 6] = [
            ("arena_reset", "hook.arena_reset"),
            ("arena_commit", "hook.arena_commit"),
            ("arena_decommit", "hook.arena_decommit"),
            ("arena_grow_in_place", "hook.arena_grow_in_place"),
            ("arena_grow_copy", "hook.arena_grow_copy"),
            ("arena_alloc_fail", "hook.arena_alloc_fail"),
        ];
        for (i, name) in verif::COUNTER_NAMES.iter().enumerate() {
            if let Some((_, tag)) = WANT.iter().find(|(n, _)| n == name) {
                let d = now[i].wrapping_sub(self.counters0[i]);
                if d > 0 {
                    *self.stats.entry(tag).or_insert(0) += d;
                }
            }
        }
        Ok(())
    }
}

impl Drop for World {
    fn drop(&mut self) {
        verif::clear_commit_failure();
        // scratch borrows must be released newest-first (the debug wrapper asserts it)
        while let Some(mut l) = self.levels.pop() {
            drop(l.sa.take());
        }
        for obj in &mut self.objs {
            obj.kill();
        }
        drop(self.main.take());
    }
}
