pub mod sem;

use crate::Ctx;

pub fn dispatch(ctx: &mut Ctx) {
    match ctx.engine.as_str() {
        "sem" => sem::run(ctx),
        "gen" => sem::dump(ctx),
        other => {
            eprintln!("unknown engine {other}");
            std::process::exit(2);
        }
    }
}
