pub mod arena;
pub mod pool;
pub mod proccap;
pub mod procspec;
pub mod sem;
pub mod strings;

use crate::Ctx;

pub fn dispatch(ctx: &mut Ctx) {
    match ctx.engine.as_str() {
        "sem" => sem::run(ctx),
        "gen" => sem::dump(ctx),
        "strings" => strings::run(ctx),
        "arena" => arena::run(ctx),
        "pool" => pool::run(ctx),
        "procspec" => procspec::run(ctx),
        "proccap" => proccap::run(ctx),
        other => {
            eprintln!("unknown engine {other}");
            std::process::exit(2);
        }
    }
}
