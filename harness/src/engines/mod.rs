pub mod arena;
pub mod crash;
pub mod front;
pub mod layout;
pub mod limits;
pub mod pool;
pub mod proccap;
pub mod procspec;
pub mod prune;
pub mod reclaim;
pub mod sem;
pub mod ship;
pub mod staticck;
pub mod strings;

use crate::Ctx;

/// Re-runs exactly one recorded case: `nsworker replay --file <replay.json>`.
fn replay(ctx: &mut Ctx) {
    let path = ctx.opt("file").expect("--file").to_string();
    let text = std::fs::read_to_string(&path).expect("replay file");
    let rec: serde_json::Value = serde_json::from_str(&text).expect("replay json");
    let rp = rec.get("replay").unwrap_or(&rec);
    let engine = rp.get("engine").and_then(|v| v.as_str()).expect("engine in replay").to_string();
    let idx = rp.get("idx").and_then(serde_json::Value::as_u64).expect("idx in replay");
    ctx.engine = engine.clone();
    ctx.seed = rp.get("seed").and_then(serde_json::Value::as_u64).unwrap_or(1);
    ctx.shard = 0;
    ctx.nshards = 1;
    ctx.start = idx;
    ctx.count = idx + 1;
    if let Some(o) = rp.get("opts").and_then(|v| v.as_object()) {
        for (k, v) in o {
            let v = v.as_str().map_or_else(|| v.to_string(), str::to_string);
            ctx.opts.insert(k.clone(), v);
        }
    }
    if let Some(src) = rp.get("src").and_then(|v| v.as_str()) {
        println!("--- source of the recorded case ---\n{src}");
    }
    assert_ne!(engine, "replay");
    dispatch(ctx);
}

pub fn dispatch(ctx: &mut Ctx) {
    match ctx.engine.as_str() {
        "replay" => replay(ctx),
        "sem" => sem::run(ctx),
        "gen" => sem::dump(ctx),
        "crash" => crash::run(ctx),
        "front" => front::run(ctx),
        "limits" => limits::run(ctx),
        "ship" => ship::run(ctx),
        "static" => staticck::run(ctx),
        "layout" => layout::run(ctx),
        "reclaim" => reclaim::run(ctx),
        "prune" => prune::run(ctx),
        "strings" => strings::run(ctx),
        "arena" => arena::run(ctx),
        "pool" => pool::run(ctx),
        "procspec" => procspec::run(ctx),
        "proccap" => proccap::run(ctx),
        other => {
            eprintln!("unknown engine {other}");
            std::process::exit(2);
        }
    }
}
