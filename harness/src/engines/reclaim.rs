//! C02: the same program with memory reclamation on (frame arena, pool recycling) and off.
//! On the `asan` build the arena/pool hooks poison reclaimed memory, so a stale access traps
//! at the instruction that makes it (mode asan; with `--quarantine 1` reclaimed memory is
//! never re-issued, which also catches free → re-issue → stale read).

use serde_json::json;

use crate::Ctx;
use crate::model::genp::{self, Profile};
use crate::model::{interp, print};
use crate::pipeline::{self, RunCfg};
use crate::util::{self, Rng};

fn profile_for(ctx: &Ctx, idx: u64) -> Profile {
    match ctx.opt("profile").unwrap_or("memmix") {
        "memmix" => match idx % 10 {
            0..=5 => Profile::Mem,
            6 => Profile::Array,
            7 => Profile::Scope,
            8 => Profile::Core,
            _ => Profile::Dead,
        },
        name => Profile::from_name(name).expect("profile"),
    }
}

pub fn run(ctx: &mut Ctx) {
    let mode = ctx.opt("mode").unwrap_or("diff").to_string();
    if ctx.opt_u64("quarantine", 0) == 1 {
        naijascript::verif::set_quarantine(true);
    }
    for idx in ctx.indices() {
        ctx.out.begin(idx);
        ctx.out.evaluations += 1;
        let profile = profile_for(ctx, idx);
        let mut rng = Rng::new(util::case_seed(ctx.seed, "prog", idx));
        let (mut prog, _gstats) = genp::generate(&mut rng, profile);
        let static_errors = interp::resolve(&mut prog);
        let src = print::to_source(&prog);
        if !static_errors.is_empty() {
            ctx.out.inconclusive(idx, "generator produced a statically invalid program", json!({"src": src}));
            continue;
        }
        // the model only serves as a termination / size filter here
        let model = interp::run(&prog, 300_000);
        if !model.ending.comparable() {
            ctx.out.discarded += 1;
            continue;
        }
        let replay = json!({"engine": "reclaim", "src": src, "mode": mode});
        let on = match util::guarded(|| pipeline::run_source(&src, RunCfg { frame: true, ..RunCfg::default() })) {
            Ok(r) => r,
            Err((msg, loc)) => {
                let sig = format!("panic|{}|{}", util::normalise_msg(&msg), util::panic_site(&loc));
                ctx.out.fail(idx, &sig, json!({"panic": msg, "at": loc, "mode": "reclamation on"}), replay);
                continue;
            }
        };
        if !on.accepted {
            ctx.out.discarded += 1;
            ctx.out.tag("discard.rejected");
            continue;
        }
        if on.ending == "Stack overflow" {
            ctx.out.discarded += 1;
            ctx.out.tag("discard.stack_overflow");
            continue;
        }
        for (k, line) in on.output.iter().enumerate() {
            if std::str::from_utf8(line.as_bytes()).is_err() {
                ctx.out.fail(idx, "invalid-utf8-output", json!({"at": k}), replay.clone());
            }
        }
        let resets = pipeline::counter(&on, "frame_reset_loop") + pipeline::counter(&on, "frame_reset_call");
        let reuse = pipeline::counter(&on, "pool_alloc_reuse");
        let returns = pipeline::counter(&on, "pool_return");
        if mode == "diff" {
            let off = match util::guarded(|| pipeline::run_source(&src, RunCfg { frame: false, ..RunCfg::default() })) {
                Ok(r) => r,
                Err((msg, loc)) => {
                    let sig = format!("panic|{}|{}", util::normalise_msg(&msg), util::panic_site(&loc));
                    ctx.out.fail(idx, &sig, json!({"panic": msg, "at": loc, "mode": "reclamation off"}), replay);
                    continue;
                }
            };
            if off.ending == "Stack overflow" {
                ctx.out.discarded += 1;
                continue;
            }
            if on.output != off.output || on.ending != off.ending {
                let k = on.output.iter().zip(off.output.iter()).position(|(a, b)| a != b).unwrap_or(on.output.len().min(off.output.len()));
                let sig = if on.ending == off.ending { "output-differs".to_string() } else { format!("ending-differs|on={}|off={}", on.ending, off.ending) };
                ctx.out.fail(
                    idx,
                    &sig,
                    json!({"first_difference_at": k, "reclamation_on": on.output.get(k), "reclamation_off": off.output.get(k),
                           "on_len": on.output.len(), "off_len": off.output.len(), "on_ending": on.ending, "off_ending": off.ending}),
                    replay,
                );
                continue;
            }
        }
        ctx.out.tag_n("frame_reset_loop", pipeline::counter(&on, "frame_reset_loop"));
        ctx.out.tag_n("frame_reset_call", pipeline::counter(&on, "frame_reset_call"));
        ctx.out.tag_n("pool_return", returns);
        ctx.out.tag_n("pool_alloc_reuse", reuse);
        ctx.out.tag_n("pool_alloc_virgin", pipeline::counter(&on, "pool_alloc_virgin"));
        ctx.out.tag_n("pool_fallback", pipeline::counter(&on, "pool_fallback"));
        ctx.out.tag_n("promote_copy", pipeline::counter(&on, "promote_copy"));
        ctx.out.tag_n("relocate_string", pipeline::counter(&on, "relocate_string"));
        ctx.out.tag_n("relocate_array", pipeline::counter(&on, "relocate_array"));
        ctx.out.tag_n("outputs_compared", on.output.len() as u64);
        ctx.out.tag(&format!("ending.{}", on.ending));
        let quarantine = ctx.opt_u64("quarantine", 0) == 1;
        let nontrivial = resets >= 1 && returns >= 1 && (reuse >= 1 || quarantine) && model.feat.strings_built > 0;
        if nontrivial {
            ctx.out.nontrivial(util::hash64(src.as_bytes()));
            ctx.out.sample(json!({"src": src, "output": on.output, "frame_resets": resets, "pool_returns": returns, "pool_reuse": reuse}));
        }
    }
}
