//! C14: the shipped pipeline (CLI with shared scratch arenas; playground entry point with
//! re-initialised arenas) against the library pipeline with separate arenas; runs do not
//! influence each other.

use std::io::Write;
use std::process::{Command, Stdio};

use serde_json::json;

use crate::Ctx;
use crate::model::ast::*;
use crate::model::genp::{self, Profile};
use crate::model::{interp, print};
use crate::pipeline::{self, FILE_TOKEN, RunCfg};
use crate::util::{self, Rng};

include!(concat!(env!("OUT_DIR"), "/playground.rs"));

fn program(rng: &mut Rng, idx: u64, allow_unbounded_recursion: bool) -> Option<(String, bool)> {
    let profile = *rng.pick(&[Profile::Core, Profile::Mem, Profile::Mem, Profile::Dead, Profile::Scope, Profile::Array]);
    let (mut prog, _) = genp::generate(rng, profile);
    // every program starts by printing a marker: a rejected text must not print it
    prog.body.stmts.insert(0, shout(plain(&format!("MARK-{idx}"))));
    let mut kind = rng.below(12);
    if kind == 3 && !allow_unbounded_recursion {
        // The playground re-initialises 16 MiB arenas; natively the 4 MiB stack budget (512 KiB on
        // wasm) lets an unbounded recursion exhaust those arenas before the budget trips, which is
        // an artefact of running the wasm wiring natively, not a property of the playground.
        kind = 11;
    }
    match kind {
        0 => {
            let n = prog.body.stmts.len();
            prog.body.stmts.insert(rng.usize(n) + 1, shout(var("zz_not_declared")));
        }
        1 => {
            let n = prog.body.stmts.len();
            prog.body.stmts.insert(rng.usize(n) + 1, Stmt::Raw("make get 1".into()));
        }
        2 => {
            let n = prog.body.stmts.len();
            prog.body.stmts.insert(rng.usize(n) + 1, Stmt::Raw("shout(\"a\\q\" 1.)".into()));
        }
        3 => {
            // deep recursion: ends with the Stack overflow diagnostic
            prog.body.stmts.push(Stmt::Raw("do zz_deep(n) start\nreturn zz_deep(n add 1) add 1\nend\nshout(zz_deep(0))".into()));
        }
        5 => {
            // over an analysis budget (about 4 100 function definitions trip the derived summary bound):
            // the program still runs, with names resolved lexically
            let mut raw = String::from("make zz_x get \"outer\"\ndo zz_show() start\nreturn zz_x\nend\ndo zz_caller() start\nmake zz_x get \"inner\"\nreturn zz_show()\nend\nshout(zz_caller())");
            for k in 0..4200 {
                raw.push_str(&format!("\ndo zz_f{k}() start\nend"));
            }
            prog.body.stmts.push(Stmt::Raw(raw));
        }
        6 | 7 => {
            // a comment block of multi-byte characters that pushes the text past the 8 KiB read size of the
            // CLI's stdin mode, so that characters straddle read boundaries
            let ch = *rng.pick(&["é", "€", "😀", "ß"]);
            let lines = rng.range(2, 6);
            let mut raw = String::new();
            for l in 0..lines {
                if l > 0 {
                    raw.push('\n');
                }
                raw.push('#');
                for _ in 0..rng.range(0, 3) {
                    raw.push('x');
                }
                for _ in 0..rng.range(1500, 4000) {
                    raw.push_str(ch);
                }
            }
            let n = prog.body.stmts.len();
            prog.body.stmts.insert(rng.usize(n) + 1, Stmt::Raw(raw));
        }
        4 => {
            // large allocations: force commit and decommit of the arenas
            prog.body.stmts.push(Stmt::Raw("make zz_big get \"xxxxxxxxxxxxxxxx\"\nmake zz_i get 0\njasi (zz_i small pass 14) start\nzz_big get zz_big add zz_big\nzz_i get zz_i add 1\nend\nshout(zz_big.len())".into()));
        }
        _ => {}
    }
    let _ = interp::resolve(&mut prog);
    let has_raw = kind <= 7;
    if !has_raw {
        let model = interp::run(&prog, 200_000);
        if !model.ending.comparable() {
            return None;
        }
    } else {
        // termination filter on the generated part only
        let mut p2 = prog.clone();
        p2.body.stmts.retain(|s| !matches!(s, Stmt::Raw(_)));
        let model = interp::run(&p2, 200_000);
        if matches!(model.ending, interp::Ending::Fuel) {
            return None;
        }
    }
    Some((print::to_source(&prog), kind == 3))
}

struct CliRun {
    stdout: Vec<u8>,
    stderr: Vec<u8>,
    code: Option<i32>,
    signal: bool,
    hung: bool,
}

/// `kind|frame|frame` of the first AddressSanitizer report on stderr (frames inside the crate).
fn asan_report(stderr: &[u8]) -> Option<String> {
    let text = String::from_utf8_lossy(stderr);
    let at = text.find("ERROR: AddressSanitizer")?;
    let report = &text[at..];
    let kind = report.lines().next().unwrap_or("").trim_start_matches("ERROR: AddressSanitizer:").split_whitespace().next().unwrap_or("?").to_string();
    let mut frames: Vec<String> = Vec::new();
    for line in report.lines().skip(1) {
        let l = line.trim_start();
        if !l.starts_with('#') {
            if !frames.is_empty() && l.is_empty() {
                break;
            }
            continue;
        }
        if let Some(k) = l.find(" in ") {
            let sym = l[k + 4..].split(" /").next().unwrap_or("").trim();
            if (sym.contains("naijascript") || sym.contains("naija::")) && frames.len() < 3 {
                // drop the hash suffix and generic noise
                let sym = sym.split("::h").next().unwrap_or(sym);
                frames.push(sym.chars().take(90).collect());
            }
        }
    }
    Some(format!("{kind}|{}", frames.join("|")))
}

/// `cuts`: byte offsets at which the writer pauses (the text reaches the pipe in several bursts,
/// as from a slow producer); empty = one write.
fn run_cli(naija: &str, args: &[&str], stdin: Option<&str>, cuts: &[usize]) -> std::io::Result<CliRun> {
    let mut cmd = Command::new(naija);
    cmd.args(args).stdout(Stdio::piped()).stderr(Stdio::piped());
    cmd.stdin(if stdin.is_some() { Stdio::piped() } else { Stdio::null() });
    let mut child = cmd.spawn()?;
    if let Some(text) = stdin {
        let mut pipe = child.stdin.take().unwrap();
        let text = text.as_bytes().to_vec();
        let cuts = cuts.to_vec();
        std::thread::spawn(move || {
            let mut at = 0;
            for c in cuts {
                let c = c.min(text.len());
                if c > at {
                    if pipe.write_all(&text[at..c]).is_err() {
                        return;
                    }
                    let _ = pipe.flush();
                    at = c;
                }
                std::thread::sleep(std::time::Duration::from_millis(BURST_PAUSE_MS));
            }
            let _ = pipe.write_all(&text[at..]);
        });
    }
    // both output streams are drained by threads; a run that does not end within the watchdog
    // is killed and reported as a hang (a generated program takes milliseconds)
    use std::io::Read;
    let mut so = child.stdout.take().unwrap();
    let mut se = child.stderr.take().unwrap();
    let t_out = std::thread::spawn(move || {
        let mut v = Vec::new();
        let _ = so.read_to_end(&mut v);
        v
    });
    let t_err = std::thread::spawn(move || {
        let mut v = Vec::new();
        let _ = se.read_to_end(&mut v);
        v
    });
    let t0 = std::time::Instant::now();
    let mut hung = false;
    let status = loop {
        if let Some(st) = child.try_wait()? {
            break st;
        }
        if t0.elapsed().as_secs() >= CLI_WATCHDOG_S {
            hung = true;
            let _ = child.kill();
            break child.wait()?;
        }
        std::thread::sleep(std::time::Duration::from_millis(2));
    };
    let stdout = t_out.join().unwrap_or_default();
    let stderr = t_err.join().unwrap_or_default();
    Ok(CliRun { stdout, stderr, code: status.code(), signal: status.code().is_none() && !hung, hung })
}

const CLI_WATCHDOG_S: u64 = 45;

const BURST_PAUSE_MS: u64 = 120;

/// Texts at the edges of the three input modes, run before the generated ones: the empty program,
/// blank and comment-only texts, a missing final line break, CRLF, a leading byte-order-like blank.
const EDGE_TEXTS: &[&str] = &[
    "",
    " ",
    "\n",
    "\n\n\n",
    "\t",
    "#",
    "# only a comment",
    "# only a comment\n",
    "shout(1)",
    "shout(1)\r\nshout(2)\r\n",
    "shout(\"é\")",
    "   shout(1)   ",
    "\n\nshout(zz_nope)",
    "shout(1 divide 0)",
    "make",
    "\"",
    "é",
    // numbers at the edges of the number formatter, printed directly, nested and interpolated
    "shout(minus 0)",
    "shout(0 times minus 1)",
    "shout((minus 0.4).round())",
    "shout(minus 4 mod 2)",
    "shout(1152921504606846976)",
    "shout(9007199254740993)",
    "shout(2 times 4611686018427387904)",
    "shout(123456789012345678901234567890)",
    "shout(0.1 add 0.2)",
    "shout(1 divide 3)",
    "shout(100 divide 3.0)",
    "shout(5.0)",
    "shout(0.000001 divide 1000000)",
    "shout([minus 0, 1152921504606846976, 0.5])",
    "make x get 0 times minus 1\nshout(\"v={x}\")\nshout(to_string(x))\nshout(x add \"\")",
    "make big get 1152921504606846976\nshout(\"v={big}\")\nshout(to_string(big))",
    // reading input: in stdin mode the script itself has used up the input, in the other modes
    // standard input is empty here; every call sees the end of input
    "shout(read_line(\"\").len())\nshout(\"after\")",
    "make i get 0\njasi (i small pass 3) start\n    make l get read_line(\"\")\n    shout(\"[{l}]\")\n    i get i add 1\nend",
    // child processes: a child that never reads a standard input larger than a pipe buffer, one
    // that exits at once, one that reads everything, output on both streams, a non-zero status
    "make t get \"0123456789abcdef\"\nmake i get 0\njasi (i small pass 14) start\nt get t add t\ni get i add 1\nend\nshout(t.len())\nmake c get command(\"true\")\nc.stdin_text(t)\nmake r get c.run()\nshout(r.success())\nshout(r.exit_code())\nshout(\"done\")",
    "make t get \"0123456789abcdef\"\nmake i get 0\njasi (i small pass 14) start\nt get t add t\ni get i add 1\nend\nmake c get command(\"sh\")\nc.arg(\"-c\")\nc.arg(\"exit 3\")\nc.stdin_text(t)\nmake r get c.run()\nshout(r.exit_code())\nshout(\"done\")",
    "make t get \"0123456789abcdef\"\nmake i get 0\njasi (i small pass 13) start\nt get t add t\ni get i add 1\nend\nmake c get command(\"wc\")\nc.arg(\"-c\")\nc.stdin_text(t)\nc.stdout_capture()\nmake r get c.run()\nshout(r.stdout().trim())\nshout(\"done\")",
    "make c get command(\"sh\")\nc.arg(\"-c\")\nc.arg(\"echo out; echo err 1>&2; exit 7\")\nc.stdout_capture()\nc.stderr_capture()\nmake r get c.run()\nshout(r.stdout())\nshout(r.stderr())\nshout(r.exit_code())\nshout(r.success())",
    "make c get command(\"/nonexistent/program\")\nmake r get c.run()\nshout(\"not reached\")",
];

/// Rejected texts with a chosen number of error diagnostics (the exit status must be non-zero
/// whatever the count is: 255, 256, 257, 512 wrap around a byte).
fn many_errors(idx: u64) -> Option<String> {
    let base = EDGE_TEXTS.len() as u64;
    let counts = [255u64, 256, 257, 512, 65536];
    let k = idx.checked_sub(base)?;
    if k == 2 * counts.len() as u64 {
        // an accepted program with thousands of warnings: printing them must not use up the arena
        let mut s = String::new();
        for i in 0..1500 {
            s.push_str(&format!("make zz_w{i} get {i}\n"));
        }
        s.push_str("shout(\"done\")\n");
        return Some(s);
    }
    let n = *counts.get((k / 2) as usize)?;
    let mut s = String::new();
    if k % 2 == 0 {
        // semantic errors: undeclared variables
        for i in 0..n {
            s.push_str(&format!("shout(zz_v{i})\n"));
        }
    } else {
        // lexical errors: unexpected characters
        for _ in 0..n {
            s.push_str("@\n");
        }
    }
    Some(s)
}

fn stage_cli(ctx: &mut Ctx) {
    let naija = ctx.opt("naija").expect("--naija").to_string();
    let scratch = ctx.opt("scratch").expect("--scratch").to_string();
    for idx in ctx.indices() {
        ctx.out.begin(idx);
        let mut rng = Rng::new(util::case_seed(ctx.seed, "ship", idx));
        let edge = EDGE_TEXTS.get(idx as usize).map(|t| (t.to_string(), false)).or_else(|| many_errors(idx).map(|t| (t, false)));
        let Some((src, deep)) = edge.clone().or_else(|| program(&mut rng, idx, true)) else {
            ctx.out.discarded += 1;
            continue;
        };
        if edge.is_some() {
            ctx.out.tag("edge-text");
        }
        // two in five generated texts use CRLF or a lone CR as their line break (the entry points
        // read bytes; none of them may rewrite the text before the lexer sees it)
        let src = match (edge.is_some(), idx % 5) {
            (false, 2) => {
                ctx.out.tag("line-breaks.crlf");
                src.replace('\n', "\r\n")
            }
            (false, 3) => {
                ctx.out.tag("line-breaks.cr");
                src.replace('\n', "\r")
            }
            _ => src,
        };
        // every fourth text also reaches standard input in bursts, cut anywhere (inside a
        // multi-byte character too)
        let mut cuts: Vec<usize> = Vec::new();
        if idx % 4 == 1 && src.len() >= 2 {
            for _ in 0..rng.range(1, 3) {
                cuts.push(1 + rng.usize(src.len() - 1));
            }
            cuts.sort_unstable();
        }
        let lib = match util::guarded(|| pipeline::run_source(&src, RunCfg { allow_process: true, ..RunCfg::default() })) {
            Ok(r) => r,
            Err((msg, loc)) => {
                let sig = format!("panic|{}|{}", util::normalise_msg(&msg), util::panic_site(&loc));
                ctx.out.fail(idx, &sig, json!({"panic": msg, "at": loc, "where": "library"}), json!({"src": src}));
                continue;
            }
        };
        let expect_ok = lib.accepted && lib.ending == "ok";
        let path = format!("{scratch}/case-{}-{idx}.ns", ctx.shard);
        std::fs::write(&path, &src).expect("write script");
        let mut modes: Vec<(&str, Vec<&str>, Option<&str>, &str)> = vec![
            ("file", vec![path.as_str()], None, path.as_str()),
            ("eval", vec!["--eval", src.as_str()], None, "<eval>"),
            ("stdin", vec!["-"], Some(src.as_str()), "<stdin>"),
        ];
        if !cuts.is_empty() {
            modes.push(("stdin-in-bursts", vec!["-"], Some(src.as_str()), "<stdin>"));
        }
        if idx % 4 == 3 {
            // file mode with a path that is not a regular file: the text arrives through a pipe
            modes.push(("file-dev-stdin", vec!["/dev/stdin"], Some(src.as_str()), "/dev/stdin"));
        }
        if src.len() > 120_000 {
            // one argument may not exceed 128 KiB on Linux
            modes.retain(|m| m.0 != "eval");
            ctx.out.tag("eval-skipped.argument-too-long");
        }
        let mut all_ok = true;
        for (mode, args, stdin, fname) in modes {
            // the deep-recursion programs differ legitimately in how far they get before the
            // stack budget trips only if the budget is measured from different bases; compare them too
            ctx.out.evaluations += 1;
            let replay = json!({"src": src, "mode": mode, "cuts": cuts});
            let run = match run_cli(&naija, &args, stdin, if mode == "stdin-in-bursts" { &cuts } else { &[] }) {
                Ok(r) => r,
                Err(e) => {
                    ctx.out.inconclusive(idx, "could not run the CLI", json!({"error": e.to_string()}));
                    all_ok = false;
                    continue;
                }
            };
            if run.hung {
                ctx.out.fail(idx, &format!("cli-hang|{mode}"), json!({"watchdog_s": CLI_WATCHDOG_S, "stdout_head": String::from_utf8_lossy(&run.stdout).chars().take(300).collect::<String>()}), replay);
                all_ok = false;
                continue;
            }
            if let Some(sig) = asan_report(&run.stderr) {
                ctx.out.fail(idx, &format!("cli-asan|{sig}"), json!({"mode": mode, "report_head": String::from_utf8_lossy(&run.stderr).chars().take(1500).collect::<String>()}), replay);
                all_ok = false;
                continue;
            }
            if run.signal {
                ctx.out.fail(idx, &format!("cli-died-on-signal|{mode}"), json!({"src": src}), replay);
                all_ok = false;
                continue;
            }
            let mut expected = lib.expected_stdout.replace(FILE_TOKEN, fname);
            let mut run = run;
            if lib.ending == "Stack overflow" {
                // Which expression of the recursion cycle trips the native-stack budget depends on
                // frame sizes (build profile): compare everything before the runtime diagnostic and
                // require the diagnostic itself.
                let got = String::from_utf8_lossy(&run.stdout).to_string();
                if !got.contains("Stack overflow") {
                    ctx.out.fail(idx, &format!("stack-overflow-not-reported|{mode}"), json!({}), replay);
                    all_ok = false;
                    continue;
                }
                run.stdout = cut_runtime_error(&got).into_bytes();
                expected = cut_runtime_error(&expected);
            }
            if run.stdout != expected.as_bytes() {
                let got = String::from_utf8_lossy(&run.stdout).to_string();
                let k = got.bytes().zip(expected.bytes()).position(|(a, b)| a != b).unwrap_or(got.len().min(expected.len()));
                let ctxt = |s: &str| s.chars().skip(k.saturating_sub(60)).take(160).collect::<String>();
                let kind = if !lib.accepted { "rejected-program" } else if lib.ending != "ok" { "runtime-error" } else { "ok-program" };
                ctx.out.fail(
                    idx,
                    &format!("stdout-differs|{mode}|{kind}"),
                    json!({"first_difference_at": k, "cli": ctxt(&got), "library": ctxt(&expected), "cli_len": got.len(), "library_len": expected.len(), "deep": deep}),
                    replay,
                );
                all_ok = false;
                continue;
            }
            let code_ok = if expect_ok { run.code == Some(0) } else { run.code.is_some_and(|c| c != 0) };
            if !code_ok {
                ctx.out.fail(idx, &format!("exit-status|{mode}|expected-{}", if expect_ok { "zero" } else { "nonzero" }), json!({"code": run.code, "ending": lib.ending, "accepted": lib.accepted}), replay);
                all_ok = false;
                continue;
            }
            if !lib.accepted && String::from_utf8_lossy(&run.stdout).lines().any(|l| l == format!("MARK-{idx}")) {
                ctx.out.fail(idx, &format!("rejected-text-was-executed|{mode}"), json!({}), replay);
                all_ok = false;
            }
            ctx.out.tag(&format!("mode.{mode}"));
        }
        let _ = std::fs::remove_file(&path);
        if !all_ok {
            continue;
        }
        ctx.out.tag(if !lib.accepted { "kind.rejected" } else if lib.ending != "ok" { "kind.runtime-error" } else { "kind.ok" });
        ctx.out.tag(&format!("ending.{}", lib.ending));
        if !lib.warnings.is_empty() {
            ctx.out.tag("with-warnings");
        }
        let resets = pipeline::counter(&lib, "frame_reset_loop") + pipeline::counter(&lib, "frame_reset_call");
        if (resets >= 1 && lib.output.len() >= 2) || !lib.accepted {
            ctx.out.nontrivial(util::hash64(src.as_bytes()));
            if idx % 40 == 0 {
                ctx.out.sample(json!({"src": src, "ending": lib.ending, "accepted": lib.accepted, "stdout_bytes": lib.expected_stdout.len()}));
            }
        }
    }
}

/// Text before the runtime error diagnostic.
fn cut_runtime_error(s: &str) -> String {
    match s.find("error[runtime]") {
        Some(k) => s[..k].to_string(),
        None => s.to_string(),
    }
}

fn normalise_overflow(s: String) -> String {
    if s.contains("Stack overflow") { cut_runtime_error(&s) } else { s }
}

/// `nsworker ship --stage one --file F`: runs one script through the derived playground entry
/// point in a fresh process and prints the result between markers.
fn stage_one(ctx: &mut Ctx) {
    let path = ctx.opt("file").expect("--file").to_string();
    let src = std::fs::read_to_string(&path).expect("read");
    let first = normalise_overflow(derived::run_source(&src, "play.ns"));
    let second = normalise_overflow(derived::run_source(&src, "play.ns"));
    ctx.out.record(&json!({"first": first, "second": second}));
}

/// Err(true) = the fresh process ran out of arena memory (resource outcome), Err(false) = it died otherwise.
fn fresh(worker: &str, path: &str) -> Result<(String, String), bool> {
    let out = Command::new(worker).args(["ship", "--stage", "one", "--file", path]).stdin(Stdio::null()).stderr(Stdio::piped()).output().map_err(|_| false)?;
    if !out.status.success() {
        let err = String::from_utf8_lossy(&out.stderr);
        return Err(err.contains("memory allocation of") && err.contains("failed"));
    }
    fresh_parse(&out.stdout).ok_or(false)
}

fn fresh_parse(stdout: &[u8]) -> Option<(String, String)> {
    let out = stdout;
    for line in String::from_utf8_lossy(out).lines() {
        if let Some(body) = line.strip_prefix("R ") {
            let v: serde_json::Value = serde_json::from_str(body).ok()?;
            return Some((v["first"].as_str()?.to_string(), v["second"].as_str()?.to_string()));
        }
    }
    None
}

fn stage_playground(ctx: &mut Ctx) {
    let scratch = ctx.opt("scratch").expect("--scratch").to_string();
    let worker = std::env::current_exe().expect("exe").to_string_lossy().to_string();
    for idx in ctx.indices() {
        ctx.out.begin(idx);
        let mut rng = Rng::new(util::case_seed(ctx.seed, "play", idx));
        let n = rng.range(2, 8) as usize;
        let mut progs: Vec<String> = Vec::new();
        let mut tries = 0;
        while progs.len() < n && tries < 40 {
            tries += 1;
            if let Some((src, _)) = program(&mut rng, idx * 100 + progs.len() as u64, false) {
                progs.push(src);
            }
        }
        // a script may appear twice in a sequence
        if progs.len() >= 2 && rng.chance(1, 2) {
            let k = rng.usize(progs.len());
            let dup = progs[k].clone();
            progs.push(dup);
        }
        // alone, each in a fresh process (and twice there)
        let mut alone: Vec<String> = Vec::new();
        let mut dropped: Vec<usize> = Vec::new();
        let mut ok = true;
        for (k, src) in progs.iter().enumerate() {
            let path = format!("{scratch}/play-{}-{idx}-{k}.ns", ctx.shard);
            std::fs::write(&path, src).expect("write");
            let r = fresh(&worker, &path);
            let _ = std::fs::remove_file(&path);
            match r {
                Ok((a, b)) => {
                    ctx.out.evaluations += 1;
                    if a != b {
                        ctx.out.fail(idx, "second-run-differs|fresh-process", json!({"k": k, "first": a.chars().take(400).collect::<String>(), "second": b.chars().take(400).collect::<String>()}), json!({"src": src}));
                        ok = false;
                    }
                    alone.push(a);
                }
                Err(true) => {
                    // this script alone exhausts the playground's 16 MiB arenas (a resource outcome):
                    // it is left out of the sequence
                    ctx.out.tag("script-exhausts-playground-arenas-alone");
                    dropped.push(k);
                    alone.push(String::new());
                }
                Err(false) => {
                    // the fresh process died: that is a finding of its own
                    ctx.out.fail(idx, "playground-process-died", json!({"k": k}), json!({"src": src}));
                    ok = false;
                    alone.push(String::new());
                }
            }
        }
        if !ok {
            continue;
        }
        // back to back in this process
        let mut failing_then_passing = false;
        let mut prev_failed = false;
        for (k, src) in progs.iter().enumerate() {
            if dropped.contains(&k) {
                continue;
            }
            ctx.out.evaluations += 1;
            let got = match util::guarded(|| derived::run_source(src, "play.ns")) {
                Ok(s) => normalise_overflow(s),
                Err((msg, loc)) => {
                    let sig = format!("panic|{}|{}", util::normalise_msg(&msg), util::panic_site(&loc));
                    ctx.out.fail(idx, &sig, json!({"panic": msg, "at": loc, "position_in_sequence": k}), json!({"sequence": progs}));
                    ok = false;
                    break;
                }
            };
            if got != alone[k] {
                let j = got.bytes().zip(alone[k].bytes()).position(|(a, b)| a != b).unwrap_or(got.len().min(alone[k].len()));
                let c = |s: &str| s.chars().skip(j.saturating_sub(60)).take(200).collect::<String>();
                ctx.out.fail(idx, "sequence-differs-from-alone", json!({"position_in_sequence": k, "in_sequence": c(&got), "alone": c(&alone[k]), "first_difference_at": j}), json!({"sequence": progs}));
                ok = false;
                break;
            }
            let failed = got.contains("error[");
            if prev_failed && !failed {
                failing_then_passing = true;
            }
            prev_failed = failed;
        }
        if !ok {
            continue;
        }
        ctx.out.tag_n("sequence_elements", progs.len() as u64);
        if failing_then_passing {
            ctx.out.tag("failing-then-passing");
            ctx.out.nontrivial(util::hash64(progs.join("\u{0}").as_bytes()));
            if idx % 20 == 0 {
                ctx.out.sample(json!({"sequence": progs.iter().map(|p| p.chars().take(300).collect::<String>()).collect::<Vec<_>>()}));
            }
        }
    }
}

pub fn run(ctx: &mut Ctx) {
    match ctx.opt("stage").unwrap_or("cli") {
        "cli" => stage_cli(ctx),
        "one" => stage_one(ctx),
        _ => stage_playground(ctx),
    }
}
