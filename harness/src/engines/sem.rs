//! C01 / C04 / C05: generated programs, real pipeline versus the reference interpreter.

use serde_json::json;

use crate::Ctx;
use crate::model::genp::{self, Profile};
use crate::model::{interp, print};
use crate::pipeline::{self, RunCfg};
use crate::util::{self, Rng};

pub fn profile_for(ctx: &Ctx, idx: u64) -> Profile {
    match ctx.opt("profile").unwrap_or("mix") {
        "mix" => match idx % 10 {
            0..=3 => Profile::Core,
            4 | 5 => Profile::Scope,
            6 | 7 => Profile::Array,
            8 => Profile::Mem,
            _ => Profile::Dead,
        },
        name => Profile::from_name(name).expect("profile"),
    }
}

/// Prints generated programs (debugging aid): `nsworker gen --count 3 --profile scope --keep-stdout 1`.
pub fn dump(ctx: &mut Ctx) {
    for idx in ctx.indices() {
        let profile = profile_for(ctx, idx);
        let mut rng = Rng::new(util::case_seed(ctx.seed, "prog", idx));
        let (mut prog, _) = genp::generate(&mut rng, profile);
        let errs = interp::resolve(&mut prog);
        let src = print::to_source(&prog);
        let model = interp::run(&prog, 200_000);
        println!("### case {idx} profile {profile:?} static_errors={errs:?}\n{src}### model: {:?} {:?}\n", model.ending, model.output);
    }
}

pub fn run(ctx: &mut Ctx) {
    let prop = ctx.opt("prop").unwrap_or("C01").to_string();
    for idx in ctx.indices() {
        ctx.out.begin(idx);
        ctx.out.evaluations += 1;
        let profile = profile_for(ctx, idx);
        let mut rng = Rng::new(util::case_seed(ctx.seed, "prog", idx));
        let (mut prog, gstats) = genp::generate(&mut rng, profile);
        let static_errors = interp::resolve(&mut prog);
        let src = print::to_source(&prog);
        if !static_errors.is_empty() {
            // generator bug: must never happen; treated as a broken case, not as a verdict
            ctx.out.inconclusive(idx, "generator produced a statically invalid program", json!({"errors": format!("{static_errors:?}"), "src": src}));
            continue;
        }
        let model = interp::run(&prog, 300_000);
        if !model.ending.comparable() {
            ctx.out.discarded += 1;
            ctx.out.tag(&format!("discard.{}", model.ending.name()));
            if let interp::Ending::Stuck(why) = &model.ending {
                ctx.out.tag(&format!("stuck.{why}"));
            }
            continue;
        }
        let replay = json!({"engine": "sem", "src": src, "profile": format!("{profile:?}")});
        let real = match util::guarded(|| pipeline::run_source(&src, RunCfg::default())) {
            Ok(r) => r,
            Err((msg, loc)) => {
                let sig = format!("panic|{}|{}", util::normalise_msg(&msg), util::panic_site(&loc));
                ctx.out.fail(idx, &sig, json!({"panic": msg, "at": loc, "model_ending": model.ending.name()}), replay);
                continue;
            }
        };
        if !real.accepted {
            let first = real.parse.iter().chain(real.sem.iter()).find(|d| d.severity == "error" || d.code == "syntax" || d.code == "lexical");
            let what = first.map_or("?".to_string(), |d| format!("{}:{}", d.code, d.message));
            ctx.out.fail(idx, &format!("rejected|{what}"), json!({"diagnostics": format!("{:?}", real.parse.iter().chain(real.sem.iter()).collect::<Vec<_>>())}), replay);
            continue;
        }
        let ending_ok = real.ending == model.ending.name();
        if real.output != model.output || !ending_ok {
            let k = real.output.iter().zip(model.output.iter()).position(|(a, b)| a != b).unwrap_or(real.output.len().min(model.output.len()));
            let sig = if ending_ok { "output".to_string() } else { format!("ending|real={}|model={}", real.ending, model.ending.name()) };
            ctx.out.fail(
                idx,
                &sig,
                json!({
                    "first_difference_at": k,
                    "real": real.output.get(k),
                    "model": model.output.get(k),
                    "real_len": real.output.len(),
                    "model_len": model.output.len(),
                    "real_ending": real.ending,
                    "model_ending": model.ending.name(),
                }),
                replay,
            );
            continue;
        }

        // coverage accounting
        let f = &model.feat;
        let mut tags: Vec<&str> = Vec::new();
        if f.breaks + f.continues > 0 { tags.push("loop_control"); }
        if f.calls > 0 { tags.push("user_function"); }
        if f.max_same_fn_depth >= 2 { tags.push("recursion"); }
        if f.interp > 0 { tags.push("interpolation"); }
        if f.methods > 0 { tags.push("method"); }
        if f.index_writes > 0 { tags.push("index_write"); }
        if f.short_circuits > 0 { tags.push("short_circuit"); }
        if model.ending != interp::Ending::Ok { tags.push("error_ending"); }
        if f.captures_read + f.captures_written > 0 { tags.push("capture"); }
        if gstats.shadowings > 0 { tags.push("shadowing"); }
        if f.array_mutations > 0 && gstats.array_copies > 0 { tags.push("array_copy_then_mutation"); }
        for t in &tags {
            ctx.out.tag(&format!("feature.{t}"));
        }
        ctx.out.tag(&format!("ending.{}", model.ending.name()));
        ctx.out.tag(&format!("profile.{profile:?}"));
        ctx.out.tag_n("outputs_compared", model.output.len() as u64);
        ctx.out.tag_n("frame_resets", pipeline::counter(&real, "frame_reset_loop") + pipeline::counter(&real, "frame_reset_call"));
        let nontrivial = match prop.as_str() {
            "C04" => gstats.shadowings > 0 && f.captures_read + f.captures_written > 0 && f.calls >= 2,
            "C05" => f.array_mutations > 0 && gstats.array_copies > 0,
            _ => tags.len() >= 3,
        };
        if nontrivial {
            ctx.out.nontrivial(util::hash64(src.as_bytes()));
            ctx.out.sample(json!({"src": src, "output": model.output, "ending": model.ending.name()}));
        }
    }
}
