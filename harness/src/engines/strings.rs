//! Engine `strings` (stub).
use crate::Ctx;

pub fn run(ctx: &mut Ctx) {
    let _ = ctx;
    eprintln!("engine strings not implemented");
    std::process::exit(2);
}
