//! Engine `strings` (C13): the string built-ins against independent re-implementations on `std`.
//!
//! Stages (option `--stage`):
//!   exhaustive  every needle of length 0..=6 x every haystack of length 0..=10 over {a,b} and
//!               over {a,é}; find, replace (5 replacements), split+join. One case = one haystack.
//!   tiers       needle-length tiers 1 / 2 / 3..=16 / 17..=64, periodic / near-periodic /
//!               Fibonacci / all-same / random needles inserted at every position of a filler.
//!   split       split then join, separators of 1..=20 bytes at start / end / adjacent.
//!   slice       slice over the bound grid x strings with 1..4-byte characters; len.
//!   text        trim / to_uppercase / to_lowercase / to_number / len on a mixed alphabet.
//!   script      a sample of every class through lexer + parser + checker + runtime.
//!   replay      re-runs one recorded evaluation (`--file replay.json`) and prints both sides.
//!
//! The oracle never calls into naijascript. A difference is reported with a signature that
//! names the operation, the kind of disagreement and the needle-length tier.

use std::collections::HashMap;
use std::io::Write;

use naijascript::arena::{Arena, ArenaCow};
use naijascript::builtins::{ArrayBuiltin, StringBuiltin, find, replace};
use naijascript::runtime::Value;
use serde_json::{Value as J, json};

use crate::Ctx;
use crate::model::print::escape_plain;
use crate::pipeline::{self, RunCfg};
use crate::util::{self, Proto, Rng};

pub const EXH_MAX_HAY: usize = 10;
pub const EXH_MAX_NEEDLE: usize = 6;
/// haystacks of length 0..=10 over a two-letter alphabet
pub const EXH_HAYSTACKS: u64 = (1 << (EXH_MAX_HAY + 1)) - 1;
pub const EXH_NEEDLES: u64 = (1 << (EXH_MAX_NEEDLE + 1)) - 1;
/// two alphabets
pub const EXH_CASES: u64 = 2 * EXH_HAYSTACKS;

const MAX_FAILS_PER_SIG: u32 = 3;
const MAX_DEATHS_PER_SHARD: u64 = 2;
const ARENA_BYTES: usize = 16 << 20;

// ---------------------------------------------------------------------------
// Oracles (std only)
// ---------------------------------------------------------------------------

fn naive_find(h: &[u8], n: &[u8]) -> Option<usize> {
    if n.is_empty() {
        return Some(0);
    }
    if n.len() > h.len() {
        return None;
    }
    (0..=h.len() - n.len()).find(|&i| &h[i..i + n.len()] == n)
}

/// Some window of `h` differs from `n` in exactly one byte.
fn has_near_miss(h: &[u8], n: &[u8]) -> bool {
    if n.is_empty() || n.len() > h.len() {
        return false;
    }
    (0..=h.len() - n.len()).any(|i| {
        let mut d = 0;
        for k in 0..n.len() {
            if h[i + k] != n[k] {
                d += 1;
                if d > 1 {
                    return false;
                }
            }
        }
        d == 1
    })
}

/// Left-to-right, non-overlapping substitution written out by hand.
fn oracle_replace(h: &str, from: &str, to: &str) -> String {
    let mut out = String::with_capacity(h.len());
    if from.is_empty() {
        // the empty string occurs once at every character boundary
        out.push_str(to);
        for ch in h.chars() {
            out.push(ch);
            out.push_str(to);
        }
        return out;
    }
    let mut pos = 0;
    while let Some(i) = naive_find(&h.as_bytes()[pos..], from.as_bytes()) {
        out.push_str(&h[pos..pos + i]);
        out.push_str(to);
        pos += i + from.len();
    }
    out.push_str(&h[pos..]);
    out
}

const BIG: i128 = 1 << 100;

/// A slice bound as a character position: floored, negative counted from the end, clamped.
fn oracle_bound(x: f64, len: i128) -> i128 {
    let f = x.floor();
    let mut v: i128 = if f >= 1e30 {
        BIG
    } else if f <= -1e30 {
        -BIG
    } else {
        f as i128
    };
    if v < 0 {
        v += len;
    }
    v.clamp(0, len)
}

fn oracle_slice(s: &str, a: f64, b: f64) -> String {
    let chars: Vec<char> = s.chars().collect();
    let len = chars.len() as i128;
    let (i, j) = (oracle_bound(a, len), oracle_bound(b, len));
    if i < j { chars[i as usize..j as usize].iter().collect() } else { String::new() }
}

/// Characters = bytes that are not UTF-8 continuation bytes.
fn oracle_len(s: &str) -> f64 {
    s.bytes().filter(|b| b & 0xC0 != 0x80).count() as f64
}

fn oracle_trim(s: &str) -> String {
    let cs: Vec<char> = s.chars().collect();
    let mut i = 0;
    while i < cs.len() && cs[i].is_whitespace() {
        i += 1;
    }
    let mut j = cs.len();
    while j > i && cs[j - 1].is_whitespace() {
        j -= 1;
    }
    cs[i..j].iter().collect()
}

fn bound_class(x: f64, len: usize) -> &'static str {
    if x.is_nan() {
        "nan"
    } else if x.is_infinite() {
        if x > 0.0 { "+inf" } else { "-inf" }
    } else if x.abs() >= 9.2e18 {
        if x > 0.0 { "+huge" } else { "-huge" }
    } else if x.fract() != 0.0 {
        if x < 0.0 { "neg-frac" } else { "frac" }
    } else if x < 0.0 {
        if -x > len as f64 { "neg-oor" } else { "neg" }
    } else if x > len as f64 {
        "oor"
    } else {
        "plain"
    }
}

fn tier(nlen: usize) -> usize {
    match nlen {
        0 => 0,
        1 => 1,
        2 => 2,
        3..=16 => 3,
        17..=64 => 4,
        _ => 5,
    }
}
const TIER_NAMES: [&str; 6] = ["0", "1", "2", "3..16", "17..64", "65.."];

fn hash_parts(parts: &[&[u8]]) -> u64 {
    let mut h: u64 = 0xCBF2_9CE4_8422_2325;
    for p in parts {
        for b in *p {
            h ^= u64::from(*b);
            h = h.wrapping_mul(0x100_0000_01B3);
        }
        h ^= 0xFF;
        h = h.wrapping_mul(0x100_0000_01B3);
    }
    let mut x = h;
    util::splitmix64(&mut x)
}

fn clip(s: &str) -> String {
    if s.len() <= 400 { s.to_string() } else { format!("{}… ({} bytes)", s.chars().take(200).collect::<String>(), s.len()) }
}

fn lossy(b: &[u8]) -> String {
    format!("{:?} (raw bytes {:02x?})", String::from_utf8_lossy(b), &b[..b.len().min(64)])
}

#[derive(Clone, Copy, PartialEq)]
enum Near {
    /// not a near-miss by construction and not worth computing
    No,
    /// a copy of the needle with one byte changed was planted
    Planted,
    /// decide by scanning (small inputs)
    Compute,
}

// ---------------------------------------------------------------------------
// Checker state
// ---------------------------------------------------------------------------

struct St<'p> {
    out: &'p mut Proto,
    idx: u64,
    stage: String,
    sig_seen: HashMap<String, u32>,
    trace: Option<std::fs::File>,
    tier_evals: [u64; 6],
    tier_nt: [u64; 6],
    flip: bool,
    /// small batches (Miri)
    lite: bool,
    /// exhaustive stage: case i runs haystack (i * pick_every) mod EXH_CASES
    pick_every: u64,
}

impl St<'_> {
    fn fail(&mut self, sig: String, detail: J, replay: J) {
        let c = self.sig_seen.entry(sig.clone()).or_insert(0);
        *c += 1;
        if *c <= MAX_FAILS_PER_SIG {
            let mut replay = replay;
            replay["engine"] = json!("strings");
            replay["stage"] = json!(self.stage);
            self.out.fail(self.idx, &sig, detail, replay);
        } else {
            self.out.tag("failures_not_written_out.same_signature_seen_before");
        }
    }

    fn panic_fail(&mut self, op: &str, msg: &str, loc: &str, replay: J) {
        let sig = format!("panic|{}|{}", util::normalise_msg(msg), util::panic_site(loc));
        self.fail(sig, json!({"op": op, "panic": msg, "at": loc}), replay);
    }

    fn trace(&mut self, op: &str, a: &str, b: &str, c: &str) {
        if let Some(f) = self.trace.as_mut() {
            let _ = writeln!(f, "{}", json!({"op": op, "a": a, "b": b, "c": c, "needle_tier": TIER_NAMES[tier(b.len())]}));
        }
    }

    fn flush_tiers(&mut self) {
        for t in 0..6 {
            self.out.tag_n(&format!("tier.{}", TIER_NAMES[t]), self.tier_evals[t]);
            self.out.tag_n(&format!("tier.{}.nontrivial", TIER_NAMES[t]), self.tier_nt[t]);
        }
        self.tier_evals = [0; 6];
        self.tier_nt = [0; 6];
    }

    // ---- find ----

    /// Returns the oracle's answer.
    fn check_find(&mut self, h: &str, n: &str, near: Near) -> Option<usize> {
        self.out.evaluations += 1;
        let t = tier(n.len());
        self.tier_evals[t] += 1;
        self.trace("find", h, n, "");
        let exp = naive_find(h.as_bytes(), n.as_bytes());
        let exp_std = h.find(n);
        let replay = || json!({"op": "find", "h": h, "n": n});
        if exp != exp_std {
            self.out.inconclusive(self.idx, "oracles disagree (naive scan vs str::find)", json!({"h": clip(h), "n": clip(n), "naive": exp, "std": exp_std}));
            return exp_std;
        }
        match util::guarded(|| (find(h, n), StringBuiltin::find(h, n))) {
            Err((msg, loc)) => self.panic_fail("find", &msg, &loc, replay()),
            Ok((got, got_f)) => {
                if got != exp {
                    let kind = match (got, exp) {
                        (None, Some(_)) => "missed-occurrence",
                        (Some(_), None) => "spurious-match",
                        (Some(g), Some(e)) if g > e => {
                            if h.as_bytes().get(g..g + n.len()) == Some(n.as_bytes()) { "not-first-occurrence" } else { "wrong-offset" }
                        }
                        _ => "wrong-offset",
                    };
                    self.fail(
                        format!("find|{kind}|needle={}", TIER_NAMES[t]),
                        json!({"haystack": clip(h), "needle": clip(n), "haystack_bytes": h.len(), "needle_bytes": n.len(), "expected": exp, "got": got}),
                        replay(),
                    );
                } else {
                    #[allow(clippy::cast_precision_loss)]
                    let want_f = exp.map_or(-1.0, |v| v as f64);
                    if got_f != want_f {
                        self.fail("find|method-result-differs-from-search".into(), json!({"haystack": clip(h), "needle": clip(n), "expected": want_f, "got": got_f}), replay());
                    }
                    if let Some(o) = got
                        && !h.is_char_boundary(o)
                    {
                        self.fail("find|offset-not-char-boundary".into(), json!({"haystack": clip(h), "needle": clip(n), "got": o}), replay());
                    }
                }
            }
        }
        let nt = match exp {
            Some(i) => i > 0,
            None => match near {
                Near::Planted => true,
                Near::Compute => has_near_miss(h.as_bytes(), n.as_bytes()),
                Near::No => false,
            },
        };
        if nt {
            self.tier_nt[t] += 1;
            self.out.nontrivial(hash_parts(&[b"find", h.as_bytes(), n.as_bytes()]));
            if self.out.samples.len() < self.out.max_samples && (self.idx + h.len() as u64) % 7 == 0 && n.len() >= 2 {
                self.out.sample(json!({"op": "find", "haystack": clip(h), "needle": clip(n), "expected": exp, "near_miss": exp.is_none()}));
            }
        }
        exp
    }

    // ---- replace ----

    fn check_replace(&mut self, arena: &Arena, h: &str, n: &str, to: &str) {
        self.out.evaluations += 1;
        self.trace("replace", h, n, to);
        let exp = oracle_replace(h, n, to);
        let exp_std = h.replace(n, to);
        if exp != exp_std {
            self.out.inconclusive(self.idx, "oracles disagree (hand-written replace vs str::replace)", json!({"h": clip(h), "n": clip(n), "to": to}));
            return;
        }
        self.flip = !self.flip;
        let direct = self.flip;
        let r = util::guarded(|| {
            let out = if direct { replace(arena, h, n, to) } else { StringBuiltin::replace(h, n, to, arena) };
            let bytes = out.as_bytes();
            match std::str::from_utf8(bytes) {
                Err(_) => Some(Err(bytes.to_vec())),
                Ok(s) if s != exp => Some(Ok(s.to_string())),
                Ok(_) => None,
            }
        });
        unsafe { arena.reset(0) };
        let replay = || json!({"op": "replace", "h": h, "n": n, "to": to});
        let t = TIER_NAMES[tier(n.len())];
        match r {
            Err((msg, loc)) => self.panic_fail("replace", &msg, &loc, replay()),
            Ok(None) => {}
            Ok(Some(Err(bytes))) => self.fail("replace|invalid-utf8".to_string(), json!({"haystack": clip(h), "pattern": clip(n), "replacement": to, "got": lossy(&bytes)}), replay()),
            Ok(Some(Ok(got))) => self.fail(
                format!("replace|differs|needle={t}"),
                json!({"haystack": clip(h), "pattern": clip(n), "replacement": clip(to), "expected": clip(&exp), "got": clip(&got)}),
                replay(),
            ),
        }
    }

    // ---- split / join ----

    fn check_split_join(&mut self, arena: &Arena, h: &str, sep: &str) {
        if sep.is_empty() {
            return; // not part of the property
        }
        self.out.evaluations += 1;
        self.trace("split_join", h, sep, "");
        #[derive(Debug)]
        enum Bad {
            PieceHasSep(String),
            PieceUtf8(Vec<u8>),
            JoinUtf8(Vec<u8>),
            NotIdentity(String, usize),
        }
        let r = util::guarded(|| {
            let mut coll: Vec<Value<'_>, &Arena> = Vec::with_capacity_in(h.len() / sep.len().max(1) + 1, arena);
            StringBuiltin::split(h, sep, arena).for_each(|s| coll.push(Value::Str(ArenaCow::Owned(s))));
            for v in &coll {
                let Value::Str(ArenaCow::Owned(p)) = v else { unreachable!() };
                let Ok(ps) = std::str::from_utf8(p.as_bytes()) else {
                    return Some(Bad::PieceUtf8(p.as_bytes().to_vec()));
                };
                if naive_find(ps.as_bytes(), sep.as_bytes()).is_some() {
                    return Some(Bad::PieceHasSep(ps.to_string()));
                }
            }
            let joined = ArrayBuiltin::join(&coll, sep, arena);
            match std::str::from_utf8(joined.as_bytes()) {
                Err(_) => Some(Bad::JoinUtf8(joined.as_bytes().to_vec())),
                Ok(j) if j != h => Some(Bad::NotIdentity(j.to_string(), coll.len())),
                Ok(_) => None,
            }
        });
        unsafe { arena.reset(0) };
        let replay = || json!({"op": "split_join", "h": h, "n": sep});
        match r {
            Err((msg, loc)) => self.panic_fail("split_join", &msg, &loc, replay()),
            Ok(None) => {
                if naive_find(h.as_bytes(), sep.as_bytes()).is_some() {
                    self.out.nontrivial(hash_parts(&[b"split", h.as_bytes(), sep.as_bytes()]));
                    self.out.tag("split_join.separator_occurs");
                    if self.out.samples.len() < self.out.max_samples && self.idx % 5 == 0 {
                        self.out.sample(json!({"op": "split then join", "string": clip(h), "separator": clip(sep), "result": "identity"}));
                    }
                }
            }
            Ok(Some(bad)) => {
                let (sig, d) = match bad {
                    Bad::PieceHasSep(p) => ("split|piece-contains-separator", json!({"piece": clip(&p)})),
                    Bad::PieceUtf8(b) => ("split|invalid-utf8", json!({"piece": lossy(&b)})),
                    Bad::JoinUtf8(b) => ("join|invalid-utf8", json!({"joined": lossy(&b)})),
                    Bad::NotIdentity(j, k) => ("split-join|not-identity", json!({"joined": clip(&j), "pieces": k})),
                };
                self.fail(sig.into(), json!({"string": clip(h), "separator": clip(sep), "observed": d}), replay());
            }
        }
    }

    // ---- slice / len ----

    fn check_slice(&mut self, arena: &Arena, s: &str, a: f64, b: f64) {
        self.out.evaluations += 1;
        if self.trace.is_some() {
            self.trace("slice", s, &format!("{a:?}"), &format!("{b:?}"));
        }
        let nchars = s.chars().count();
        let nan = a.is_nan() || b.is_nan();
        let exp = if nan { None } else { Some(oracle_slice(s, a, b)) };
        let r = util::guarded(|| {
            let out = StringBuiltin::slice(s, a, b, arena);
            let bytes = out.as_bytes();
            match (std::str::from_utf8(bytes), &exp) {
                (Err(_), _) => Some(Err(bytes.to_vec())),
                (Ok(g), Some(e)) if g != e => Some(Ok(g.to_string())),
                _ => None,
            }
        });
        unsafe { arena.reset(0) };
        let (ca, cb) = (bound_class(a, nchars), bound_class(b, nchars));
        let replay = || json!({"op": "slice", "s": s, "a_bits": a.to_bits(), "b_bits": b.to_bits(), "a": format!("{a:?}"), "b": format!("{b:?}")});
        match r {
            Err((msg, loc)) => self.panic_fail("slice", &msg, &loc, replay()),
            Ok(Some(Err(bytes))) => self.fail("slice|invalid-utf8".to_string(), json!({"string": clip(s), "start": format!("{a:?}"), "end": format!("{b:?}"), "got": lossy(&bytes)}), replay()),
            Ok(Some(Ok(got))) => {
                // the signature names the kind of disagreement, not the input class
                let e = exp.as_deref().unwrap_or("");
                let rel = if got.len() > e.len() && got.contains(e) {
                    "too-long"
                } else if got.len() < e.len() && e.contains(got.as_str()) {
                    "too-short"
                } else {
                    "other-characters"
                };
                self.fail(
                    format!("slice|differs|{rel}"),
                    json!({"string": clip(s), "chars": nchars, "start": format!("{a:?}"), "end": format!("{b:?}"), "start_class": ca, "end_class": cb, "expected": exp, "got": got}),
                    replay(),
                );
            }
            Ok(None) => {
                if nan {
                    self.out.tag("slice.nan_bound_safety_only");
                } else if ca != "plain" || cb != "plain" {
                    self.out.nontrivial(hash_parts(&[b"slice", s.as_bytes(), &a.to_bits().to_le_bytes(), &b.to_bits().to_le_bytes()]));
                    self.out.tag(&format!("slice.start={ca}"));
                    self.out.tag(&format!("slice.end={cb}"));
                    if self.out.samples.len() < self.out.max_samples && nchars >= 3 && s.len() != nchars && ca != cb && ca != "plain" && cb != "plain" && exp.as_deref() != Some("") && exp.as_deref() != Some(s) {
                        self.out.sample(json!({"op": "slice", "string": s, "start": format!("{a:?}"), "end": format!("{b:?}"), "expected": exp}));
                    }
                }
            }
        }
    }

    fn check_len(&mut self, s: &str) {
        self.out.evaluations += 1;
        self.trace("len", s, "", "");
        let exp = oracle_len(s);
        match util::guarded(|| StringBuiltin::len(s)) {
            Err((msg, loc)) => self.panic_fail("len", &msg, &loc, json!({"op": "len", "s": s})),
            Ok(got) => {
                if got != exp {
                    self.fail("len|differs".into(), json!({"string": clip(s), "expected": exp, "got": got}), json!({"op": "len", "s": s}));
                } else if s.len() as f64 != exp {
                    self.out.tag("len.multibyte");
                }
            }
        }
    }

    // ---- trim / case / to_number ----

    fn check_str_op(&mut self, arena: &Arena, op: &'static str, s: &str, exp: &str) {
        self.out.evaluations += 1;
        self.trace(op, s, "", "");
        let r = util::guarded(|| {
            let out = match op {
                "trim" => StringBuiltin::trim(s, arena),
                "to_uppercase" => StringBuiltin::to_uppercase(s, arena),
                "to_lowercase" => StringBuiltin::to_lowercase(s, arena),
                _ => unreachable!(),
            };
            let bytes = out.as_bytes();
            match std::str::from_utf8(bytes) {
                Err(_) => Some(Err(bytes.to_vec())),
                Ok(g) if g != exp => Some(Ok(g.to_string())),
                Ok(_) => None,
            }
        });
        unsafe { arena.reset(0) };
        let replay = || json!({"op": op, "s": s});
        match r {
            Err((msg, loc)) => self.panic_fail(op, &msg, &loc, replay()),
            Ok(Some(Err(bytes))) => self.fail(format!("{op}|invalid-utf8"), json!({"string": clip(s), "got": lossy(&bytes)}), replay()),
            Ok(Some(Ok(got))) => self.fail(format!("{op}|differs"), json!({"string": format!("{s:?}"), "expected": format!("{exp:?}"), "got": format!("{got:?}")}), replay()),
            Ok(None) => {
                if exp != s {
                    self.out.nontrivial(hash_parts(&[op.as_bytes(), s.as_bytes()]));
                    self.out.tag(&format!("{op}.changes_input"));
                    if exp.chars().count() != s.chars().count() && op != "trim" {
                        self.out.tag(&format!("{op}.changes_length"));
                    }
                    if self.out.samples.len() < self.out.max_samples && self.idx % 11 == 0 {
                        self.out.sample(json!({"op": op, "string": format!("{s:?}"), "expected": format!("{exp:?}")}));
                    }
                }
            }
        }
    }

    fn check_text(&mut self, arena: &Arena, s: &str) {
        self.check_len(s);
        self.check_str_op(arena, "trim", s, &oracle_trim(s));
        let up = s.to_uppercase();
        let up2: String = s.chars().flat_map(char::to_uppercase).collect();
        if up == up2 {
            self.check_str_op(arena, "to_uppercase", s, &up);
        } else {
            self.out.tag("to_uppercase.skipped_context_sensitive");
        }
        if !s.contains('Σ') {
            let lo = s.to_lowercase();
            let lo2: String = s.chars().flat_map(char::to_lowercase).collect();
            if lo == lo2 {
                self.check_str_op(arena, "to_lowercase", s, &lo);
            } else {
                self.out.tag("to_lowercase.skipped_context_sensitive");
            }
        }
    }

    /// `exp`: None = NaN expected.
    fn check_to_number(&mut self, text: &str, exp: Option<f64>, class: &'static str) {
        self.out.evaluations += 1;
        self.trace("to_number", text, "", "");
        let replay = || json!({"op": "to_number", "s": text, "expected_bits": exp.map(f64::to_bits), "class": class});
        match util::guarded(|| StringBuiltin::to_number(text)) {
            Err((msg, loc)) => self.panic_fail("to_number", &msg, &loc, replay()),
            Ok(got) => {
                let ok = match exp {
                    None => got.is_nan(),
                    // IEEE 754 conversions keep the sign of zero
                    Some(e) => got == e && got.is_sign_negative() == e.is_sign_negative(),
                };
                if ok {
                    self.out.tag(&format!("to_number.{class}"));
                    self.out.nontrivial(hash_parts(&[b"to_number", text.as_bytes()]));
                } else {
                    self.fail(format!("to_number|differs|{class}"), json!({"text": clip(text), "expected": exp.map_or("NaN".to_string(), |e| format!("{e:?}")), "got": format!("{got:?}")}), replay());
                }
            }
        }
    }
}

// ---------------------------------------------------------------------------
// Input construction
// ---------------------------------------------------------------------------

/// The `no`-th string (shortlex) over the two letters.
fn shortlex(no: u64, letters: [char; 2]) -> String {
    let v = no + 1;
    let len = 63 - v.leading_zeros() as usize;
    let bits = v - (1 << len);
    (0..len).map(|i| letters[((bits >> (len - 1 - i)) & 1) as usize]).collect()
}

const ALPHAS: &[&[char]] = &[
    &['a', 'b'],
    &['a', 'b', 'c', 'd'],
    &['a', 'é'],
    &['a', 'é', '世', '🌎'],
    &['a', 'b', 'c', 'd', 'e', 'f', 'g', 'h', 'i', 'j', 'k', 'l', 'm', 'n', 'o', 'p', 'q', 'r', 's', 't', 'u', 'v', 'w', 'x', 'y', 'z'],
    &['x', 'y', ' ', ',', '-'],
];

/// A different character of the same UTF-8 length: exactly one byte of the text changes.
fn twin(c: char, alpha: &[char]) -> char {
    if let Some(p) = alpha.iter().position(|x| *x == c) {
        for k in 1..alpha.len() {
            let d = alpha[(p + k) % alpha.len()];
            if d != c && d.len_utf8() == c.len_utf8() {
                let (mut b1, mut b2) = ([0u8; 4], [0u8; 4]);
                c.encode_utf8(&mut b1);
                d.encode_utf8(&mut b2);
                if b1.iter().zip(b2.iter()).filter(|(x, y)| x != y).count() == 1 {
                    return d;
                }
            }
        }
    }
    char::from_u32(c as u32 ^ 1).filter(|d| d.len_utf8() == c.len_utf8() && *d != '{' && *d != '}' && *d != '\\' && *d != '"').unwrap_or(if c == 'z' { 'y' } else { 'z' })
}

fn fib_word(x: char, y: char, len: usize) -> Vec<char> {
    let (mut a, mut b): (Vec<char>, Vec<char>) = (vec![y], vec![x]);
    while b.len() < len {
        let mut c = b.clone();
        c.extend_from_slice(&a);
        a = b;
        b = c;
    }
    b
}

const KINDS: [&str; 5] = ["periodic", "near-periodic", "fibonacci", "all-same", "random"];
const FILLERS: [&str; 6] = ["clean", "one-needle-char", "needle-prefix-repeated", "needle-suffix-repeated", "random-same-alphabet", "defective-needle-repeated"];

/// Characters of a needle of at most `max_bytes` bytes (at least one character).
fn gen_needle(rng: &mut Rng, kind: usize, alpha: &[char], max_bytes: usize) -> Vec<char> {
    let mut src: Vec<char> = match kind {
        0 | 1 => {
            let p = 1 + rng.usize(max_bytes.min(8));
            let unit: Vec<char> = (0..p).map(|_| *rng.pick(alpha)).collect();
            (0..max_bytes).map(|i| unit[i % p]).collect()
        }
        2 => {
            let x = *rng.pick(alpha);
            let mut y = *rng.pick(alpha);
            if y == x {
                y = alpha[(alpha.iter().position(|c| *c == x).unwrap() + 1) % alpha.len()];
            }
            let start = rng.usize(21);
            fib_word(x, y, start + max_bytes)[start..].to_vec()
        }
        3 => vec![*rng.pick(alpha); max_bytes],
        _ => (0..max_bytes).map(|_| *rng.pick(alpha)).collect(),
    };
    // cut to the byte budget
    let mut bytes = 0;
    let mut keep = 0;
    for c in &src {
        if bytes + c.len_utf8() > max_bytes {
            break;
        }
        bytes += c.len_utf8();
        keep += 1;
    }
    if keep == 0 {
        // budget of 1 byte but a multi-byte first character: fall back to ASCII
        return vec!['a'];
    }
    src.truncate(keep);
    src
}

fn gen_filler(rng: &mut Rng, kind: usize, needle: &[char], alpha: &[char], nchars: usize) -> Vec<char> {
    if nchars == 0 {
        return Vec::new();
    }
    let cyc = |src: &[char]| -> Vec<char> {
        if src.is_empty() { vec!['q'; nchars] } else { (0..nchars).map(|i| src[i % src.len()]).collect() }
    };
    match kind {
        0 => vec![if needle.contains(&'z') { '#' } else { 'z' }; nchars],
        1 => vec![*rng.pick(needle); nchars],
        2 => cyc(&needle[..needle.len() - 1]),
        3 => cyc(&needle[1..]),
        4 => (0..nchars).map(|_| *rng.pick(alpha)).collect(),
        _ => {
            let mut d = needle.to_vec();
            let p = rng.usize(d.len());
            d[p] = twin(d[p], alpha);
            cyc(&d)
        }
    }
}

fn str_of(cs: &[char]) -> String {
    cs.iter().collect()
}

fn splice(filler: &[char], k: usize, mid: &[&[char]]) -> String {
    let mut s = String::with_capacity(filler.len() * 2 + 64);
    s.extend(&filler[..k]);
    for m in mid {
        s.extend(*m);
    }
    s.extend(&filler[k..]);
    s
}

const WS: &[char] = &[
    ' ', '\t', '\n', '\r', '\u{0B}', '\u{0C}', '\u{85}', '\u{A0}', '\u{1680}', '\u{2000}', '\u{2003}', '\u{200A}', '\u{2028}', '\u{2029}', '\u{202F}', '\u{205F}',
    '\u{3000}',
];
/// No 'Σ' (context-sensitive lower-casing) and nothing whose white-space status differs between
/// Unicode and other common definitions (U+FEFF, U+180E, U+001C..U+001F).
const BODY: &[char] = &[
    'a', 'z', 'A', 'Z', 'm', 'Q', 'i', 'I', '0', '9', '_', '-', '.', '!', 'ß', 'İ', 'ı', 'ǅ', 'ǆ', 'Ǆ', 'ŉ', 'ﬁ', 'σ', 'ς', 'é', 'É', 'д', 'Д', 'ÿ', 'µ', 'ſ', 'ǰ', 'ΐ', 'ᾳ',
    '世', '🌎', '\u{301}', '\u{200B}', 'ẞ', 'Ⅷ', 'ⓐ',
];

fn gen_text(rng: &mut Rng) -> String {
    let mut s = String::new();
    let shape = rng.below(10);
    let pre = if shape < 7 { rng.usize(4) } else { 0 };
    let body = if shape == 9 { 0 } else { rng.usize(9) };
    let post = if shape < 8 { rng.usize(4) } else { 0 };
    for _ in 0..pre {
        s.push(*rng.pick(WS));
    }
    for _ in 0..body {
        if rng.chance(1, 8) {
            s.push(*rng.pick(WS));
        } else {
            s.push(*rng.pick(BODY));
        }
    }
    for _ in 0..post {
        s.push(*rng.pick(WS));
    }
    s
}

const SLICE_CHARS: &[char] = &['a', 'b', 'Z', '0', ' ', 'é', 'ß', 'д', '世', '€', '🌎', '𝄞', '\u{301}'];

fn slice_grid(len: usize) -> Vec<f64> {
    #[allow(clippy::cast_precision_loss)]
    let l = len as f64;
    let pos = [0.0, 0.5, 1.0, 2.0, l - 1.0, l - 0.5, l, l + 0.5, l + 1.0, l / 2.0, 1e300, f64::INFINITY, 9.3e18, 9_223_372_036_854_775_807.0, 4_294_967_296.0, 1.8e19];
    let mut v: Vec<f64> = Vec::with_capacity(40);
    for p in pos {
        v.push(p);
        v.push(-p);
    }
    v.push(f64::MIN_POSITIVE);
    v.push(-f64::MIN_POSITIVE);
    v.push(f64::NAN);
    v
}

// ---------------------------------------------------------------------------
// Stages
// ---------------------------------------------------------------------------

fn stage_exhaustive(st: &mut St<'_>, arena: &Arena, idx: u64) {
    if idx >= EXH_CASES {
        return;
    }
    let idx = idx.wrapping_mul(st.pick_every) % EXH_CASES;
    let letters = if idx / EXH_HAYSTACKS == 0 { ['a', 'b'] } else { ['a', 'é'] };
    let h = shortlex(idx % EXH_HAYSTACKS, letters);
    for nno in 0..EXH_NEEDLES {
        let n = shortlex(nno, letters);
        st.check_find(&h, &n, Near::Compute);
        let nn = format!("{n}{n}");
        for to in ["", "x", n.as_str(), nn.as_str(), "é"] {
            st.check_replace(arena, &h, &n, to);
        }
        // every replacement of the pattern's own length over the same letters (substituted text
        // that spells the pattern again together with what follows must not be matched again),
        // and one character shorter / longer
        let len = n.chars().count();
        if (1..=3).contains(&len) {
            let first = (1u64 << len) - 1;
            for no in first..first + (1u64 << len) {
                let to = shortlex(no, letters);
                if to != n {
                    st.check_replace(arena, &h, &n, &to);
                }
            }
            let shorter = shortlex((1u64 << (len - 1)) - 1 + (idx % (1u64 << (len - 1))), letters);
            st.check_replace(arena, &h, &n, &shorter);
            let longer = shortlex((1u64 << (len + 1)) - 1 + (idx % (1u64 << (len + 1))), letters);
            st.check_replace(arena, &h, &n, &longer);
        }
        st.check_split_join(arena, &h, &n);
    }
    st.out.tag("exhaustive.haystacks_completed");
    st.out.tag(if letters[1] == 'b' { "exhaustive.alphabet.ab" } else { "exhaustive.alphabet.a_e-acute" });
}

fn stage_tiers(st: &mut St<'_>, arena: &Arena, idx: u64, rng: &mut Rng) {
    // systematic over tier x kind, random over the rest
    // (kind fastest, so that the expensive long-needle tier is spread over all worker shards)
    let kind = (idx % 5) as usize;
    let t = ((idx / 5) % 4) as usize;
    let round = idx / 20;
    let max_bytes = match t {
        0 => 1,
        1 => 2,
        2 => 3 + (round % 14) as usize,
        _ => 17 + (round % 48) as usize,
    };
    let alpha = ALPHAS[rng.usize(ALPHAS.len())];
    let needle = gen_needle(rng, kind, alpha, max_bytes);
    let nbytes: usize = needle.iter().map(|c| c.len_utf8()).sum();
    let fkind = rng.usize(FILLERS.len());
    // total length up to ~200 bytes; a fifth of the cases are barely longer than the needle
    let avg = if fkind == 0 || fkind == 1 { 1 } else { alpha.iter().map(|c| c.len_utf8()).sum::<usize>().div_ceil(alpha.len()) };
    let room = if st.lite {
        rng.usize(17)
    } else if rng.chance(1, 5) {
        rng.usize(9)
    } else {
        rng.usize(200usize.saturating_sub(nbytes) + 1)
    };
    let fchars = room / avg.max(1);
    st.out.tag(&format!("needle_kind.{}", KINDS[kind]));
    st.out.tag(&format!("filler.{}", FILLERS[fkind]));

    // near-periodic: one defect at every position of the periodic needle
    let variants: Vec<Vec<char>> = if kind == 1 {
        (0..needle.len())
            .filter(|d| !st.lite || *d == 0 || *d + 1 == needle.len() || *d == needle.len() / 2)
            .map(|d| {
                let mut v = needle.clone();
                v[d] = twin(v[d], alpha);
                v
            })
            .collect()
    } else {
        vec![needle]
    };
    const REPL_FIXED: [&str; 3] = ["", "x", "é"];
    for needle in &variants {
        let filler = gen_filler(rng, fkind, needle, alpha, fchars);
        let n = str_of(needle);
        let nn = format!("{n}{n}");
        // not planted at all
        let h0 = str_of(&filler);
        st.check_find(&h0, &n, Near::No);
        st.check_replace(arena, &h0, &n, "x");
        for k in 0..=filler.len() {
            let repl = |j: usize| -> &str {
                match j % 5 {
                    0 => REPL_FIXED[0],
                    1 => REPL_FIXED[1],
                    2 => n.as_str(),
                    3 => nn.as_str(),
                    _ => REPL_FIXED[2],
                }
            };
            // exact copy at character position k (k == len: at the very end)
            let h = splice(&filler, k, &[needle]);
            st.check_find(&h, &n, Near::No);
            st.check_replace(arena, &h, &n, repl(k));
            // near-miss: one byte of the copy changed, position rotating with k
            let mut miss = needle.clone();
            let d = k % miss.len();
            miss[d] = twin(miss[d], alpha);
            let hm = splice(&filler, k, &[&miss]);
            st.check_find(&hm, &n, Near::Planted);
            if k % 3 == 0 {
                st.check_replace(arena, &hm, &n, repl(k + 1));
            }
            // two adjacent copies (overlapping occurrences for periodic needles)
            if k % 2 == 0 {
                let hd = splice(&filler, k, &[needle, needle]);
                st.check_replace(arena, &hd, &n, repl(k + 2));
                if k % 4 == 0 {
                    st.check_find(&hd, &n, Near::No);
                    st.check_split_join(arena, &hd, &n);
                }
            }
        }
    }
}

fn stage_split(st: &mut St<'_>, arena: &Arena, rng: &mut Rng) {
    for _ in 0..32 {
        let alpha = ALPHAS[rng.usize(ALPHAS.len())];
        let sep_bytes = 1 + rng.usize(20);
        let kind = rng.usize(5);
        let sep_chars = gen_needle(rng, if kind == 1 { 4 } else { kind }, alpha, sep_bytes);
        let sep = str_of(&sep_chars);
        let npieces = 1 + rng.usize(7);
        let mut s = String::new();
        for p in 0..npieces {
            if p > 0 {
                s.push_str(&sep);
            }
            // empty pieces put the separator at the start, at the end, or next to another one
            let plen = if rng.chance(2, 5) { 0 } else { rng.usize(12) };
            match rng.below(4) {
                0 => {
                    // a proper prefix of the separator (partial match)
                    let cut = rng.usize(sep_chars.len());
                    s.extend(&sep_chars[..cut]);
                }
                1 => {
                    let cut = 1 + rng.usize(sep_chars.len());
                    s.extend(&sep_chars[cut.min(sep_chars.len())..]);
                }
                _ => {
                    for _ in 0..plen {
                        s.push(*rng.pick(alpha));
                    }
                }
            }
        }
        st.out.tag(&format!("split.separator_bytes.{}", match sep.len() { 1 => "1", 2 => "2", 3..=8 => "3..8", _ => "9..20" }));
        if s.starts_with(&sep) {
            st.out.tag("split.separator_at_start");
        }
        if s.len() > sep.len() && s.ends_with(&sep) {
            st.out.tag("split.separator_at_end");
        }
        if s.contains(&format!("{sep}{sep}")) {
            st.out.tag("split.separators_adjacent");
        }
        st.check_split_join(arena, &s, &sep);
        st.check_find(&s, &sep, Near::No);
    }
}

fn stage_slice(st: &mut St<'_>, arena: &Arena, idx: u64, rng: &mut Rng) {
    // lengths 0..=8 systematically, then random up to 24
    let nchars = if idx % 3 != 2 { (idx / 3 % 9) as usize } else { rng.usize(25) };
    let s: String = (0..nchars).map(|_| *rng.pick(SLICE_CHARS)).collect();
    st.check_len(&s);
    let mut grid = slice_grid(nchars);
    if st.lite {
        grid = grid.into_iter().enumerate().filter(|(i, _)| i % 3 == (idx % 3) as usize).map(|(_, v)| v).collect();
    }
    for a in &grid {
        for b in &grid {
            st.check_slice(arena, &s, *a, *b);
        }
    }
    // random finite bounds
    for _ in 0..(if st.lite { 8 } else { 64 }) {
        let span = nchars as i64 + 3;
        let mut pick = || -> f64 {
            #[allow(clippy::cast_precision_loss)]
            let base = rng.range(-span, span) as f64;
            match rng.below(4) {
                0 => base + 0.25,
                1 => base - 0.75,
                _ => base,
            }
        };
        let (a, b) = (pick(), pick());
        st.check_slice(arena, &s, a, b);
    }
}

fn gen_number_case(rng: &mut Rng) -> (String, Option<f64>, &'static str) {
    match rng.below(8) {
        0 => {
            // shortest round-trip text of an arbitrary finite double: a correctly rounding parser returns it
            loop {
                let x = f64::from_bits(rng.next_u64());
                if x.is_finite() {
                    return (format!("{x}"), Some(x), "roundtrip-any-finite");
                }
            }
        }
        1 => {
            #[allow(clippy::cast_precision_loss)]
            let x = rng.range(-1_000_000_000_000_000, 1_000_000_000_000_000) as f64;
            (format!("{x}"), Some(x), "integer")
        }
        2 | 3 => {
            // a / 10^k with a < 2^53, k <= 15: one correctly rounded IEEE division gives the answer
            let a = rng.below(1 << 53);
            let k = rng.usize(16);
            let digits = format!("{a:0width$}", width = k + 1);
            let (ip, fp) = digits.split_at(digits.len() - k);
            let neg = rng.chance(1, 3);
            let zeros_l = "0".repeat(rng.usize(3));
            let zeros_r = if k > 0 { "0".repeat(rng.usize(3)) } else { String::new() };
            let text = if k > 0 { format!("{}{zeros_l}{ip}.{fp}{zeros_r}", if neg { "-" } else { "" }) } else { format!("{}{zeros_l}{ip}", if neg { "-" } else { "" }) };
            #[allow(clippy::cast_precision_loss)]
            // 10^k from integer arithmetic (exact below 2^53); powi has unspecified precision
            let v = a as f64 / 10u64.pow(k as u32) as f64;
            (text, Some(if neg { -v } else { v }), "decimal")
        }
        4 => {
            let small = [("0", 0.0), ("-0", -0.0), ("0.0", 0.0), ("007", 7.0), ("1.50", 1.5), ("-12.25", -12.25), ("0.1", 0.1), ("0.30000000000000004", 0.300_000_000_000_000_04), ("9007199254740993", 9_007_199_254_740_992.0), ("123456789012345678901234567890", 1.234_567_890_123_456_8e29)];
            let (t, v) = small[rng.usize(small.len())];
            (t.to_string(), Some(v), "handpicked")
        }
        _ => {
            // clearly not a number: contains a character no numeric spelling uses
            const JUNK: &[char] = &['g', 'h', 'k', 'x', 'z', 'G', 'Q', '#', '$', '@', 'ß', 'é', '世', '/', '*', '!', '?'];
            const MIX: &[char] = &['0', '1', '9', '.', '-', ' ', 'a'];
            let n = 1 + rng.usize(6);
            let at = rng.usize(n);
            let s: String = (0..n).map(|i| if i == at { *rng.pick(JUNK) } else if rng.chance(1, 2) { *rng.pick(MIX) } else { *rng.pick(JUNK) }).collect();
            (s, None, "not-a-number")
        }
    }
}

fn stage_text(st: &mut St<'_>, arena: &Arena, rng: &mut Rng) {
    for _ in 0..48 {
        let s = gen_text(rng);
        st.check_text(arena, &s);
    }
    for _ in 0..24 {
        let (text, exp, class) = gen_number_case(rng);
        st.check_to_number(&text, exp, class);
    }
    // inputs whose treatment the documentation does not fix: safety only
    for t in ["", " ", "inf", "-inf", "infinity", "nan", "NaN", "1e5", "1E-3", "+3", ".5", "5.", " 1", "1 ", "1_000", "0x10", "١٢٣", "-", ".", "e"] {
        st.out.evaluations += 1;
        if let Err((msg, loc)) = util::guarded(|| StringBuiltin::to_number(t)) {
            st.panic_fail("to_number", &msg, &loc, json!({"op": "to_number", "s": t}));
        }
    }
    st.out.tag("to_number.unspecified_spelling_safety_only");
}

// ---- script ----

fn lit(s: &str) -> Option<String> {
    if s.contains(['{', '}', '\r']) { None } else { Some(escape_plain(s, '"')) }
}

fn num_lit(x: f64) -> String {
    if x < 0.0 || (x == 0.0 && x.is_sign_negative()) { format!("minus {}", -x) } else { format!("{x}") }
}

struct Line {
    op: &'static str,
    code: String,
    expect: String,
    inputs: J,
}

fn script_lines(rng: &mut Rng) -> Vec<Line> {
    let mut lines: Vec<Line> = Vec::new();
    let mut var = 0;
    // receiver either as a literal or through a variable
    let mut recv = |rng: &mut Rng, text: &str, pre: &mut String| -> Option<String> {
        let l = lit(text)?;
        if rng.chance(1, 2) {
            var += 1;
            pre.push_str(&format!("make v{var} get {l}\n"));
            Some(format!("v{var}"))
        } else {
            Some(l)
        }
    };
    // find / replace / split+join over every needle tier
    for t in 0..4usize {
        let alpha = ALPHAS[rng.usize(ALPHAS.len())];
        let kind = rng.usize(5);
        let max_bytes = match t {
            0 => 1,
            1 => 2,
            2 => 3 + rng.usize(14),
            _ => 17 + rng.usize(48),
        };
        let mut needle = gen_needle(rng, kind, alpha, max_bytes);
        if kind == 1 {
            let d = rng.usize(needle.len());
            needle[d] = twin(needle[d], alpha);
        }
        let (fk, fl) = (rng.usize(FILLERS.len()), rng.usize(40));
        let filler = gen_filler(rng, fk, &needle, alpha, fl);
        let k = rng.usize(filler.len() + 1);
        let n = str_of(&needle);
        let planted: Vec<char> = if rng.chance(1, 4) {
            let mut m = needle.clone();
            let d = rng.usize(m.len());
            m[d] = twin(m[d], alpha);
            m
        } else {
            needle.clone()
        };
        let h = if rng.chance(1, 3) { splice(&filler, k, &[&planted, &needle]) } else { splice(&filler, k, &[&planted]) };
        let Some(nl) = lit(&n) else { continue };
        let mut pre = String::new();
        if let Some(r) = recv(rng, &h, &mut pre) {
            #[allow(clippy::cast_precision_loss)]
            let e = naive_find(h.as_bytes(), n.as_bytes()).map_or(-1.0, |v| v as f64);
            lines.push(Line { op: "find", code: format!("{pre}shout({r}.find({nl}))"), expect: format!("{e}"), inputs: json!({"h": h, "n": n}) });
        }
        let to = match rng.below(5) {
            0 => String::new(),
            1 => "x".to_string(),
            2 => n.clone(),
            3 => format!("{n}{n}"),
            _ => "é".to_string(),
        };
        let mut pre = String::new();
        if let (Some(r), Some(tl)) = (recv(rng, &h, &mut pre), lit(&to)) {
            lines.push(Line { op: "replace", code: format!("{pre}shout({r}.replace({nl}, {tl}))"), expect: oracle_replace(&h, &n, &to), inputs: json!({"h": h, "n": n, "to": to}) });
        }
        let mut pre = String::new();
        if let Some(r) = recv(rng, &h, &mut pre) {
            lines.push(Line { op: "split_join", code: format!("{pre}shout({r}.split({nl}).join({nl}))"), expect: h.clone(), inputs: json!({"h": h, "n": n}) });
        }
    }
    // slice / len
    for _ in 0..3 {
        let nchars = rng.usize(10);
        let s: String = (0..nchars).map(|_| *rng.pick(SLICE_CHARS)).collect();
        #[allow(clippy::cast_precision_loss)]
        let l = nchars as f64;
        let grid = [0.0, 0.5, 1.0, 2.0, l - 1.0, l - 0.5, l, l + 0.5, l + 1.0, l + 7.0, 1_000_000_000_000.0];
        let pick = |rng: &mut Rng| {
            let v: f64 = *rng.pick(&grid);
            if rng.chance(1, 2) { -v } else { v }
        };
        let (a, b) = (pick(rng), pick(rng));
        let mut pre = String::new();
        if let Some(r) = recv(rng, &s, &mut pre) {
            lines.push(Line { op: "slice", code: format!("{pre}shout({r}.slice({}, {}))", num_lit(a), num_lit(b)), expect: oracle_slice(&s, a, b), inputs: json!({"s": s, "a": a, "b": b}) });
        }
        let mut pre = String::new();
        if let Some(r) = recv(rng, &s, &mut pre) {
            lines.push(Line { op: "len", code: format!("{pre}shout({r}.len())"), expect: format!("{}", oracle_len(&s)), inputs: json!({"s": s}) });
        }
    }
    // trim / case
    for _ in 0..2 {
        let s = gen_text(rng).replace('\r', "\u{2003}");
        for op in ["trim", "to_uppercase", "to_lowercase"] {
            let expect = match op {
                "trim" => oracle_trim(&s),
                "to_uppercase" => s.to_uppercase(),
                _ => s.to_lowercase(),
            };
            let mut pre = String::new();
            if let Some(r) = recv(rng, &s, &mut pre) {
                lines.push(Line { op, code: format!("{pre}shout({r}.{op}())"), expect, inputs: json!({"s": s}) });
            }
        }
    }
    // to_number
    for _ in 0..2 {
        let (text, exp, _) = gen_number_case(rng);
        let mut pre = String::new();
        if let Some(r) = recv(rng, &text, &mut pre) {
            let expect = exp.map_or("NaN".to_string(), |v| format!("{v}"));
            lines.push(Line { op: "to_number", code: format!("{pre}shout({r}.to_number())"), expect, inputs: json!({"s": text}) });
        }
    }
    lines
}

fn stage_script(st: &mut St<'_>, rng: &mut Rng, fixed_src: Option<(&str, Vec<String>)>) {
    let lines = if fixed_src.is_some() { Vec::new() } else { script_lines(rng) };
    let (src, expects): (String, Vec<String>) = match fixed_src {
        Some((s, e)) => (s.to_string(), e),
        None => (lines.iter().map(|l| l.code.as_str()).collect::<Vec<_>>().join("\n") + "\n", lines.iter().map(|l| l.expect.clone()).collect()),
    };
    st.out.evaluations += expects.len() as u64;
    if let Some(f) = st.trace.as_mut() {
        let _ = writeln!(f, "{}", json!({"op": "script", "a": src}));
    }
    let replay = json!({"op": "script", "src": src, "expected": expects});
    let cfg = RunCfg { arena_mib: 16, ..RunCfg::default() };
    let real = match util::guarded(|| pipeline::run_source(&src, cfg)) {
        Ok(r) => r,
        Err((msg, loc)) => {
            st.panic_fail("script", &msg, &loc, replay);
            return;
        }
    };
    if !real.accepted {
        // the front end refused a program that only contains documented calls on literals: not
        // this property's subject (C07/C09), and most likely a mistake of this generator
        st.out.inconclusive(st.idx, "script stage: program was rejected by the front end", json!({"src": clip(&src), "diagnostics": format!("{:?}", real.parse.iter().chain(real.sem.iter()).take(3).collect::<Vec<_>>())}));
        return;
    }
    let op_of = |i: usize| lines.get(i).map_or("?", |l| l.op);
    if real.ending != "ok" {
        let i = real.output.len();
        st.fail(format!("script|{}|ending={}", op_of(i), real.ending), json!({"statement": lines.get(i).map(|l| l.code.clone()), "outputs_before": i, "ending": real.ending}), replay);
        return;
    }
    if real.output.len() != expects.len() {
        st.fail("script|output-count".into(), json!({"expected": expects.len(), "got": real.output.len()}), replay);
        return;
    }
    for (i, (got, exp)) in real.output.iter().zip(expects.iter()).enumerate() {
        if got != exp {
            let mut rp = replay.clone();
            rp["line"] = json!(i);
            st.fail(
                format!("script|{}|differs", op_of(i)),
                json!({"statement": lines.get(i).map(|l| clip(&l.code)), "inputs": lines.get(i).map(|l| l.inputs.clone()), "expected": format!("{exp:?}"), "got": format!("{got:?}")}),
                rp,
            );
            return;
        }
        if std::str::from_utf8(got.as_bytes()).is_err() {
            st.fail(format!("script|{}|invalid-utf8", op_of(i)), json!({}), replay.clone());
        }
    }
    for l in &lines {
        st.out.tag(&format!("script.{}", l.op));
        st.out.nontrivial(hash_parts(&[b"script", l.code.as_bytes()]));
    }
    if st.out.samples.len() < st.out.max_samples && st.idx % 13 == 0 && !lines.is_empty() {
        let l = &lines[(st.idx as usize / 13) % lines.len()];
        st.out.sample(json!({"op": format!("script:{}", l.op), "program": clip(&l.code), "expected_output": clip(&l.expect)}));
    }
}

// ---------------------------------------------------------------------------
// Entry points
// ---------------------------------------------------------------------------

pub fn run(ctx: &mut Ctx) {
    let stage = ctx.opt("stage").unwrap_or("exhaustive").to_string();
    if stage == "replay" {
        replay(ctx);
        return;
    }
    if !matches!(stage.as_str(), "exhaustive" | "tiers" | "split" | "slice" | "text" | "script") {
        eprintln!("strings: unknown stage {stage}");
        std::process::exit(2);
    }
    let seed = ctx.seed;
    let indices: Vec<u64> = ctx.indices().collect();
    // The shared panic hook is silent. A panic that cannot unwind (std's checks of unsafe
    // preconditions in debug builds) aborts the process, so its message must reach stderr.
    let prev_hook = std::panic::take_hook();
    std::panic::set_hook(Box::new(move |info| {
        let msg = info.payload().downcast_ref::<&str>().map(|s| (*s).to_string()).or_else(|| info.payload().downcast_ref::<String>().cloned()).unwrap_or_default();
        if msg.starts_with("unsafe precondition") {
            eprintln!("{msg} at {}", info.location().map_or_else(String::new, ToString::to_string));
        }
        prev_hook(info);
    }));
    // The orchestrator restarts a worker (with --start > 0) after the case it died or stalled in.
    // A defect that kills or stalls most cases would cost one watchdog period per case, so after
    // the second death of a shard its remaining cases are skipped (and counted).
    if let Some(hp) = ctx.opt("hashes")
        && ctx.start > 0
    {
        let p = format!("{hp}.deaths");
        let deaths = std::fs::read_to_string(&p).ok().and_then(|t| t.trim().parse::<u64>().ok()).unwrap_or(0) + 1;
        let _ = std::fs::write(&p, deaths.to_string());
        if deaths >= MAX_DEATHS_PER_SHARD {
            ctx.out.tag_n("cases_skipped_after_repeated_worker_death", indices.len() as u64);
            return;
        }
    }
    let trace = ctx.opt("trace-file").map(|p| std::fs::OpenOptions::new().create(true).append(true).open(p).expect("trace file"));
    let arena = Arena::new(ARENA_BYTES).expect("arena");
    let lite = cfg!(miri) || ctx.opt("lite").is_some();
    let pick_every = ctx.opt_u64("pick-every", 1).max(1);
    let mut st = St { out: &mut ctx.out, idx: 0, stage: stage.clone(), sig_seen: HashMap::new(), trace, tier_evals: [0; 6], tier_nt: [0; 6], flip: false, lite, pick_every };
    st.out.max_samples = 3;
    for idx in indices {
        st.idx = idx;
        st.out.begin(idx);
        let mut rng = Rng::new(util::case_seed(seed, &format!("strings.{stage}"), idx));
        // every call into the implementation is guarded individually; this outer guard only
        // protects the worker from a mistake in the harness itself
        let r = util::guarded(|| match stage.as_str() {
            "exhaustive" => stage_exhaustive(&mut st, &arena, idx),
            "tiers" => stage_tiers(&mut st, &arena, idx, &mut rng),
            "split" => stage_split(&mut st, &arena, &mut rng),
            "slice" => stage_slice(&mut st, &arena, idx, &mut rng),
            "text" => stage_text(&mut st, &arena, &mut rng),
            _ => stage_script(&mut st, &mut rng, None),
        });
        if let Err((msg, loc)) = r {
            st.out.inconclusive(idx, "harness panicked outside a guarded call", json!({"panic": msg, "at": loc}));
            unsafe { arena.reset(0) };
        }
        st.flush_tiers();
        st.out.tag(&format!("cases.{stage}"));
    }
}

/// `nsworker strings --stage replay --file F --keep-stdout 1`: re-runs one recorded evaluation.
pub fn replay(ctx: &mut Ctx) {
    let path = ctx.opt("file").expect("--file").to_string();
    let rec: J = serde_json::from_str(&std::fs::read_to_string(&path).expect("read replay")).expect("json");
    let rp = if rec.get("replay").is_some() { rec["replay"].clone() } else { rec };
    let s = |k: &str| rp.get(k).and_then(J::as_str).unwrap_or("").to_string();
    let arena = Arena::new(ARENA_BYTES).expect("arena");
    let op = s("op");
    let (exp, got): (String, String) = match op.as_str() {
        "find" => (format!("{:?}", naive_find(s("h").as_bytes(), s("n").as_bytes())), format!("{:?}", util::guarded(|| find(&s("h"), &s("n"))))),
        "replace" => (format!("{:?}", oracle_replace(&s("h"), &s("n"), &s("to"))), format!("{:?}", util::guarded(|| replace(&arena, &s("h"), &s("n"), &s("to")).as_str().to_string()))),
        "split_join" => (
            format!("{:?}", s("h")),
            format!(
                "{:?}",
                util::guarded(|| {
                    let (h, n) = (s("h"), s("n"));
                    let mut coll: Vec<Value<'_>, &Arena> = Vec::new_in(&arena);
                    StringBuiltin::split(&h, &n, &arena).for_each(|p| coll.push(Value::Str(ArenaCow::Owned(p))));
                    let pieces: Vec<String> = coll.iter().map(ToString::to_string).collect();
                    (pieces, ArrayBuiltin::join(&coll, &n, &arena).as_str().to_string())
                })
            ),
        ),
        "slice" => {
            let a = f64::from_bits(rp["a_bits"].as_u64().unwrap_or(0));
            let b = f64::from_bits(rp["b_bits"].as_u64().unwrap_or(0));
            (format!("{:?}", oracle_slice(&s("s"), a, b)), format!("{:?}", util::guarded(|| StringBuiltin::slice(&s("s"), a, b, &arena).as_str().to_string())))
        }
        "len" => (format!("{}", oracle_len(&s("s"))), format!("{:?}", util::guarded(|| StringBuiltin::len(&s("s"))))),
        "trim" => (format!("{:?}", oracle_trim(&s("s"))), format!("{:?}", util::guarded(|| StringBuiltin::trim(&s("s"), &arena).as_str().to_string()))),
        "to_uppercase" => (format!("{:?}", s("s").to_uppercase()), format!("{:?}", util::guarded(|| StringBuiltin::to_uppercase(&s("s"), &arena).as_str().to_string()))),
        "to_lowercase" => (format!("{:?}", s("s").to_lowercase()), format!("{:?}", util::guarded(|| StringBuiltin::to_lowercase(&s("s"), &arena).as_str().to_string()))),
        "to_number" => (
            rp.get("expected_bits").and_then(J::as_u64).map_or("NaN".to_string(), |b| format!("{:?}", f64::from_bits(b))),
            format!("{:?}", util::guarded(|| StringBuiltin::to_number(&s("s")))),
        ),
        "script" => {
            let expects: Vec<String> = rp["expected"].as_array().map(|a| a.iter().map(|v| v.as_str().unwrap_or("").to_string()).collect()).unwrap_or_default();
            let real = util::guarded(|| pipeline::run_source(&s("src"), RunCfg { arena_mib: 16, ..RunCfg::default() }));
            let got = match real {
                Ok(r) if r.ending == "ok" => format!("{:?}", r.output),
                Ok(r) => format!("ending {:?} after {:?}", r.ending, r.output),
                Err(e) => format!("panic {e:?}"),
            };
            (format!("{expects:?}"), got)
        }
        other => {
            // a stalled or crashed batch: re-run the whole case
            eprintln!("strings replay: no single operation recorded (op={other:?}); re-run with --stage <stage> --start <idx> --count <idx+1>");
            std::process::exit(2);
        }
    };
    let same = exp == got || got == format!("Ok({exp})");
    eprintln!("op: {op}\ninputs: {}\nexpected: {exp}\nobserved: {got}\n{}", rp, if same { "AGREE" } else { "DIFFER" });
    let _ = ctx;
    if !same {
        std::process::exit(1);
    }
}
