//! C09: static rules enforced exactly. One injected rule violation per case, at any position and
//! nesting context; the rejecting diagnostic must name the broken rule's category.
//! (Acceptance of valid programs is asserted by every engine that runs generated programs:
//! a rejected valid program is a violation in C01/C04/C05 and is re-checked here on the hosts.)

use naijascript::diagnostics::AsStr;
use naijascript::resolver::SemanticError;
use naijascript::syntax::parser::SyntaxError;
use serde_json::json;

use crate::Ctx;
use crate::model::ast::*;
use crate::model::genp::{self, Profile};
use crate::model::{interp, print};
use crate::pipeline::{self, RunCfg};
use crate::util::{self, Rng};

#[derive(Clone, Copy, PartialEq, Eq, Debug)]
enum When {
    Always,
    OutsideLoop,
    OutsideFunction,
    /// never a violation: must be accepted everywhere
    Never,
}

struct Rule {
    name: &'static str,
    text: &'static str,
    category: fn() -> &'static str,
    when: When,
}

fn undeclared() -> &'static str { SemanticError::UndeclaredIdentifier.as_str() }
fn assign_undeclared() -> &'static str { SemanticError::AssignmentToUndeclared.as_str() }
fn arity() -> &'static str { SemanticError::FunctionCallArity.as_str() }
fn unreachable_code() -> &'static str { SemanticError::UnreachableCode.as_str() }
fn duplicate() -> &'static str { SemanticError::DuplicateIdentifier.as_str() }
fn reserved() -> &'static str {
    // the parser and the checker use the same category text
    debug_assert_eq!(SemanticError::ReservedKeyword.as_str(), SyntaxError::ReservedKeyword.as_str());
    SemanticError::ReservedKeyword.as_str()
}
fn mismatch() -> &'static str { SemanticError::TypeMismatch.as_str() }
fn none() -> &'static str { "" }

macro_rules! rule {
    ($n:expr, $t:expr, $c:expr, $w:expr) => {
        Rule { name: $n, text: $t, category: $c, when: $w }
    };
}

fn rules() -> Vec<Rule> {
    use When::*;
    vec![
        rule!("undeclared.read", "shout(zz_u)", undeclared, Always),
        rule!("undeclared.read-in-argument", "shout(to_string(zz_u add 1))", undeclared, Always),
        rule!("undeclared.read-in-array", "shout([1, zz_u])", undeclared, Always),
        rule!("undeclared.read-in-index", "shout([1][zz_u])", undeclared, Always),
        rule!("undeclared.read-in-condition", "if to say (zz_u na 1) start\nend", undeclared, Always),
        rule!("undeclared.placeholder", "shout(\"a{zz_u}b\")", undeclared, Always),
        rule!("undeclared.write", "zz_u get 1", assign_undeclared, Always),
        rule!("undeclared.use-before-make", "shout(zz_later)\nmake zz_later get 1", undeclared, Always),
        rule!("undeclared.own-name-in-initialiser", "make zz_sr get zz_sr add 1", undeclared, Always),
        rule!("undeclared.own-name-in-initialiser-argument", "make zz_sa get to_string(zz_sa)", undeclared, Always),
        rule!("undeclared.own-name-in-initialiser-placeholder", "make zz_sp get \"v={zz_sp}\"", undeclared, Always),
        rule!("undeclared.own-name-in-initialiser-array", "make zz_sy get [1, zz_sy]", undeclared, Always),
        rule!("control.outer-name-in-shadowing-initialiser", "make zz_so get 5\nstart\nmake zz_so get zz_so add 1\nshout(zz_so)\nend\nshout(zz_so)", none, Never),
        rule!("undeclared.use-after-block", "start\nmake zz_in get 1\nend\nshout(zz_in)", undeclared, Always),
        rule!("undeclared.callee-local", "do zz_f() start\nmake zz_loc get 1\nend\nzz_f()\nshout(zz_loc)", undeclared, Always),
        rule!("undeclared.callee-parameter", "do zz_f2(zz_par) start\nend\nzz_f2(1)\nshout(zz_par)", undeclared, Always),
        rule!("undeclared.loop-body-local", "jasi (false) start\nmake zz_lb get 1\nend\nshout(zz_lb)", undeclared, Always),
        rule!("function.unknown", "zz_nofn(1)", undeclared, Always),
        rule!("function.sibling-block", "start\ndo zz_inner() start\nend\nend\nzz_inner()", undeclared, Always),
        rule!("function.inner-of-function", "do zz_o() start\ndo zz_i() start\nend\nend\nzz_i()", undeclared, Always),
        rule!("function.in-if-arm", "if to say (true) start\ndo zz_arm() start\nend\nend\nzz_arm()", undeclared, Always),
        rule!("arity.user-more", "do zz_a(p) start\nend\nzz_a(1, 2)", arity, Always),
        rule!("arity.user-less", "do zz_b(p) start\nend\nzz_b()", arity, Always),
        rule!("arity.user-forward", "zz_c(1)\ndo zz_c() start\nend", arity, Always),
        rule!("arity.shout-none", "shout()", arity, Always),
        rule!("arity.shout-two", "shout(1, 2)", arity, Always),
        rule!("arity.typeof-none", "shout(typeof())", arity, Always),
        rule!("arity.to_string-two", "shout(to_string(1, 2))", arity, Always),
        rule!("arity.command-none", "shout(command())", arity, Always),
        rule!("arity.method-len", "shout(\"s\".len(1))", arity, Always),
        rule!("arity.method-slice", "shout(\"s\".slice(1))", arity, Always),
        rule!("arity.method-find", "shout(\"s\".find())", arity, Always),
        rule!("arity.method-push", "make zz_arr get [1]\nzz_arr.push()", arity, Always),
        rule!("arity.method-join", "shout([1].join())", arity, Always),
        rule!("arity.method-abs", "shout((5).abs(1))", arity, Always),
        rule!("context.comot", "comot", unreachable_code, OutsideLoop),
        rule!("context.next", "next", unreachable_code, OutsideLoop),
        rule!("context.comot-in-if", "if to say (true) start\ncomot\nend", unreachable_code, OutsideLoop),
        rule!("context.comot-in-function-in-loop", "jasi (false) start\ndo zz_lf() start\ncomot\nend\nend", unreachable_code, Always),
        rule!("context.return", "return 1", unreachable_code, OutsideFunction),
        rule!("context.return-in-block", "start\nreturn 1\nend", unreachable_code, OutsideFunction),
        rule!("context.return-in-loop", "jasi (false) start\nreturn 1\nend", unreachable_code, OutsideFunction),
        rule!("duplicate.function", "do zz_d() start\nend\ndo zz_d() start\nend", duplicate, Always),
        rule!("duplicate.function-different-arity", "do zz_e() start\nend\ndo zz_e(p) start\nend", duplicate, Always),
        rule!("duplicate.function-with-bodies", "do zz_db(a) start\nmake zz_x get a\nshout(zz_x)\nreturn zz_x\nend\ndo zz_db(b) start\nmake zz_y get 2\nif to say (true) start\nshout(zz_y)\nend\nreturn zz_y add b\nend", duplicate, Always),
        rule!("duplicate.function-with-nested-function", "do zz_dn() start\ndo zz_in() start\nreturn 1\nend\nreturn zz_in()\nend\ndo zz_dn() start\ndo zz_in2() start\nreturn 2\nend\nreturn zz_in2()\nend", duplicate, Always),
        rule!("duplicate.function-called-between", "do zz_dc() start\nreturn 1\nend\nshout(zz_dc())\ndo zz_dc() start\njasi (false) start\ncomot\nend\nreturn 2\nend", duplicate, Always),
        rule!("duplicate.parameter", "do zz_p(q, q) start\nend", duplicate, Always),
        rule!("duplicate.parameter-underscore", "do zz_pu(_, _) start\nend", duplicate, Always),
        rule!("duplicate.parameter-underscore-apart", "do zz_pv(_, value, _) start\nreturn value\nend", duplicate, Always),
        rule!("control.parameter-underscore-once", "do zz_pw(_, value) start\nreturn value\nend\nshout(zz_pw(1, 2))", none, Never),
        rule!("duplicate.parameter-apart", "do zz_p2(q, r, q) start\nend", duplicate, Always),
        rule!("reserved.builtin-as-variable", "make shout get 1", reserved, Always),
        rule!("reserved.builtin-as-variable-2", "make typeof get 1", reserved, Always),
        rule!("reserved.keyword-as-variable", "make jasi get 1", reserved, Always),
        rule!("reserved.keyword-as-variable-2", "make end get 1", reserved, Always),
        rule!("reserved.builtin-as-function", "do to_string() start\nend", reserved, Always),
        rule!("reserved.keyword-as-function", "do make() start\nend", reserved, Always),
        rule!("reserved.builtin-as-parameter", "do zz_r(read_line) start\nend", reserved, Always),
        rule!("reserved.keyword-as-parameter", "do zz_r2(start) start\nend", reserved, Always),
        rule!("type.minus-string", "shout(1 minus \"s\")", mismatch, Always),
        rule!("type.times-string", "shout(\"s\" times 2)", mismatch, Always),
        rule!("type.add-bool", "shout(true add 1)", mismatch, Always),
        rule!("type.divide-bool", "shout(1 divide true)", mismatch, Always),
        rule!("type.mod-array", "shout([1] mod 2)", mismatch, Always),
        rule!("type.compare-mixed", "shout(1 na \"s\")", mismatch, Always),
        rule!("type.compare-mixed-2", "shout(\"s\" pass 1)", mismatch, Always),
        rule!("type.compare-mixed-3", "shout(true small pass 1)", mismatch, Always),
        rule!("type.and-number", "shout(1 and true)", mismatch, Always),
        rule!("type.or-string", "shout(\"s\" or false)", mismatch, Always),
        rule!("type.not-number", "shout(not 1)", mismatch, Always),
        rule!("type.minus-bool", "shout(minus true)", mismatch, Always),
        rule!("type.minus-string-unary", "shout(minus \"s\")", mismatch, Always),
        rule!("type.condition-number", "if to say (1) start\nend", mismatch, Always),
        rule!("type.condition-string", "jasi (\"s\") start\ncomot\nend", mismatch, Always),
        rule!("type.index-base-number", "shout(5[0])", mismatch, Always),
        rule!("type.index-base-string", "shout(\"s\"[0])", mismatch, Always),
        rule!("type.index-string", "shout([1][\"x\"])", mismatch, Always),
        rule!("type.index-bool", "shout([1][true])", mismatch, Always),
        rule!("type.join-separator", "shout([1].join(2))", mismatch, Always),
        rule!("type.command-number", "shout(command(5))", mismatch, Always),
        rule!("type.declared-variable", "make zz_s get \"s\"\nshout(zz_s times 2)", mismatch, Always),
        rule!("type.declared-variable-2", "make zz_n get 1\nshout(zz_n and true)", mismatch, Always),
        rule!("type.variable-named-like-a-parameter", "make zz_s get \"s\"\ndo zz_fp(zz_s) start\nend\nshout(zz_s times 2)", mismatch, Always),
        rule!("type.variable-named-like-a-parameter-before", "do zz_fq(zz_t) start\nend\nmake zz_t get \"s\"\nshout(zz_t minus 1)", mismatch, Always),
        rule!("type.variable-named-like-a-callee-local", "make zz_n get 1\ndo zz_fl() start\nmake zz_n get \"x\"\nend\nshout(zz_n and true)", mismatch, Always),
        rule!("type.variable-named-like-a-parameter-in-nested-block", "make zz_u get \"s\"\ndo zz_fr(zz_u) start\nend\nstart\nshout(not zz_u)\nend", mismatch, Always),
        rule!("type.condition-named-like-a-parameter", "make zz_c get 5\ndo zz_fc(zz_c) start\nend\nif to say (zz_c) start\nend", mismatch, Always),
        rule!("type.index-named-like-a-parameter", "make zz_i get \"k\"\ndo zz_fi(zz_i) start\nend\nshout([1][zz_i])", mismatch, Always),
        rule!("method.unknown-named-like-a-parameter", "make zz_m get \"s\"\ndo zz_fm(zz_m) start\nend\nshout(zz_m.abs())", undeclared, Always),
        rule!("type.dynamic-plus-string-is-a-string", "do zz_ds(p) start\nreturn (p add \"!\") minus 1\nend", mismatch, Always),
        rule!("type.string-plus-dynamic-is-a-string", "do zz_sd(p) start\nreturn not (\"n=\" add p)\nend", mismatch, Always),
        rule!("type.string-plus-element-as-condition", "make zz_xs get [1]\njasi (\"n=\" add zz_xs[0]) start\ncomot\nend", mismatch, Always),
        rule!("type.variable-from-dynamic-plus-string", "do zz_dv(p) start\nmake zz_s get p add \"cm\"\nreturn zz_s times 2\nend", mismatch, Always),
        rule!("control.dynamic-plus-number-stays-dynamic", "do zz_dn(p) start\nreturn (p add 1) minus 1\nend\nshout(zz_dn(2))", none, Never),
        rule!("type.in-argument", "shout(to_string(1 minus \"s\"))", mismatch, Always),
        rule!("type.in-array", "shout([1, true minus 1])", mismatch, Always),
        rule!("method.unknown-on-string", "shout(\"s\".nosuch())", undeclared, Always),
        rule!("method.unknown-on-array", "shout([1].trim())", undeclared, Always),
        rule!("method.unknown-on-number", "shout((5).len())", undeclared, Always),
        // controls: valid everywhere
        rule!("control.shout", "shout(1)", none, Never),
        rule!("control.make-and-use", "make zz_ok get 1\nshout(zz_ok)", none, Never),
        rule!("control.define-and-call", "do zz_fw() start\nend\nzz_fw()", none, Never),
        rule!("control.forward-call", "zz_fw2()\ndo zz_fw2() start\nend", none, Never),
        rule!("control.shadow", "start\nmake zz_sh get 1\nstart\nmake zz_sh get 2\nshout(zz_sh)\nend\nend", none, Never),
        rule!("control.loop-with-comot", "jasi (true) start\ncomot\nend", none, Never),
        rule!("control.return-type-through-shadowed-name", "make zz_q get \"s\"\nstart\ndo zz_id(zz_q) start\nreturn zz_q\nend\nshout(zz_id(5) times 2)\nend", none, Never),
        rule!("control.return-type-through-shadowed-local", "make zz_w get \"s\"\nstart\ndo zz_lw() start\nmake zz_w get 1\nreturn zz_w\nend\nshout(zz_lw() times 2)\nend", none, Never),
        rule!("control.return-type-through-name-shadowed-by-the-defining-block", "make zz_bv get \"text\"\nstart\nmake zz_bv get 5\ndo zz_gv() start\nreturn zz_bv\nend\nshout(zz_gv() times 2)\nend", none, Never),
        rule!("control.return-type-through-name-shadowed-by-the-defining-function", "make zz_fv get 5\ndo zz_of() start\nmake zz_fv get \"text\"\ndo zz_if() start\nreturn zz_fv\nend\nreturn zz_if().len()\nend\nshout(zz_of())", none, Never),
        rule!("control.add-of-parameters", "do zz_ad(x, y) start\nreturn (x add y) times 2\nend\nshout(zz_ad(1, 2))", none, Never),
        rule!("control.unary-on-parameter", "do zz_ng(x, k) start\nif to say (true and not k) start\nreturn 2 times minus x\nend\nreturn 0\nend\nshout(zz_ng(1, false))", none, Never),
        rule!("control.method-on-dynamic-sum", "do zz_ln(p) start\nreturn (p add 1).len()\nend\nshout(zz_ln(\"s\"))", none, Never),
        rule!("control.local-after-wide-nested-function", "do zz_wo() start\nmake zz_a get 1\ndo zz_wi() start\nmake zz_v0 get 0\nmake zz_v1 get 1\nmake zz_v2 get 2\nmake zz_v3 get 3\nmake zz_v4 get 4\nmake zz_v5 get 5\nmake zz_v6 get 6\nmake zz_v7 get 7\nmake zz_v8 get 8\nmake zz_v9 get 9\nmake zz_v10 get 10\nmake zz_v11 get 11\nmake zz_v12 get 12\nmake zz_v13 get 13\nmake zz_v14 get 14\nmake zz_v15 get 15\nmake zz_v16 get 16\nmake zz_v17 get 17\nmake zz_v18 get 18\nmake zz_v19 get 19\nmake zz_v20 get 20\nmake zz_v21 get 21\nmake zz_v22 get 22\nmake zz_v23 get 23\nmake zz_v24 get 24\nmake zz_v25 get 25\nmake zz_v26 get 26\nmake zz_v27 get 27\nmake zz_v28 get 28\nmake zz_v29 get 29\nmake zz_v30 get 30\nmake zz_v31 get 31\nmake zz_v32 get 32\nmake zz_v33 get 33\nmake zz_v34 get 34\nmake zz_v35 get 35\nmake zz_v36 get 36\nmake zz_v37 get 37\nmake zz_v38 get 38\nmake zz_v39 get 39\nmake zz_v40 get 40\nmake zz_v41 get 41\nmake zz_v42 get 42\nmake zz_v43 get 43\nmake zz_v44 get 44\nmake zz_v45 get 45\nmake zz_v46 get 46\nmake zz_v47 get 47\nmake zz_v48 get 48\nmake zz_v49 get 49\nmake zz_v50 get 50\nmake zz_v51 get 51\nmake zz_v52 get 52\nmake zz_v53 get 53\nmake zz_v54 get 54\nmake zz_v55 get 55\nmake zz_v56 get 56\nmake zz_v57 get 57\nmake zz_v58 get 58\nmake zz_v59 get 59\nmake zz_v60 get 60\nmake zz_v61 get 61\nmake zz_v62 get 62\nmake zz_v63 get 63\nmake zz_v64 get 64\nmake zz_v65 get 65\nmake zz_v66 get 66\nmake zz_v67 get 67\nmake zz_v68 get 68\nmake zz_v69 get 69\nreturn zz_v0\nend\nmake zz_b get 2\nshout(zz_a add zz_b add zz_wi())\nend\nzz_wo()", none, Never),
        rule!("control.redeclare-with-dynamic-initialiser", "do zz_first(zz_l) start\nreturn zz_l[0]\nend\nmake zz_rd get \"n/a\"\nshout(zz_rd)\nmake zz_rd get zz_first([21, 34])\nshout(zz_rd minus 1)", none, Never),
        rule!("control.redeclare-with-other-type", "make zz_re get \"s\"\nshout(zz_re.len())\nmake zz_re get 5\nshout(zz_re times 2)", none, Never),
        rule!("control.redeclare-from-parameter", "do zz_rp(zz_pv) start\nmake zz_x get \"a\"\nshout(zz_x)\nmake zz_x get zz_pv\nreturn zz_x times 2\nend\nshout(zz_rp(4))", none, Never),
        rule!("control.nested-function-call", "do zz_n1() start\ndo zz_n2() start\nend\nzz_n2()\nend\nzz_n1()", none, Never),
    ]
}

/// (context name, in_loop, in_fn, template with `@` where the snippet goes)
const CONTEXTS: &[(&str, bool, bool, &str)] = &[
    ("top", false, false, "make a0 get 1\n@\nshout(a0)\n"),
    ("block", false, false, "make a0 get 1\nstart\n@\nend\nshout(a0)\n"),
    ("block-in-block", false, false, "start\nstart\n@\nend\nend\n"),
    ("if-arm", false, false, "make a0 get 1\nif to say (a0 na 1) start\n@\nend\n"),
    ("else-arm", false, false, "make a0 get 1\nif to say (a0 na 2) start\nshout(1)\nend\nif not so start\n@\nend\n"),
    ("loop", true, false, "make a0 get 0\njasi (a0 small pass 2) start\na0 get a0 add 1\n@\nend\n"),
    ("if-in-loop", true, false, "make a0 get 0\njasi (a0 small pass 2) start\na0 get a0 add 1\nif to say (true) start\n@\nend\nend\n"),
    ("loop-in-loop", true, false, "jasi (false) start\njasi (false) start\n@\nend\nend\n"),
    ("function", false, true, "do fn1(p1) start\n@\nreturn p1\nend\nshout(fn1(1))\n"),
    ("loop-in-function", true, true, "do fn1() start\njasi (false) start\n@\nend\nend\nfn1()\n"),
    ("function-in-loop", false, true, "make a0 get 0\njasi (a0 small pass 1) start\na0 get a0 add 1\ndo fl() start\n@\nend\nfl()\nend\n"),
    ("function-in-function", false, true, "do fo() start\ndo fi() start\n@\nend\nfi()\nend\nfo()\n"),
    ("block-in-function-in-loop", false, true, "jasi (false) start\ndo fl2() start\nstart\n@\nend\nend\nend\n"),
    ("loop-in-function-in-loop", true, true, "jasi (false) start\ndo fl3() start\njasi (false) start\n@\nend\nend\nend\n"),
    ("after-return", false, true, "do fr() start\nreturn 1\n@\nend\nshout(fr())\n"),
    ("after-comot", true, false, "jasi (true) start\ncomot\n@\nend\n"),
];

fn is_violation(when: When, in_loop: bool, in_fn: bool) -> bool {
    match when {
        When::Always => true,
        When::OutsideLoop => !in_loop,
        When::OutsideFunction => !in_fn,
        When::Never => false,
    }
}

fn judge(ctx: &mut Ctx, idx: u64, src: &str, rule: &Rule, context: &str, violation: bool, nontrivial: bool) {
    ctx.out.evaluations += 1;
    let replay = json!({"src": src, "rule": rule.name, "context": context});
    let real = match util::guarded(|| pipeline::run_source(src, RunCfg { check_only: true, ..RunCfg::default() })) {
        Ok(r) => r,
        Err((msg, loc)) => {
            let sig = format!("panic|{}|{}", util::normalise_msg(&msg), util::panic_site(&loc));
            ctx.out.fail(idx, &sig, json!({"panic": msg, "at": loc, "src": src}), replay);
            return;
        }
    };
    let errors: Vec<String> = real
        .parse
        .iter()
        .map(|d| d.message.to_string())
        .chain(real.sem.iter().filter(|d| d.severity == "error").map(|d| d.message.to_string()))
        .collect();
    if violation {
        let want = (rule.category)();
        if real.accepted {
            ctx.out.fail(idx, &format!("accepted-although-invalid|{}", rule.name), json!({"context": context, "src": src}), replay);
            return;
        }
        if !errors.iter().any(|m| m == want) {
            ctx.out.fail(idx, &format!("wrong-category|{}", rule.name), json!({"context": context, "expected": want, "got": errors, "src": src}), replay);
            return;
        }
        ctx.out.tag(&format!("rejected.{want}"));
    } else {
        if !real.accepted {
            ctx.out.fail(idx, &format!("rejected-although-valid|{}", rule.name), json!({"context": context, "got": errors, "src": src}), replay);
            return;
        }
        ctx.out.tag("accepted.valid-in-this-context");
    }
    ctx.out.tag(&format!("context.{context}"));
    if nontrivial {
        ctx.out.nontrivial(util::hash64(src.as_bytes()));
        if idx % 97 == 0 {
            ctx.out.sample(json!({"rule": rule.name, "context": context, "violation": violation, "src": src}));
        }
    }
}

// ----- random hosts ---------------------------------------------------------

struct BlockInfo {
    in_loop: bool,
    in_fn: bool,
    depth: usize,
}

fn walk_blocks(b: &Block, in_loop: bool, in_fn: bool, depth: usize, out: &mut Vec<BlockInfo>) {
    out.push(BlockInfo { in_loop, in_fn, depth });
    for s in &b.stmts {
        match s {
            Stmt::If { then_b, else_b, .. } => {
                walk_blocks(then_b, in_loop, in_fn, depth + 1, out);
                if let Some(eb) = else_b {
                    walk_blocks(eb, in_loop, in_fn, depth + 1, out);
                }
            }
            Stmt::Loop { body, .. } => walk_blocks(body, true, in_fn, depth + 1, out),
            Stmt::Block(b) => walk_blocks(b, in_loop, in_fn, depth + 1, out),
            Stmt::FuncDef(f) => walk_blocks(&f.body, false, true, depth + 1, out),
            _ => {}
        }
    }
}

fn insert_at(b: &mut Block, target: &mut isize, rng: &mut Rng, raw: &str) {
    if *target < 0 {
        return;
    }
    if *target == 0 {
        // not directly after a bare `return` (it would swallow the snippet as its value)
        let mut pos = rng.usize(b.stmts.len() + 1);
        while pos > 0 && matches!(b.stmts[pos - 1], Stmt::Return(None)) {
            pos -= 1;
        }
        b.stmts.insert(pos, Stmt::Raw(raw.to_string()));
        *target = -1;
        return;
    }
    *target -= 1;
    for s in &mut b.stmts {
        match s {
            Stmt::If { then_b, else_b, .. } => {
                insert_at(then_b, target, rng, raw);
                if let Some(eb) = else_b {
                    insert_at(eb, target, rng, raw);
                }
            }
            Stmt::Loop { body, .. } => insert_at(body, target, rng, raw),
            Stmt::Block(b) => insert_at(b, target, rng, raw),
            Stmt::FuncDef(f) => insert_at(&mut f.body, target, rng, raw),
            _ => {}
        }
        if *target < 0 {
            return;
        }
    }
}

// ----- size families --------------------------------------------------------
//
// The same rule at growing size n (length of a call chain, nesting depth, number of parameters,
// declarations or definitions): the verdict is fixed by the rule and must not depend on n.

const FAMILY_MAX_N: usize = 14;

struct FamCase {
    name: String,
    src: String,
    /// None = must be accepted; Some(category) = must be rejected with this category
    want: Option<fn() -> &'static str>,
}

fn chain_defs(n: usize, order: usize, last_body: &str) -> String {
    // a1 returns a2(), ..., a(n-1) returns an(), an returns `last_body`
    let mut defs: Vec<String> = (1..=n)
        .map(|i| {
            if i == n {
                format!("do zz_a{i}() start\n    return {last_body}\nend\n")
            } else {
                format!("do zz_a{i}() start\n    return zz_a{}()\nend\n", i + 1)
            }
        })
        .collect();
    match order {
        0 => {}                 // caller before callee
        1 => defs.reverse(),    // callee before caller
        _ => {
            // interleaved: odd ones ascending, then even ones descending
            let (odd, even): (Vec<_>, Vec<_>) = defs.into_iter().enumerate().partition(|(i, _)| i % 2 == 0);
            defs = odd.into_iter().map(|x| x.1).chain(even.into_iter().rev().map(|x| x.1)).collect();
        }
    }
    defs.concat()
}

fn family_cases(n: usize) -> Vec<FamCase> {
    let mut v = Vec::new();
    let mut add = |name: &str, src: String, want: Option<fn() -> &'static str>| {
        v.push(FamCase { name: name.to_string(), src, want });
    };
    // 1. statically known return type through a chain of n functions, in three definition orders,
    //    use before and after the definitions
    for order in 0..3 {
        let o = ["forward", "backward", "interleaved"][order];
        for use_first in [false, true] {
            let place = if use_first { "use-first" } else { "use-last" };
            let wrap = |defs: String, usage: &str| if use_first { format!("{usage}\n{defs}") } else { format!("{defs}{usage}\n") };
            add(&format!("type.string-through-chain.{o}.{place}"), wrap(chain_defs(n, order, "\"s\""), "shout(zz_a1() minus 1)"), Some(mismatch));
            add(&format!("type.number-through-chain.{o}.{place}"), wrap(chain_defs(n, order, "5"), "shout(not zz_a1())"), Some(mismatch));
            add(&format!("type.bool-through-chain.{o}.{place}"), wrap(chain_defs(n, order, "true"), "shout(zz_a1() times 2)"), Some(mismatch));
            add(&format!("control.string-through-chain.{o}.{place}"), wrap(chain_defs(n, order, "\"s\""), "shout(zz_a1().len() add 1)"), None);
            add(&format!("control.number-through-chain.{o}.{place}"), wrap(chain_defs(n, order, "5"), "shout(zz_a1() times 2)"), None);
            add(&format!("control.bool-through-chain.{o}.{place}"), wrap(chain_defs(n, order, "true"), "if to say (zz_a1() and true) start\nend"), None);
        }
    }
    // 2. comot / next at every position of n nested loops (after the inner loop has ended too)
    {
        let open: String = (0..n).map(|i| format!("make zz_l{i} get 0\njasi (zz_l{i} small pass 1) start\nzz_l{i} get zz_l{i} add 1\n")).collect();
        let close_with = |stmt: &str| (0..n).map(|_| format!("end\n{stmt}\n")).collect::<String>();
        // after each inner `end`, still inside the enclosing loop - except the outermost one
        let mut s = open.clone();
        s.push_str("comot\n");
        for i in 0..n {
            s.push_str("end\n");
            if i + 1 < n {
                s.push_str("if to say (false) start\nnext\nend\nif to say (false) start\ncomot\nend\n");
            }
        }
        add("control.comot-next-after-inner-loops", s, None);
        add("context.comot-after-outermost-loop", format!("{open}{}", close_with("")) + "comot\n", Some(unreachable_code));
        add("context.next-after-outermost-loop", format!("{open}{}", close_with("")) + "if to say (true) start\nnext\nend\n", Some(unreachable_code));
    }
    // 3. a function body never inherits the loops around its definition, at any nesting
    {
        let open: String = (0..n).map(|_| "jasi (false) start\n".to_string()).collect();
        let close: String = (0..n).map(|_| "end\n".to_string()).collect();
        add("context.comot-in-function-in-loops", format!("{open}do zz_f() start\ncomot\nend\n{close}"), Some(unreachable_code));
        add("control.return-in-loops-in-function", format!("do zz_f() start\n{open}return 1\n{close}return 2\nend\nshout(zz_f())\n"), None);
        add("context.return-in-loops", format!("{open}return 1\n{close}"), Some(unreachable_code));
    }
    // 4. block nesting: outer variable visible n levels down; inner variable gone outside
    {
        let open: String = (0..n).map(|_| "start\n".to_string()).collect();
        let close: String = (0..n).map(|_| "end\n".to_string()).collect();
        add("control.outer-variable-from-nested-blocks", format!("make zz_o get 1\n{open}shout(zz_o)\nzz_o get zz_o add 1\n{close}shout(zz_o)\n"), None);
        add("undeclared.inner-variable-after-nested-blocks", format!("{open}make zz_i get 1\n{close}shout(zz_i)\n"), Some(undeclared));
        add("undeclared.write-inner-variable-after-nested-blocks", format!("{open}make zz_i get 1\n{close}zz_i get 2\n"), Some(assign_undeclared));
        add("control.function-of-outer-block-from-nested-blocks", format!("{open}shout(zz_g())\n{close}do zz_g() start\nreturn 1\nend\n"), None);
        add("function.of-nested-block-from-outside", format!("{open}do zz_h() start\nend\n{close}zz_h()\n"), Some(undeclared));
    }
    // 5. n parameters: exact arity accepted, one more / one fewer rejected, duplicate anywhere rejected
    {
        let params: Vec<String> = (0..n).map(|i| format!("zz_p{i}")).collect();
        let args = |k: usize| (0..k).map(|i| i.to_string()).collect::<Vec<_>>().join(", ");
        let def = format!("do zz_w({}) start\nreturn zz_p{}\nend\n", params.join(", "), n - 1);
        add("control.arity-exact", format!("{def}shout(zz_w({}))\n", args(n)), None);
        add("arity.one-more", format!("{def}shout(zz_w({}))\n", args(n + 1)), Some(arity));
        add("arity.one-fewer", format!("{def}shout(zz_w({}))\n", args(n - 1)), Some(arity));
        add("arity.one-more-forward", format!("shout(zz_w({}))\n{def}", args(n + 1)), Some(arity));
        let mut dup = params.clone();
        dup.push("zz_p0".to_string());
        add("duplicate.parameter-last-repeats-first", format!("do zz_w({}) start\nend\n", dup.join(", ")), Some(duplicate));
    }
    // 6. n same-block declarations of one name with alternating types: the last one decides
    {
        let decls: String = (0..n).map(|i| if i % 2 == 0 { format!("make zz_v get {i}\n") } else { format!("make zz_v get \"s{i}\"\n") }).collect();
        let last_is_num = (n - 1) % 2 == 0;
        let (good, bad) = if last_is_num { ("shout(zz_v times 2)", "shout(zz_v.len())") } else { ("shout(zz_v.len())", "shout(zz_v times 2)") };
        add("control.redeclared-n-times-used-at-last-type", format!("{decls}{good}\n"), None);
        add("type.redeclared-n-times-used-at-earlier-type", format!("{decls}{bad}\n"), Some(if last_is_num { undeclared } else { mismatch }));
    }
    // 7. n functions in one block, the first one defined again at the end
    {
        let defs: String = (0..n).map(|i| format!("do zz_d{i}() start\nend\n")).collect();
        add("control.n-functions", defs.clone(), None);
        add("duplicate.function-after-n-others", format!("{defs}do zz_d0() start\nend\n"), Some(duplicate));
    }
    // 8. n nested functions: the innermost sees the outermost's variable and parameter; the
    //    outside does not see the inner functions
    {
        let open: String = (0..n).map(|i| format!("do zz_n{i}(zz_q{i}) start\n")).collect();
        let mut close = String::new();
        for i in (0..n).rev() {
            if i + 1 < n {
                close.push_str(&format!("return zz_n{}(zz_q{i})\n", i + 1));
            }
            close.push_str("end\n");
        }
        add("control.innermost-function-reads-outermost-names", format!("make zz_top get 1\n{open}return zz_top add zz_q0\n{close}shout(zz_n0(1))\n"), None);
        if n >= 2 {
            add("function.inner-function-from-top", format!("{open}return 1\n{close}shout(zz_n{}(1))\n", n - 1), Some(undeclared));
            add("undeclared.inner-parameter-from-top", format!("{open}return 1\n{close}shout(zz_q{})\n", n - 1), Some(undeclared));
        }
    }
    v
}

/// Every text of the matrix and family stages (C07 runs them through its own oracle too: the
/// ill-formed programs are the ones that reach the checker's error paths).
pub fn all_sources() -> Vec<String> {
    let mut out = Vec::new();
    for rule in rules() {
        for (_, _, _, template) in CONTEXTS {
            out.push(template.replace('@', rule.text));
        }
    }
    for n in 1..=FAMILY_MAX_N {
        for c in family_cases(n) {
            out.push(c.src);
        }
    }
    out
}

fn run_families(ctx: &mut Ctx) {
    let mut cases: Vec<(usize, FamCase)> = Vec::new();
    for n in 1..=FAMILY_MAX_N {
        for c in family_cases(n) {
            cases.push((n, c));
        }
    }
    let total = cases.len() as u64;
    ctx.out.extra.insert("family_cases".into(), json!(total));
    ctx.out.extra.insert("family_max_n".into(), json!(FAMILY_MAX_N));
    let idxs: Vec<u64> = ctx.indices().filter(|i| *i < total).collect();
    for idx in idxs {
        ctx.out.begin(idx);
        let (n, c) = &cases[idx as usize];
        let name: &'static str = Box::leak(format!("family.{}", c.name).into_boxed_str());
        let rule = Rule { name, text: "", category: c.want.unwrap_or(none), when: if c.want.is_some() { When::Always } else { When::Never } };
        judge(ctx, idx, &c.src, &rule, &format!("n={n}"), c.want.is_some(), *n >= 2);
    }
}

pub fn run(ctx: &mut Ctx) {
    let stage = ctx.opt("stage").unwrap_or("matrix").to_string();
    if stage == "family" {
        run_families(ctx);
        return;
    }
    let rules = rules();
    if stage == "matrix" {
        let total = (rules.len() * CONTEXTS.len()) as u64;
        ctx.out.extra.insert("matrix_size".into(), json!(total));
        ctx.out.extra.insert("rules".into(), json!(rules.len()));
        ctx.out.extra.insert("contexts".into(), json!(CONTEXTS.len()));
        let idxs: Vec<u64> = ctx.indices().filter(|i| *i < total).collect();
        for idx in idxs {
            ctx.out.begin(idx);
            let rule = &rules[idx as usize / CONTEXTS.len()];
            let (cname, in_loop, in_fn, template) = CONTEXTS[idx as usize % CONTEXTS.len()];
            let src = template.replace('@', rule.text);
            let violation = is_violation(rule.when, in_loop, in_fn);
            judge(ctx, idx, &src, rule, cname, violation, cname != "top");
        }
        return;
    }
    for idx in ctx.indices() {
        ctx.out.begin(idx);
        let mut rng = Rng::new(util::case_seed(ctx.seed, "static", idx));
        let profile = *rng.pick(&[Profile::Core, Profile::Scope, Profile::Scope, Profile::Array, Profile::Dead]);
        let (mut prog, _) = genp::generate(&mut rng, profile);
        let errs = interp::resolve(&mut prog);
        if !errs.is_empty() {
            ctx.out.inconclusive(idx, "generator produced a statically invalid host", json!({}));
            continue;
        }
        // the host itself must be accepted
        let host_src = print::to_source(&prog);
        let host_ok = util::guarded(|| pipeline::run_source(&host_src, RunCfg { check_only: true, ..RunCfg::default() }));
        ctx.out.evaluations += 1;
        match host_ok {
            Ok(r) if r.accepted => ctx.out.tag("host.accepted"),
            Ok(r) => {
                let errors: Vec<String> = r.parse.iter().chain(r.sem.iter()).filter(|d| d.severity == "error").map(|d| d.message.to_string()).collect();
                ctx.out.fail(idx, "rejected-although-valid|generated-host", json!({"got": errors, "src": host_src}), json!({"src": host_src}));
                continue;
            }
            Err((msg, loc)) => {
                let sig = format!("panic|{}|{}", util::normalise_msg(&msg), util::panic_site(&loc));
                ctx.out.fail(idx, &sig, json!({"panic": msg, "at": loc}), json!({"src": host_src}));
                continue;
            }
        }
        let mut blocks = Vec::new();
        walk_blocks(&prog.body, false, false, 0, &mut blocks);
        for _ in 0..6 {
            let rule = &rules[rng.usize(rules.len())];
            let k = rng.usize(blocks.len());
            let info = &blocks[k];
            let violation = is_violation(rule.when, info.in_loop, info.in_fn);
            // a valid `return 1` inside a generated function can change that function's inferred
            // return type; only the violating contexts of the context rules are asserted on random hosts
            if !violation && rule.when != When::Never && rule.name.starts_with("context.return") {
                continue;
            }
            let mut p2 = prog.clone();
            let mut t = k as isize;
            insert_at(&mut p2.body, &mut t, &mut rng, rule.text);
            let src = print::to_source(&p2);
            let cname = format!("random.depth{}{}{}", info.depth.min(4), if info.in_loop { ".loop" } else { "" }, if info.in_fn { ".fn" } else { "" });
            judge(ctx, idx, &src, rule, &cname, violation, info.depth >= 1);
        }
    }
}
