//! Drives the real implementation (lexer → parser → resolver → runtime) from source text.

use naijascript::arena::Arena;
use naijascript::diagnostics::{Diagnostics, Severity};
use naijascript::process::HostPolicy;
use naijascript::resolver::Resolver;
use naijascript::runtime::Runtime;
use naijascript::syntax::parser::Parser;
use naijascript::syntax::scanner::Lexer;
use naijascript::verif;

#[derive(Clone, Debug)]
pub struct DiagInfo {
    pub severity: &'static str,
    pub code: &'static str,
    pub message: &'static str,
    pub span: (usize, usize),
    pub labels: Vec<(usize, usize, String)>,
}

pub fn collect(d: &Diagnostics<'_>) -> Vec<DiagInfo> {
    d.diagnostics
        .iter()
        .map(|x| DiagInfo {
            severity: match x.severity {
                Severity::Error => "error",
                Severity::Warning => "warning",
                Severity::Note => "note",
            },
            code: x.code,
            message: x.message,
            span: (x.span.start, x.span.end),
            labels: x.labels.iter().map(|l| (l.span.start, l.span.end, l.message.to_string())).collect(),
        })
        .collect()
}

#[derive(Clone, Copy, Debug)]
pub struct RunCfg {
    /// separate frame arena (memory reclamation on)
    pub frame: bool,
    /// hand the optimisation plan to the runtime
    pub plan: bool,
    /// arena reservation in MiB (address space only)
    pub arena_mib: usize,
    /// record executed/skipped statement ids
    pub trace: bool,
    /// stop after static checking
    pub check_only: bool,
    pub allow_process: bool,
}

impl Default for RunCfg {
    fn default() -> Self {
        Self { frame: true, plan: true, arena_mib: 256, trace: false, check_only: false, allow_process: false }
    }
}

#[derive(Clone, Debug, Default)]
pub struct Real {
    pub parse: Vec<DiagInfo>,
    pub sem: Vec<DiagInfo>,
    pub runtime: Vec<DiagInfo>,
    /// no parse diagnostics and no error-level checker diagnostic
    pub accepted: bool,
    pub output: Vec<String>,
    /// "ok" or the runtime error's message (category)
    pub ending: String,
    pub counters: Vec<u64>,
    pub trace: Option<verif::StmtTrace>,
    pub plan_stmts: usize,
    pub plan_fns: usize,
    pub plan_present: bool,
    pub ran: bool,
}

pub const MIB: usize = 1024 * 1024;

/// Runs the shipped pipeline wiring with separate arenas (as the integration tests do).
pub fn run_source(src: &str, cfg: RunCfg) -> Real {
    let policy = if cfg.allow_process { HostPolicy::native_default() } else { HostPolicy::wasm_default() };
    run_source_with_policy(src, cfg, policy)
}

/// Same, with an explicit host policy (`cfg.allow_process` is ignored).
pub fn run_source_with_policy(src: &str, cfg: RunCfg, policy: HostPolicy) -> Real {
    let arena = Arena::new(cfg.arena_mib * MIB).expect("arena");
    let res_arena = Arena::new(cfg.arena_mib * MIB).expect("arena");
    let frame = Arena::new(cfg.arena_mib * MIB).expect("arena");
    let mut out = Real::default();

    let lexer = Lexer::new(src, &arena);
    let mut parser = Parser::new(lexer, &arena);
    let (root, perr) = parser.parse_program();
    out.parse = collect(perr);
    if !perr.diagnostics.is_empty() {
        out.ending = "rejected".into();
        return out;
    }

    let mut resolver = Resolver::with_facts_arena(&res_arena, &arena);
    resolver.resolve(root);
    out.sem = collect(&resolver.errors);
    if resolver.errors.has_errors() {
        out.ending = "rejected".into();
        return out;
    }
    out.accepted = true;
    if cfg.check_only {
        out.ending = "checked".into();
        if let Some(plan) = resolver.optimization_plan.as_ref() {
            out.plan_present = true;
            out.plan_stmts = plan.removable_stmts.len();
            out.plan_fns = plan.removable_function_defs.len();
        }
        return out;
    }
    let (facts, plan) = resolver.into_artifacts();
    if let Some(plan) = plan.as_ref() {
        out.plan_present = true;
        out.plan_stmts = plan.removable_stmts.len();
        out.plan_fns = plan.removable_function_defs.len();
    }

    let mut runtime =
        Runtime::new_with_host_policy(&arena, if cfg.frame { Some(&frame) } else { None }, policy);
    verif::reset_counters();
    if cfg.trace {
        verif::stmt_trace_start();
    }
    let errs = runtime.run_with_analysis(root, &facts, if cfg.plan { plan.as_ref() } else { None });
    out.runtime = collect(errs);
    out.ran = true;
    out.ending = errs
        .diagnostics
        .iter()
        .find(|d| d.severity == Severity::Error)
        .map_or_else(|| "ok".to_string(), |d| d.message.to_string());
    if cfg.trace {
        out.trace = Some(verif::stmt_trace_take());
    }
    out.counters = verif::counters().to_vec();
    out.output = runtime.output.iter().map(ToString::to_string).collect();
    out
}

pub fn counter(real: &Real, name: &str) -> u64 {
    verif::COUNTER_NAMES.iter().position(|n| *n == name).map_or(0, |i| real.counters.get(i).copied().unwrap_or(0))
}
