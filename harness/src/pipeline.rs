//! Drives the real implementation (lexer → parser → resolver → runtime) from source text.

use naijascript::arena::Arena;
use naijascript::diagnostics::{Diagnostics, Severity};
use naijascript::process::HostPolicy;
use naijascript::resolver::Resolver;
use naijascript::runtime::Runtime;
use naijascript::syntax::parser::Parser;
use naijascript::syntax::scanner::Lexer;
use naijascript::verif;

#[derive(Clone, Debug)]
pub struct DiagInfo {
    pub severity: &'static str,
    pub code: &'static str,
    pub message: &'static str,
    pub span: (usize, usize),
    pub labels: Vec<(usize, usize, String)>,
}

pub fn collect(d: &Diagnostics<'_>) -> Vec<DiagInfo> {
    d.diagnostics
        .iter()
        .map(|x| DiagInfo {
            severity: match x.severity {
                Severity::Error => "error",
                Severity::Warning => "warning",
                Severity::Note => "note",
            },
            code: x.code,
            message: x.message,
            span: (x.span.start, x.span.end),
            labels: x.labels.iter().map(|l| (l.span.start, l.span.end, l.message.to_string())).collect(),
        })
        .collect()
}

#[derive(Clone, Copy, Debug)]
pub struct RunCfg {
    /// separate frame arena (memory reclamation on)
    pub frame: bool,
    /// hand the optimisation plan to the runtime
    pub plan: bool,
    /// arena reservation in MiB (address space only)
    pub arena_mib: usize,
    /// record executed/skipped statement ids
    pub trace: bool,
    /// stop after static checking
    pub check_only: bool,
    pub allow_process: bool,
    /// recompute the reachability mask from the facts (public analysis API)
    pub want_mask: bool,
}

impl Default for RunCfg {
    fn default() -> Self {
        Self { frame: true, plan: true, arena_mib: 256, trace: false, check_only: false, allow_process: false, want_mask: false }
    }
}

#[derive(Clone, Debug, Default)]
pub struct Real {
    pub parse: Vec<DiagInfo>,
    pub sem: Vec<DiagInfo>,
    pub runtime: Vec<DiagInfo>,
    /// no parse diagnostics and no error-level checker diagnostic
    pub accepted: bool,
    pub output: Vec<String>,
    /// "ok" or the runtime error's message (category)
    pub ending: String,
    pub counters: Vec<u64>,
    pub trace: Option<verif::StmtTrace>,
    pub plan_stmts: usize,
    pub plan_fns: usize,
    pub plan_present: bool,
    pub ran: bool,
    /// statement id -> reachable, as computed by analysis::reachability
    pub reachable_mask: Option<Vec<bool>>,
    /// statement ids the plan marks removable
    pub plan_stmt_ids: Vec<u32>,
    pub warnings: Vec<(String, usize, usize)>,
    /// what the CLI is expected to print for this text, with FILE_TOKEN in place of the file name
    pub expected_stdout: String,
}

/// placeholder for the file name inside `Real::expected_stdout`
pub const FILE_TOKEN: &str = "\u{1}FILE\u{1}";

pub const MIB: usize = 1024 * 1024;

/// Runs the shipped pipeline wiring with separate arenas (as the integration tests do).
pub fn run_source(src: &str, cfg: RunCfg) -> Real {
    let policy = if cfg.allow_process { HostPolicy::native_default() } else { HostPolicy::wasm_default() };
    run_source_with_policy(src, cfg, policy)
}

/// Same, with an explicit host policy (`cfg.allow_process` is ignored).
pub fn run_source_with_policy(src: &str, cfg: RunCfg, policy: HostPolicy) -> Real {
    let arena = Arena::new(cfg.arena_mib * MIB).expect("arena");
    let res_arena = Arena::new(cfg.arena_mib * MIB).expect("arena");
    let frame = Arena::new(cfg.arena_mib * MIB).expect("arena");
    let mut out = Real::default();

    let lexer = Lexer::new(src, &arena);
    let mut parser = Parser::new(lexer, &arena);
    let (root, perr) = parser.parse_program();
    out.parse = collect(perr);
    if !perr.diagnostics.is_empty() {
        out.ending = "rejected".into();
        out.expected_stdout = perr.render_ansi(src, FILE_TOKEN).to_string();
        return out;
    }

    let mut resolver = Resolver::with_facts_arena(&res_arena, &arena);
    resolver.resolve(root);
    out.sem = collect(&resolver.errors);
    if !resolver.errors.diagnostics.is_empty() {
        out.expected_stdout = resolver.errors.render_ansi(src, FILE_TOKEN).to_string();
    }
    if resolver.errors.has_errors() {
        out.ending = "rejected".into();
        return out;
    }
    out.accepted = true;
    out.warnings = resolver
        .errors
        .diagnostics
        .iter()
        .filter(|d| d.severity == Severity::Warning)
        .map(|d| (d.message.to_string(), d.span.start, d.span.end))
        .collect();
    if cfg.want_mask && resolver.optimization_plan.is_some() {
        let counts = naijascript::analysis::cfg::count_program(&resolver.facts, &res_arena);
        let program =
            naijascript::analysis::cfg::build_program_with_counts(&resolver.facts, &counts, &res_arena);
        let mask = naijascript::analysis::reachability::reachable_statement_mask(&program, &res_arena);
        out.reachable_mask = Some(mask.iter().copied().collect());
    }
    if let Some(plan) = resolver.optimization_plan.as_ref() {
        out.plan_stmt_ids = plan.removable_stmts.iter().map(|s| s.0).collect();
    }
    if cfg.check_only {
        out.ending = "checked".into();
        if let Some(plan) = resolver.optimization_plan.as_ref() {
            out.plan_present = true;
            out.plan_stmts = plan.removable_stmts.len();
            out.plan_fns = plan.removable_function_defs.len();
        }
        return out;
    }
    let (facts, plan) = resolver.into_artifacts();
    if let Some(plan) = plan.as_ref() {
        out.plan_present = true;
        out.plan_stmts = plan.removable_stmts.len();
        out.plan_fns = plan.removable_function_defs.len();
    }

    let mut runtime =
        Runtime::new_with_host_policy(&arena, if cfg.frame { Some(&frame) } else { None }, policy);
    verif::reset_counters();
    if cfg.trace {
        verif::stmt_trace_start();
    }
    let errs = runtime.run_with_analysis(root, &facts, if cfg.plan { plan.as_ref() } else { None });
    out.runtime = collect(errs);
    out.ran = true;
    out.ending = errs
        .diagnostics
        .iter()
        .find(|d| d.severity == Severity::Error)
        .map_or_else(|| "ok".to_string(), |d| d.message.to_string());
    if cfg.trace {
        out.trace = Some(verif::stmt_trace_take());
    }
    out.counters = verif::counters().to_vec();
    out.output = runtime.output.iter().map(ToString::to_string).collect();
    for line in &out.output {
        out.expected_stdout.push_str(line);
        out.expected_stdout.push('\n');
    }
    if !runtime.errors.diagnostics.is_empty() {
        out.expected_stdout.push_str(&runtime.errors.render_ansi(src, FILE_TOKEN));
    }
    out
}

pub fn counter(real: &Real, name: &str) -> u64 {
    verif::COUNTER_NAMES.iter().position(|n| *n == name).map_or(0, |i| real.counters.get(i).copied().unwrap_or(0))
}
