//! vhelper: the child process used by the C15 (`report`) and C16 (`emit`) checks.
//! Deliberately independent of naijascript: std + libc only.
//!
//! `vhelper report <side_file> [args...]`
//!     creates `<side_file>.spawned` first thing (spawn marker), then writes to `<side_file>`
//!     (temp + rename) a JSON object: argv (hex, every element including argv[0]), the whole
//!     environment as [key_hex, value_hex] pairs, cwd (hex), stdin read to EOF (hex), what kind of
//!     file stdin is, and the pid. Exit code from env `VH_EXIT` (default 0). When `VH_KEYS` is set
//!     only the listed (comma separated) variables are reported (value null when unset).
//!
//! `VH_SIDE=<side_file> vhelper [args...]` (first argument neither `report` nor `emit`): the same
//!     report, for commands without arguments.
//!
//! `vhelper emit <plan_file>`
//!     writes its pid to `<plan_file>.pid`, then plays the plan: per stream a list of steps
//!     (`{"write": n}`, `{"sleep": ms}`, `{"close": true}`) executed by one thread per stream with
//!     raw `write(2)` calls of exactly the chunk size, position-coded content, optional byte
//!     patches (`"patch": {"stdout": [[offset, "hex"], ..]}`), then `linger_ms`, then
//!     `{"end": {"exit": code}}` or `{"end": {"hang": true}}`.

use std::io::{Read, Write};
use std::os::unix::ffi::{OsStrExt, OsStringExt};

fn hex(bytes: &[u8]) -> String {
    const D: &[u8; 16] = b"0123456789abcdef";
    let mut s = String::with_capacity(bytes.len() * 2);
    for b in bytes {
        s.push(D[(b >> 4) as usize] as char);
        s.push(D[(b & 15) as usize] as char);
    }
    s
}

fn unhex(s: &str) -> Vec<u8> {
    let b = s.as_bytes();
    let v = |c: u8| match c {
        b'0'..=b'9' => c - b'0',
        b'a'..=b'f' => c - b'a' + 10,
        b'A'..=b'F' => c - b'A' + 10,
        _ => 0,
    };
    b.chunks(2).filter(|c| c.len() == 2).map(|c| (v(c[0]) << 4) | v(c[1])).collect()
}

fn die(msg: &str) -> ! {
    // not on stderr: stderr may be a captured stream under test
    let _ = std::fs::write("/tmp/vhelper-last-error.txt", msg);
    std::process::exit(97);
}

fn main() {
    let args: Vec<std::ffi::OsString> = std::env::args_os().collect();
    unsafe {
        // die with the worker: a hanging helper must not outlive a killed worker
        libc::prctl(libc::PR_SET_PDEATHSIG, libc::SIGKILL);
        libc::signal(libc::SIGPIPE, libc::SIG_IGN);
    }
    match args.get(1).map(|a| a.as_bytes()) {
        Some(b"report") => report(&args, args.get(2).cloned()),
        Some(b"emit") => emit(&args),
        // no sub-command: the side file comes from the environment, so that commands without
        // any argument (or with arbitrary arguments) can be reported on as well
        _ if std::env::var_os("VH_SIDE").is_some() => report(&args, std::env::var_os("VH_SIDE")),
        _ => {
            eprintln!("usage: vhelper report <side_file> [args...] | vhelper emit <plan_file>");
            std::process::exit(2);
        }
    }
}

// ---------------------------------------------------------------------------
// report
// ---------------------------------------------------------------------------

fn report(args: &[std::ffi::OsString], side: Option<std::ffi::OsString>) -> ! {
    let Some(side) = side else { die("report: no side file") };
    let side = std::path::PathBuf::from(side);
    let mut marker = side.clone().into_os_string();
    marker.push(".spawned");
    // the marker comes before anything else
    if std::fs::write(&marker, b"1").is_err() {
        die("report: cannot write marker");
    }

    let mut out = String::new();
    out.push_str("{\"pid\":");
    out.push_str(&std::process::id().to_string());
    out.push_str(",\"argv\":[");
    for (i, a) in args.iter().enumerate() {
        if i > 0 {
            out.push(',');
        }
        out.push('"');
        out.push_str(&hex(a.as_bytes()));
        out.push('"');
    }
    out.push_str("],\"env\":[");
    let keys = std::env::var_os("VH_KEYS");
    let mut first = true;
    if let Some(keys) = keys {
        for k in keys.as_bytes().split(|b| *b == b',') {
            if !first {
                out.push(',');
            }
            first = false;
            let key = std::ffi::OsString::from_vec(k.to_vec());
            out.push_str("[\"");
            out.push_str(&hex(k));
            out.push_str("\",");
            match std::env::var_os(&key) {
                Some(v) => {
                    out.push('"');
                    out.push_str(&hex(v.as_bytes()));
                    out.push('"');
                }
                None => out.push_str("null"),
            }
            out.push(']');
        }
    } else {
        // the raw environment block, so that duplicates would be visible
        unsafe extern "C" {
            static environ: *const *const libc::c_char;
        }
        unsafe {
            let mut p = environ;
            while !p.is_null() && !(*p).is_null() {
                let entry = std::ffi::CStr::from_ptr(*p).to_bytes();
                let (k, v) = match entry.iter().skip(1).position(|b| *b == b'=') {
                    Some(i) => (&entry[..=i], &entry[i + 2..]),
                    None => (entry, &entry[entry.len()..]),
                };
                if !first {
                    out.push(',');
                }
                first = false;
                out.push_str("[\"");
                out.push_str(&hex(k));
                out.push_str("\",\"");
                out.push_str(&hex(v));
                out.push_str("\"]");
                p = p.add(1);
            }
        }
    }
    out.push_str("],\"cwd\":");
    match std::env::current_dir() {
        Ok(d) => {
            out.push('"');
            out.push_str(&hex(d.as_os_str().as_bytes()));
            out.push('"');
        }
        Err(_) => out.push_str("null"),
    }

    // what is fd 0?
    let mut st: libc::stat = unsafe { std::mem::zeroed() };
    let rc = unsafe { libc::fstat(0, &mut st) };
    let kind = if rc != 0 {
        "closed"
    } else {
        match st.st_mode & libc::S_IFMT {
            libc::S_IFIFO => "pipe",
            libc::S_IFCHR => "chr",
            libc::S_IFREG => "reg",
            libc::S_IFSOCK => "sock",
            libc::S_IFDIR => "dir",
            _ => "other",
        }
    };
    out.push_str(",\"stdin_kind\":\"");
    out.push_str(kind);
    out.push_str("\",\"stdin_ino\":");
    out.push_str(&(if rc == 0 { st.st_ino } else { 0 }).to_string());
    out.push_str(",\"stdin_rdev\":");
    out.push_str(&(if rc == 0 { st.st_rdev } else { 0 }).to_string());

    let mut input = Vec::new();
    let read_ok = rc == 0 && std::io::stdin().lock().read_to_end(&mut input).is_ok();
    out.push_str(",\"stdin_read_ok\":");
    out.push_str(if read_ok { "true" } else { "false" });
    out.push_str(",\"stdin\":\"");
    out.push_str(&hex(&input));
    out.push_str("\"}");

    let mut tmp = side.clone().into_os_string();
    tmp.push(".tmp");
    if std::fs::write(&tmp, out.as_bytes()).is_err() || std::fs::rename(&tmp, &side).is_err() {
        die("report: cannot write side file");
    }
    let code = std::env::var("VH_EXIT").ok().and_then(|v| v.parse::<i32>().ok()).unwrap_or(0);
    std::process::exit(code);
}

// ---------------------------------------------------------------------------
// minimal JSON reader (objects, arrays, strings without exotic escapes, numbers, literals)
// ---------------------------------------------------------------------------

#[derive(Debug, Clone)]
#[allow(dead_code)]
enum J {
    Null,
    Bool(bool),
    Num(f64),
    Str(String),
    Arr(Vec<J>),
    Obj(Vec<(String, J)>),
}

impl J {
    fn get(&self, k: &str) -> Option<&J> {
        match self {
            J::Obj(kv) => kv.iter().find(|(n, _)| n == k).map(|(_, v)| v),
            _ => None,
        }
    }
    fn num(&self) -> Option<f64> {
        match self {
            J::Num(n) => Some(*n),
            _ => None,
        }
    }
    fn arr(&self) -> &[J] {
        match self {
            J::Arr(v) => v,
            _ => &[],
        }
    }
}

struct P<'a> {
    s: &'a [u8],
    i: usize,
}

impl P<'_> {
    fn ws(&mut self) {
        while self.i < self.s.len() && self.s[self.i].is_ascii_whitespace() {
            self.i += 1;
        }
    }
    fn value(&mut self) -> Result<J, String> {
        self.ws();
        let Some(&c) = self.s.get(self.i) else { return Err("eof".into()) };
        match c {
            b'{' => {
                self.i += 1;
                let mut kv = Vec::new();
                loop {
                    self.ws();
                    if self.s.get(self.i) == Some(&b'}') {
                        self.i += 1;
                        break;
                    }
                    let J::Str(k) = self.value()? else { return Err("key".into()) };
                    self.ws();
                    if self.s.get(self.i) != Some(&b':') {
                        return Err("colon".into());
                    }
                    self.i += 1;
                    let v = self.value()?;
                    kv.push((k, v));
                    self.ws();
                    if self.s.get(self.i) == Some(&b',') {
                        self.i += 1;
                    }
                }
                Ok(J::Obj(kv))
            }
            b'[' => {
                self.i += 1;
                let mut v = Vec::new();
                loop {
                    self.ws();
                    if self.s.get(self.i) == Some(&b']') {
                        self.i += 1;
                        break;
                    }
                    v.push(self.value()?);
                    self.ws();
                    if self.s.get(self.i) == Some(&b',') {
                        self.i += 1;
                    }
                }
                Ok(J::Arr(v))
            }
            b'"' => {
                self.i += 1;
                let mut out = Vec::new();
                while let Some(&b) = self.s.get(self.i) {
                    self.i += 1;
                    match b {
                        b'"' => return String::from_utf8(out).map(J::Str).map_err(|e| e.to_string()),
                        b'\\' => {
                            let e = *self.s.get(self.i).ok_or("escape")?;
                            self.i += 1;
                            out.push(match e {
                                b'n' => b'\n',
                                b't' => b'\t',
                                b'r' => b'\r',
                                other => other,
                            });
                        }
                        other => out.push(other),
                    }
                }
                Err("unterminated string".into())
            }
            b't' if self.s[self.i..].starts_with(b"true") => {
                self.i += 4;
                Ok(J::Bool(true))
            }
            b'f' if self.s[self.i..].starts_with(b"false") => {
                self.i += 5;
                Ok(J::Bool(false))
            }
            b'n' if self.s[self.i..].starts_with(b"null") => {
                self.i += 4;
                Ok(J::Null)
            }
            _ => {
                let beg = self.i;
                while self.i < self.s.len() && matches!(self.s[self.i], b'0'..=b'9' | b'-' | b'+' | b'.' | b'e' | b'E') {
                    self.i += 1;
                }
                std::str::from_utf8(&self.s[beg..self.i])
                    .ok()
                    .and_then(|t| t.parse::<f64>().ok())
                    .map(J::Num)
                    .ok_or_else(|| format!("bad token at {beg}"))
            }
        }
    }
}

// ---------------------------------------------------------------------------
// emit
// ---------------------------------------------------------------------------

/// Position code shared with the engine (harness/src/engines/proccap.rs::code_byte).
fn code_byte(stream: u8, k: u64) -> u8 {
    let base = if stream == 1 { b'a' } else { b'A' };
    base + ((k + (k / 26) * 7 + (k / 676) * 3) % 26) as u8
}

#[derive(Clone)]
enum Step {
    Write(u64),
    Sleep(u64),
    Close,
}

fn steps_of(plan: &J, name: &str) -> Vec<Step> {
    let mut v = Vec::new();
    if let Some(list) = plan.get(name) {
        for s in list.arr() {
            if let Some(n) = s.get("write").and_then(J::num) {
                v.push(Step::Write(n as u64));
            } else if let Some(n) = s.get("sleep").and_then(J::num) {
                v.push(Step::Sleep(n as u64));
            } else if s.get("close").is_some() {
                v.push(Step::Close);
            }
        }
    }
    v
}

fn patches_of(plan: &J, name: &str) -> Vec<(u64, Vec<u8>)> {
    let mut v = Vec::new();
    if let Some(list) = plan.get("patch").and_then(|p| p.get(name)) {
        for p in list.arr() {
            let a = p.arr();
            if let (Some(off), Some(J::Str(h))) = (a.first().and_then(J::num), a.get(1)) {
                v.push((off as u64, unhex(h)));
            }
        }
    }
    v
}

fn play(fd: i32, stream: u8, steps: &[Step], patches: &[(u64, Vec<u8>)]) {
    let mut offset: u64 = 0;
    let mut open = true;
    for step in steps {
        match step {
            Step::Sleep(ms) => std::thread::sleep(std::time::Duration::from_millis(*ms)),
            Step::Close => {
                if open {
                    unsafe { libc::close(fd) };
                    open = false;
                }
            }
            Step::Write(n) => {
                let n = *n;
                if open && n > 0 {
                    let mut buf: Vec<u8> = (offset..offset + n).map(|k| code_byte(stream, k)).collect();
                    for (at, bytes) in patches {
                        for (j, b) in bytes.iter().enumerate() {
                            let pos = at + j as u64;
                            if pos >= offset && pos < offset + n {
                                buf[(pos - offset) as usize] = *b;
                            }
                        }
                    }
                    let mut done = 0usize;
                    while done < buf.len() {
                        let rc = unsafe { libc::write(fd, buf[done..].as_ptr().cast(), buf.len() - done) };
                        if rc > 0 {
                            done += rc as usize;
                        } else if rc < 0 && std::io::Error::last_os_error().kind() == std::io::ErrorKind::Interrupted {
                        } else {
                            // EPIPE (reader went away) or any other error: stop writing this stream
                            open = false;
                            break;
                        }
                    }
                }
                offset += n;
            }
        }
    }
}

fn emit(args: &[std::ffi::OsString]) -> ! {
    let Some(plan_path) = args.get(2) else { die("emit: no plan file") };
    let plan_path = std::path::PathBuf::from(plan_path);
    let mut pid_path = plan_path.clone().into_os_string();
    pid_path.push(".pid");
    let mut pid_tmp = pid_path.clone();
    pid_tmp.push(".tmp");
    if let Ok(mut f) = std::fs::File::create(&pid_tmp) {
        let _ = write!(f, "{}", std::process::id());
        drop(f);
        let _ = std::fs::rename(&pid_tmp, &pid_path);
    }
    let text = match std::fs::read(&plan_path) {
        Ok(t) => t,
        Err(_) => die("emit: cannot read plan"),
    };
    let plan = match (P { s: &text, i: 0 }).value() {
        Ok(p) => p,
        Err(e) => die(&format!("emit: bad plan: {e}")),
    };
    let so = steps_of(&plan, "stdout");
    let se = steps_of(&plan, "stderr");
    let po = patches_of(&plan, "stdout");
    let pe = patches_of(&plan, "stderr");
    let t1 = std::thread::spawn(move || play(1, 1, &so, &po));
    let t2 = std::thread::spawn(move || play(2, 2, &se, &pe));
    let _ = t1.join();
    let _ = t2.join();
    let linger = plan.get("linger_ms").and_then(J::num).unwrap_or(0.0) as u64;
    if linger > 0 {
        std::thread::sleep(std::time::Duration::from_millis(linger));
    }
    let end = plan.get("end");
    if end.and_then(|e| e.get("hang")).is_some() {
        let parent = unsafe { libc::getppid() };
        loop {
            std::thread::sleep(std::time::Duration::from_millis(500));
            if unsafe { libc::getppid() } != parent {
                std::process::exit(98);
            }
        }
    }
    let code = end.and_then(|e| e.get("exit")).and_then(J::num).unwrap_or(0.0) as i32;
    // exit without running destructors of std's stdout (nothing is buffered there anyway)
    unsafe { libc::_exit(code) }
}
