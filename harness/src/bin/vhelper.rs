fn main() {}
