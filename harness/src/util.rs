//! Shared plumbing: deterministic RNG, worker protocol, hashing, panic capture.

use std::cell::RefCell;
use std::collections::BTreeMap;
use std::io::Write;
use std::os::fd::FromRawFd;

use serde_json::{Value as J, json};

// ---------------------------------------------------------------------------
// RNG
// ---------------------------------------------------------------------------

pub fn splitmix64(x: &mut u64) -> u64 {
    *x = x.wrapping_add(0x9E37_79B9_7F4A_7C15);
    let mut z = *x;
    z = (z ^ (z >> 30)).wrapping_mul(0xBF58_476D_1CE4_E5B9);
    z = (z ^ (z >> 27)).wrapping_mul(0x94D0_49BB_1331_11EB);
    z ^ (z >> 31)
}

/// Seed for case `idx` of stream `tag` under run seed `seed`.
pub fn case_seed(seed: u64, tag: &str, idx: u64) -> u64 {
    let mut s = seed ^ 0xA076_1D64_78BD_642F;
    for b in tag.bytes() {
        s = s.wrapping_mul(0x100_0000_01B3) ^ u64::from(b);
    }
    let mut x = s ^ idx.wrapping_mul(0xD6E8_FEB8_6659_FD93);
    splitmix64(&mut x);
    splitmix64(&mut x)
}

#[derive(Clone)]
pub struct Rng {
    s: [u64; 4],
}

impl Rng {
    pub fn new(seed: u64) -> Self {
        let mut x = seed;
        let s = [splitmix64(&mut x), splitmix64(&mut x), splitmix64(&mut x), splitmix64(&mut x)];
        Self { s }
    }

    pub fn next_u64(&mut self) -> u64 {
        let result = (self.s[0].wrapping_add(self.s[3])).rotate_left(23).wrapping_add(self.s[0]);
        let t = self.s[1] << 17;
        self.s[2] ^= self.s[0];
        self.s[3] ^= self.s[1];
        self.s[1] ^= self.s[2];
        self.s[0] ^= self.s[3];
        self.s[2] ^= t;
        self.s[3] = self.s[3].rotate_left(45);
        result
    }

    /// Uniform in `0..n` (n > 0).
    pub fn below(&mut self, n: u64) -> u64 {
        debug_assert!(n > 0);
        ((u128::from(self.next_u64()) * u128::from(n)) >> 64) as u64
    }

    pub fn usize(&mut self, n: usize) -> usize {
        self.below(n as u64) as usize
    }

    /// Inclusive range.
    pub fn range(&mut self, lo: i64, hi: i64) -> i64 {
        lo + self.below((hi - lo + 1) as u64) as i64
    }

    pub fn chance(&mut self, num: u64, den: u64) -> bool {
        self.below(den) < num
    }

    pub fn pick<'a, T>(&mut self, xs: &'a [T]) -> &'a T {
        &xs[self.usize(xs.len())]
    }

    /// Index drawn with the given weights.
    pub fn weighted(&mut self, weights: &[u32]) -> usize {
        let total: u64 = weights.iter().map(|w| u64::from(*w)).sum();
        let mut x = self.below(total.max(1));
        for (i, w) in weights.iter().enumerate() {
            if x < u64::from(*w) {
                return i;
            }
            x -= u64::from(*w);
        }
        weights.len() - 1
    }
}

// ---------------------------------------------------------------------------
// Hashing
// ---------------------------------------------------------------------------

pub fn hash64(bytes: &[u8]) -> u64 {
    let mut h: u64 = 0xCBF2_9CE4_8422_2325;
    for b in bytes {
        h ^= u64::from(*b);
        h = h.wrapping_mul(0x100_0000_01B3);
    }
    // final avalanche
    let mut x = h;
    splitmix64(&mut x)
}

// ---------------------------------------------------------------------------
// Worker protocol
// ---------------------------------------------------------------------------

/// Line protocol towards the orchestrator, on a duplicate of the original stdout.
/// fd 1 itself is pointed at /dev/null because `shout` prints with `println!`.
pub struct Proto {
    out: std::fs::File,
    hashes: Option<std::fs::File>,
    pub histogram: BTreeMap<String, u64>,
    pub samples: Vec<J>,
    pub max_samples: usize,
    pub evaluations: u64,
    pub nontrivial: u64,
    pub inconclusive: u64,
    pub failures: u64,
    pub discarded: u64,
    pub extra: BTreeMap<String, J>,
    begins: u64,
    /// engine, seed and options of this worker: merged into every replay record
    pub replay_base: J,
}

impl Proto {
    pub fn init(hash_path: Option<&str>, keep_stdout: bool) -> Self {
        let saved = unsafe { libc::dup(1) };
        assert!(saved >= 0);
        if !keep_stdout {
            unsafe {
                let devnull = libc::open(c"/dev/null".as_ptr(), libc::O_WRONLY);
                assert!(devnull >= 0);
                libc::dup2(devnull, 1);
                libc::close(devnull);
            }
        }
        let out = unsafe { std::fs::File::from_raw_fd(saved) };
        let hashes = hash_path.map(|p| {
            std::fs::OpenOptions::new().create(true).append(true).open(p).expect("hash file")
        });
        Self {
            out,
            hashes,
            histogram: BTreeMap::new(),
            samples: Vec::new(),
            max_samples: 4,
            evaluations: 0,
            nontrivial: 0,
            inconclusive: 0,
            failures: 0,
            discarded: 0,
            extra: BTreeMap::new(),
            begins: 0,
            replay_base: json!({}),
        }
    }

    /// Announces the case about to run; if the process dies the orchestrator blames this case.
    pub fn begin(&mut self, idx: u64) {
        self.begins += 1;
        if self.begins % 128 == 0 {
            // partial summary, so that a later crash of this process loses little
            self.flush_summary();
        }
        let _ = writeln!(self.out, "B {idx}");
        PANIC_INFO.with(|p| p.borrow_mut().take());
    }

    pub fn tag(&mut self, name: &str) {
        *self.histogram.entry(name.to_string()).or_insert(0) += 1;
    }

    pub fn tag_n(&mut self, name: &str, n: u64) {
        if n > 0 {
            *self.histogram.entry(name.to_string()).or_insert(0) += n;
        }
    }

    /// Records a distinct non-trivial case (hash is written for cross-shard de-duplication).
    pub fn nontrivial(&mut self, hash: u64) {
        self.nontrivial += 1;
        if let Some(f) = self.hashes.as_mut() {
            let _ = f.write_all(&hash.to_le_bytes());
        }
    }

    pub fn sample(&mut self, s: J) {
        if self.samples.len() < self.max_samples {
            self.samples.push(s);
        }
    }

    /// A violation candidate. `sig` identifies the defect, `detail` is free-form, `replay`
    /// is everything needed to re-run the case.
    pub fn fail(&mut self, idx: u64, sig: &str, detail: J, replay: J) {
        self.failures += 1;
        let mut replay = replay;
        if let (Some(obj), Some(base)) = (replay.as_object_mut(), self.replay_base.as_object()) {
            for (k, v) in base {
                obj.entry(k.clone()).or_insert_with(|| v.clone());
            }
            obj.insert("idx".into(), json!(idx));
        }
        let rec = json!({"idx": idx, "sig": sig, "detail": detail, "replay": replay});
        let _ = writeln!(self.out, "F {rec}");
    }

    pub fn inconclusive(&mut self, idx: u64, why: &str, detail: J) {
        self.inconclusive += 1;
        let rec = json!({"idx": idx, "why": why, "detail": detail});
        let _ = writeln!(self.out, "I {rec}");
    }

    /// Free-form record for the orchestrator (e.g. one observation per case).
    pub fn record(&mut self, rec: &J) {
        let _ = writeln!(self.out, "R {rec}");
    }

    pub fn finish(&mut self) {
        self.flush_summary();
        let _ = writeln!(self.out, "Z done");
        let _ = self.out.flush();
    }

    fn flush_summary(&mut self) {
        let rec = json!({
            "evaluations": self.evaluations,
            "nontrivial": self.nontrivial,
            "inconclusive": self.inconclusive,
            "failures": self.failures,
            "discarded": self.discarded,
            "histogram": self.histogram,
            "samples": self.samples,
            "extra": self.extra,
        });
        let _ = writeln!(self.out, "S {rec}");
        let _ = self.out.flush();
        self.evaluations = 0;
        self.nontrivial = 0;
        self.inconclusive = 0;
        self.failures = 0;
        self.discarded = 0;
        self.histogram.clear();
        self.samples.clear();
        self.extra.clear();
    }
}

// ---------------------------------------------------------------------------
// Panic capture
// ---------------------------------------------------------------------------

thread_local! {
    pub static PANIC_INFO: RefCell<Option<(String, String)>> = const { RefCell::new(None) };
}

pub fn install_panic_hook() {
    std::panic::set_hook(Box::new(|info| {
        let msg = if let Some(s) = info.payload().downcast_ref::<&str>() {
            (*s).to_string()
        } else if let Some(s) = info.payload().downcast_ref::<String>() {
            s.clone()
        } else {
            "<non-string panic>".to_string()
        };
        let loc = info.location().map_or_else(String::new, |l| format!("{}:{}", l.file(), l.line()));
        // one short line on stderr: if the panic cannot unwind the process aborts and this is
        // all the orchestrator gets to see
        eprintln!("panicked at {loc}: {}", msg.chars().take(300).collect::<String>());
        PANIC_INFO.with(|p| *p.borrow_mut() = Some((msg, loc)));
    }));
}

pub fn take_panic() -> Option<(String, String)> {
    PANIC_INFO.with(|p| p.borrow_mut().take())
}

/// Runs `f`, turning a panic into `Err((message, location))`.
pub fn guarded<T>(f: impl FnOnce() -> T) -> Result<T, (String, String)> {
    match std::panic::catch_unwind(std::panic::AssertUnwindSafe(f)) {
        Ok(v) => Ok(v),
        Err(_) => Err(take_panic().unwrap_or_else(|| ("<unknown panic>".into(), String::new()))),
    }
}

/// Normalises a panic message: digits → `N`, so that indices/lengths do not split signatures.
pub fn normalise_msg(msg: &str) -> String {
    let mut out = String::with_capacity(msg.len());
    let mut in_digits = false;
    for c in msg.chars() {
        if c.is_ascii_digit() {
            if !in_digits {
                out.push('N');
            }
            in_digits = true;
        } else {
            in_digits = false;
            out.push(c);
        }
    }
    out.chars().take(160).collect()
}

/// `src/foo.rs:123` → `src/foo.rs::enclosing_fn` by scanning the file backwards for `fn name`.
pub fn panic_site(loc: &str) -> String {
    let Some((file, line)) = loc.rsplit_once(':') else {
        return loc.to_string();
    };
    let Ok(line) = line.parse::<usize>() else {
        return loc.to_string();
    };
    let rel = file.strip_prefix("/repo/").unwrap_or(file);
    let path = if file.starts_with('/') { file.to_string() } else { format!("/repo/{file}") };
    let Ok(text) = std::fs::read_to_string(&path) else {
        return rel.to_string();
    };
    let lines: Vec<&str> = text.lines().collect();
    let mut i = line.min(lines.len());
    while i > 0 {
        i -= 1;
        let l = lines[i].trim_start();
        let l = l
            .trim_start_matches("pub(crate) ")
            .trim_start_matches("pub(super) ")
            .trim_start_matches("pub ")
            .trim_start_matches("const ")
            .trim_start_matches("unsafe ");
        if let Some(rest) = l.strip_prefix("fn ") {
            let name: String =
                rest.chars().take_while(|c| c.is_alphanumeric() || *c == '_').collect();
            return format!("{rel}::{name}");
        }
    }
    rel.to_string()
}
