//! Reference resolver and interpreter for the documented language.
//!
//! Lexical scoping is implemented with real environments: a function value closes over the
//! activation of the block that defines it. Variable references are bound to declaration
//! sites by a static pass (`resolve`), in text order, so that a reference never sees a
//! declaration that comes later in the text.

use std::cell::RefCell;
use std::collections::HashMap;
use std::fmt::Write as _;
use std::rc::Rc;

use super::ast::*;

pub const GLOBAL_BUILTINS: [&str; 5] = ["shout", "typeof", "read_line", "to_string", "command"];
pub const BUILTIN_FUNC: u32 = u32::MAX - 1;

// ---------------------------------------------------------------------------
// Static resolution
// ---------------------------------------------------------------------------

#[derive(Clone, Debug, PartialEq, Eq)]
pub enum StaticError {
    UndeclaredVariable(String),
    AssignUndeclared(String),
    UndeclaredFunction(String),
    Arity(String),
    BreakOutsideLoop,
    ContinueOutsideLoop,
    ReturnOutsideFunction,
    DuplicateFunction(String),
    DuplicateParam(String),
    ReservedName(String),
}

struct Res {
    vars: Vec<HashMap<String, u32>>,
    funcs: Vec<HashMap<String, (u32, usize)>>,
    next_decl: u32,
    next_func: u32,
    loop_depth: usize,
    fn_depth: usize,
    pub errors: Vec<StaticError>,
}

/// Binds every reference to its declaration site. Returns the static errors found
/// (the documented scope/arity/context rules only; type rules are the C09 oracle's business).
pub fn resolve(p: &mut Program) -> Vec<StaticError> {
    let mut r = Res {
        vars: Vec::new(),
        funcs: Vec::new(),
        next_decl: 0,
        next_func: 0,
        loop_depth: 0,
        fn_depth: 0,
        errors: Vec::new(),
    };
    r.block(&mut p.body);
    r.errors
}

impl Res {
    fn lookup_var(&self, name: &str) -> Option<u32> {
        self.vars.iter().rev().find_map(|s| s.get(name).copied())
    }

    fn lookup_func(&self, name: &str) -> Option<(u32, usize)> {
        self.funcs.iter().rev().find_map(|s| s.get(name).copied())
    }

    fn block(&mut self, b: &mut Block) {
        self.vars.push(HashMap::new());
        self.funcs.push(HashMap::new());
        for s in &mut b.stmts {
            if let Stmt::FuncDef(f) = s {
                if GLOBAL_BUILTINS.contains(&f.name.as_str()) {
                    self.errors.push(StaticError::ReservedName(f.name.clone()));
                }
                if self.funcs.last().unwrap().contains_key(&f.name) {
                    self.errors.push(StaticError::DuplicateFunction(f.name.clone()));
                    f.id = u32::MAX;
                    continue;
                }
                let id = self.next_func;
                self.next_func += 1;
                f.id = id;
                self.funcs.last_mut().unwrap().insert(f.name.clone(), (id, f.params.len()));
            }
        }
        for s in &mut b.stmts {
            self.stmt(s);
        }
        self.vars.pop();
        self.funcs.pop();
    }

    fn stmt(&mut self, s: &mut Stmt) {
        match s {
            Stmt::Make { name, init, decl } => {
                if GLOBAL_BUILTINS.contains(&name.as_str()) {
                    self.errors.push(StaticError::ReservedName(name.clone()));
                }
                if let Some(e) = init {
                    self.expr(e);
                }
                let scope = self.vars.last_mut().unwrap();
                if let Some(d) = scope.get(name.as_str()) {
                    *decl = *d;
                } else {
                    *decl = self.next_decl;
                    self.next_decl += 1;
                    scope.insert(name.clone(), *decl);
                }
            }
            Stmt::Assign { name, value, decl } => {
                match self.lookup_var(name) {
                    Some(d) => *decl = d,
                    None => self.errors.push(StaticError::AssignUndeclared(name.clone())),
                }
                self.expr(value);
            }
            Stmt::AssignIndex { target, value } => {
                self.expr(target);
                self.expr(value);
            }
            Stmt::If { cond, then_b, else_b } => {
                self.expr(cond);
                self.block(then_b);
                if let Some(eb) = else_b {
                    self.block(eb);
                }
            }
            Stmt::Loop { cond, body } => {
                self.expr(cond);
                self.loop_depth += 1;
                self.block(body);
                self.loop_depth -= 1;
            }
            Stmt::Block(b) => self.block(b),
            Stmt::FuncDef(f) => {
                if f.id == u32::MAX {
                    return;
                }
                let mut scope = HashMap::new();
                f.param_decls.clear();
                for p in &f.params {
                    if GLOBAL_BUILTINS.contains(&p.as_str()) {
                        self.errors.push(StaticError::ReservedName(p.clone()));
                    }
                    if scope.contains_key(p) {
                        self.errors.push(StaticError::DuplicateParam(p.clone()));
                    }
                    let d = self.next_decl;
                    self.next_decl += 1;
                    scope.insert(p.clone(), d);
                    f.param_decls.push(d);
                }
                self.vars.push(scope);
                let (saved_loop, saved_fn) = (self.loop_depth, self.fn_depth);
                self.loop_depth = 0;
                self.fn_depth += 1;
                self.block(&mut f.body);
                self.loop_depth = saved_loop;
                self.fn_depth = saved_fn;
                self.vars.pop();
            }
            Stmt::Return(e) => {
                if self.fn_depth == 0 {
                    self.errors.push(StaticError::ReturnOutsideFunction);
                }
                if let Some(e) = e {
                    self.expr(e);
                }
            }
            Stmt::Break => {
                if self.loop_depth == 0 {
                    self.errors.push(StaticError::BreakOutsideLoop);
                }
            }
            Stmt::Continue => {
                if self.loop_depth == 0 {
                    self.errors.push(StaticError::ContinueOutsideLoop);
                }
            }
            Stmt::Expr(e) => self.expr(e),
            Stmt::Raw(_) => {}
        }
    }

    fn expr(&mut self, e: &mut Expr) {
        match e {
            Expr::Num(..) | Expr::Bool(..) | Expr::Null => {}
            Expr::Str(lit) => {
                if let StrLit::Template { segs, .. } = lit {
                    for seg in segs {
                        if let Seg::Var { name, decl, .. } = seg {
                            match self.lookup_var(name) {
                                Some(d) => *decl = d,
                                None => {
                                    self.errors.push(StaticError::UndeclaredVariable(name.clone()));
                                }
                            }
                        }
                    }
                }
            }
            Expr::Var { name, decl } => match self.lookup_var(name) {
                Some(d) => *decl = d,
                None => self.errors.push(StaticError::UndeclaredVariable(name.clone())),
            },
            Expr::Bin(_, l, r) => {
                self.expr(l);
                self.expr(r);
            }
            Expr::Un(_, x) => self.expr(x),
            Expr::Arr(items) => {
                for i in items {
                    self.expr(i);
                }
            }
            Expr::Index(b, i) => {
                self.expr(b);
                self.expr(i);
            }
            Expr::Call { name, args, func } => {
                if GLOBAL_BUILTINS.contains(&name.as_str()) {
                    *func = BUILTIN_FUNC;
                    if args.len() != 1 {
                        self.errors.push(StaticError::Arity(name.clone()));
                    }
                } else {
                    match self.lookup_func(name) {
                        Some((id, arity)) => {
                            *func = id;
                            if arity != args.len() {
                                self.errors.push(StaticError::Arity(name.clone()));
                            }
                        }
                        None => self.errors.push(StaticError::UndeclaredFunction(name.clone())),
                    }
                }
                for a in args {
                    self.expr(a);
                }
            }
            Expr::Method { recv, args, .. } => {
                self.expr(recv);
                for a in args {
                    self.expr(a);
                }
            }
        }
    }
}

// ---------------------------------------------------------------------------
// Values
// ---------------------------------------------------------------------------

#[derive(Clone, Debug, PartialEq)]
pub enum Value {
    Num(f64),
    Str(String),
    Bool(bool),
    Null,
    Arr(Vec<Value>),
    /// process command builder: program and the number of arguments are what it prints
    Cmd { program: String, args: usize },
}

impl Value {
    pub fn type_name(&self) -> &'static str {
        match self {
            Value::Num(..) => "number",
            Value::Str(..) => "string",
            Value::Bool(..) => "boolean",
            Value::Null => "null",
            Value::Arr(..) => "array",
            Value::Cmd { .. } => "process_command",
        }
    }

    pub fn display(&self) -> String {
        let mut s = String::new();
        self.fmt_into(&mut s);
        s
    }

    fn fmt_into(&self, out: &mut String) {
        match self {
            Value::Num(n) => {
                let _ = write!(out, "{n}");
            }
            Value::Str(s) => out.push_str(s),
            Value::Bool(b) => {
                let _ = write!(out, "{b}");
            }
            Value::Null => out.push_str("null"),
            Value::Cmd { program, args } => {
                let _ = write!(out, "<process_command program=\"{program}\" args={args}>");
            }
            Value::Arr(items) => {
                out.push('[');
                for (i, it) in items.iter().enumerate() {
                    if i > 0 {
                        out.push_str(", ");
                    }
                    if let Value::Str(s) = it {
                        out.push('"');
                        out.push_str(s);
                        out.push('"');
                    } else {
                        it.fmt_into(out);
                    }
                }
                out.push(']');
            }
        }
    }
}

#[derive(Clone, Debug, PartialEq, Eq)]
pub enum Ending {
    Ok,
    DivisionByZero,
    IndexOutOfBounds,
    InvalidIndex,
    TypeMismatch,
    /// The program left the documented domain (e.g. an operator applied to a type it is not
    /// defined for); the case says nothing about C01 and is discarded.
    Stuck(String),
    /// Step or depth budget of the model exhausted; discarded.
    Fuel,
}

impl Ending {
    pub fn name(&self) -> &'static str {
        match self {
            Ending::Ok => "ok",
            Ending::DivisionByZero => "Division by zero",
            Ending::IndexOutOfBounds => "Index out of bounds",
            Ending::InvalidIndex => "Invalid index",
            Ending::TypeMismatch => "Type mismatch",
            Ending::Stuck(..) => "stuck",
            Ending::Fuel => "fuel",
        }
    }

    pub fn comparable(&self) -> bool {
        !matches!(self, Ending::Stuck(..) | Ending::Fuel)
    }
}

type R<T> = Result<T, Ending>;

/// Values beyond these sizes are outside what the checks want to explore (and would only
/// measure memory): the case is discarded like one that ran out of steps.
const MAX_STR: usize = 1 << 16;
const MAX_ARR: usize = 1 << 12;

fn capped(v: Value) -> R<Value> {
    match &v {
        Value::Str(s) if s.len() > MAX_STR => Err(Ending::Fuel),
        Value::Arr(items) if items.len() > MAX_ARR => Err(Ending::Fuel),
        _ => Ok(v),
    }
}

fn stuck<T>(why: &str) -> R<T> {
    Err(Ending::Stuck(why.to_string()))
}

// ---------------------------------------------------------------------------
// Environments
// ---------------------------------------------------------------------------

struct Scope<'p> {
    vars: RefCell<Vec<(u32, Value)>>,
    funcs: RefCell<Vec<&'p FuncDef>>,
    parent: Option<Rc<Scope<'p>>>,
}

impl<'p> Scope<'p> {
    fn new(parent: Option<Rc<Scope<'p>>>) -> Rc<Self> {
        Rc::new(Self { vars: RefCell::new(Vec::new()), funcs: RefCell::new(Vec::new()), parent })
    }
}

enum Flow {
    Next,
    Return(Value),
    Break,
    Continue,
}

#[derive(Default, Clone, Debug)]
pub struct Features {
    pub loops: u32,
    pub loop_iters: u32,
    pub breaks: u32,
    pub continues: u32,
    pub calls: u32,
    pub max_depth: u32,
    pub max_same_fn_depth: u32,
    pub interp: u32,
    pub methods: u32,
    pub index_writes: u32,
    pub short_circuits: u32,
    pub captures_read: u32,
    pub captures_written: u32,
    pub shadow_reads: u32,
    pub array_mutations: u32,
    pub strings_built: u32,
}

pub struct Interp<'p> {
    pub output: Vec<String>,
    pub fuel: u64,
    depth: u32,
    pub feat: Features,
    fn_stack: Vec<u32>,
    /// decl ids owned by the function activation on top (params + locals), to classify captures
    owner_of_decl: HashMap<u32, u32>,
    _p: std::marker::PhantomData<&'p ()>,
}

pub struct Outcome {
    pub output: Vec<String>,
    pub ending: Ending,
    pub feat: Features,
}

pub fn run(p: &Program, fuel: u64) -> Outcome {
    let mut it = Interp {
        output: Vec::new(),
        fuel,
        depth: 0,
        feat: Features::default(),
        fn_stack: vec![u32::MAX],
        owner_of_decl: HashMap::new(),
        _p: std::marker::PhantomData,
    };
    let root = Scope::new(None);
    let ending = match it.block_in(&p.body, root) {
        Ok(_) => Ending::Ok,
        Err(e) => e,
    };
    Outcome { output: it.output, ending, feat: it.feat }
}

impl<'p> Interp<'p> {
    fn tick(&mut self) -> R<()> {
        if self.fuel == 0 {
            return Err(Ending::Fuel);
        }
        self.fuel -= 1;
        Ok(())
    }

    fn block(&mut self, b: &'p Block, parent: &Rc<Scope<'p>>) -> R<Flow> {
        let scope = Scope::new(Some(parent.clone()));
        self.block_in(b, scope)
    }

    fn block_in(&mut self, b: &'p Block, scope: Rc<Scope<'p>>) -> R<Flow> {
        for s in &b.stmts {
            if let Stmt::FuncDef(f) = s {
                scope.funcs.borrow_mut().push(f);
            }
        }
        for s in &b.stmts {
            match self.stmt(s, &scope)? {
                Flow::Next => {}
                other => return Ok(other),
            }
        }
        Ok(Flow::Next)
    }

    fn lookup<'s>(&self, scope: &'s Rc<Scope<'p>>, decl: u32) -> Option<&'s Rc<Scope<'p>>> {
        let mut cur = Some(scope);
        while let Some(s) = cur {
            if s.vars.borrow().iter().any(|(d, _)| *d == decl) {
                return Some(s);
            }
            cur = s.parent.as_ref();
        }
        None
    }

    fn read_var(&mut self, scope: &Rc<Scope<'p>>, decl: u32, name: &str) -> R<Value> {
        let Some(s) = self.lookup(scope, decl) else {
            return stuck(&format!("variable {name} read before its declaration ran"));
        };
        if let Some(owner) = self.owner_of_decl.get(&decl)
            && *owner != *self.fn_stack.last().unwrap()
        {
            self.feat.captures_read += 1;
        }
        let v = s.vars.borrow().iter().find(|(d, _)| *d == decl).map(|(_, v)| v.clone()).unwrap();
        Ok(v)
    }

    fn with_var_mut<T>(
        &mut self,
        scope: &Rc<Scope<'p>>,
        decl: u32,
        name: &str,
        f: impl FnOnce(&mut Value) -> R<T>,
    ) -> R<T> {
        let Some(s) = self.lookup(scope, decl) else {
            return stuck(&format!("variable {name} written before its declaration ran"));
        };
        if let Some(owner) = self.owner_of_decl.get(&decl)
            && *owner != *self.fn_stack.last().unwrap()
        {
            self.feat.captures_written += 1;
        }
        let mut vars = s.vars.borrow_mut();
        let slot = vars.iter_mut().find(|(d, _)| *d == decl).map(|(_, v)| v).unwrap();
        f(slot)
    }

    fn truthy(v: &Value) -> R<bool> {
        match v {
            Value::Bool(b) => Ok(*b),
            Value::Null => Ok(false),
            _ => stuck("condition is neither boolean nor null"),
        }
    }

    fn stmt(&mut self, s: &'p Stmt, scope: &Rc<Scope<'p>>) -> R<Flow> {
        self.tick()?;
        match s {
            Stmt::Make { init, decl, .. } => {
                let v = match init {
                    Some(e) => self.expr(e, scope)?,
                    None => Value::Null,
                };
                let mut vars = scope.vars.borrow_mut();
                if let Some(slot) = vars.iter_mut().find(|(d, _)| d == decl) {
                    slot.1 = v;
                } else {
                    vars.push((*decl, v));
                    self.owner_of_decl.insert(*decl, *self.fn_stack.last().unwrap());
                }
                Ok(Flow::Next)
            }
            Stmt::Assign { name, value, decl } => {
                let v = self.expr(value, scope)?;
                self.with_var_mut(scope, *decl, name, |slot| {
                    *slot = v;
                    Ok(())
                })?;
                Ok(Flow::Next)
            }
            Stmt::AssignIndex { target, value } => {
                let v = self.expr(value, scope)?;
                let (root_name, root_decl, idx_exprs) = flatten(target)?;
                let mut idxs = Vec::new();
                for ie in idx_exprs {
                    let iv = self.expr(ie, scope)?;
                    idxs.push(index_for_write(&iv)?);
                }
                self.feat.index_writes += 1;
                self.feat.array_mutations += 1;
                self.with_var_mut(scope, root_decl, root_name, |slot| {
                    let mut cur = slot;
                    let n = idxs.len();
                    for (k, idx) in idxs.iter().enumerate() {
                        match cur {
                            Value::Arr(items) => {
                                if *idx >= items.len() {
                                    return Err(Ending::IndexOutOfBounds);
                                }
                                if k + 1 == n {
                                    items[*idx] = v;
                                    return Ok(());
                                }
                                cur = &mut items[*idx];
                            }
                            _ => return Err(Ending::InvalidIndex),
                        }
                    }
                    stuck("empty index chain")
                })?;
                Ok(Flow::Next)
            }
            Stmt::If { cond, then_b, else_b } => {
                let c = self.expr(cond, scope)?;
                if Self::truthy(&c)? {
                    self.block(then_b, scope)
                } else if let Some(eb) = else_b {
                    self.block(eb, scope)
                } else {
                    Ok(Flow::Next)
                }
            }
            Stmt::Loop { cond, body } => {
                self.feat.loops += 1;
                loop {
                    self.tick()?;
                    let c = self.expr(cond, scope)?;
                    if !Self::truthy(&c)? {
                        break;
                    }
                    self.feat.loop_iters += 1;
                    match self.block(body, scope)? {
                        Flow::Break => {
                            self.feat.breaks += 1;
                            break;
                        }
                        Flow::Continue => self.feat.continues += 1,
                        Flow::Next => {}
                        r @ Flow::Return(_) => return Ok(r),
                    }
                }
                Ok(Flow::Next)
            }
            Stmt::Block(b) => self.block(b, scope),
            Stmt::FuncDef(_) => Ok(Flow::Next),
            Stmt::Return(e) => {
                let v = match e {
                    Some(e) => self.expr(e, scope)?,
                    None => Value::Null,
                };
                Ok(Flow::Return(v))
            }
            Stmt::Break => Ok(Flow::Break),
            Stmt::Continue => Ok(Flow::Continue),
            Stmt::Expr(e) => {
                self.expr(e, scope)?;
                Ok(Flow::Next)
            }
            Stmt::Raw(_) => stuck("raw statement"),
        }
    }

    fn find_func(&self, scope: &Rc<Scope<'p>>, id: u32) -> Option<(&'p FuncDef, Rc<Scope<'p>>)> {
        let mut cur = Some(scope);
        while let Some(s) = cur {
            if let Some(f) = s.funcs.borrow().iter().find(|f| f.id == id) {
                return Some((f, s.clone()));
            }
            cur = s.parent.as_ref();
        }
        None
    }

    fn expr(&mut self, e: &'p Expr, scope: &Rc<Scope<'p>>) -> R<Value> {
        let v = self.expr_raw(e, scope)?;
        if let Value::Str(s) = &v {
            // building a string costs steps in proportion to its size
            let cost = (s.len() / 64) as u64;
            if self.fuel < cost {
                return Err(Ending::Fuel);
            }
            self.fuel -= cost;
        }
        if let Value::Arr(items) = &v {
            let cost = items.len() as u64;
            if self.fuel < cost {
                return Err(Ending::Fuel);
            }
            self.fuel -= cost;
        }
        capped(v)
    }

    fn expr_raw(&mut self, e: &'p Expr, scope: &Rc<Scope<'p>>) -> R<Value> {
        self.tick()?;
        match e {
            Expr::Num(t) => match t.parse::<f64>() {
                Ok(n) => Ok(Value::Num(n)),
                Err(_) => stuck("bad number literal"),
            },
            Expr::Str(StrLit::Plain { value, .. }) => Ok(Value::Str(value.clone())),
            Expr::Str(lit @ StrLit::Template { segs, .. }) => {
                // Calibrated to the pinned tree: a literal without any `{` is taken verbatim,
                // so a lone `}}` stays two characters.
                let raw = super::print::lit_text(lit);
                if !raw.contains('{') {
                    return Ok(Value::Str(raw[1..raw.len() - 1].to_string()));
                }
                let mut out = String::new();
                let mut any = false;
                for seg in segs {
                    match seg {
                        Seg::Text(t) => out.push_str(t),
                        Seg::LBrace => out.push('{'),
                        Seg::RBrace => out.push('}'),
                        Seg::Var { name, decl, .. } => {
                            any = true;
                            let v = self.read_var(scope, *decl, name)?;
                            out.push_str(&v.display());
                        }
                    }
                }
                if any {
                    self.feat.interp += 1;
                    self.feat.strings_built += 1;
                }
                Ok(Value::Str(out))
            }
            Expr::Bool(b) => Ok(Value::Bool(*b)),
            Expr::Null => Ok(Value::Null),
            Expr::Var { name, decl } => self.read_var(scope, *decl, name),
            Expr::Bin(BinOp::And, l, r) => {
                let lv = self.expr(l, scope)?;
                match lv {
                    Value::Bool(false) | Value::Null => {
                        self.feat.short_circuits += 1;
                        Ok(Value::Bool(false))
                    }
                    Value::Bool(true) => match self.expr(r, scope)? {
                        Value::Bool(b) => Ok(Value::Bool(b)),
                        Value::Null => Ok(Value::Bool(false)),
                        _ => stuck("`and` on a non-boolean"),
                    },
                    _ => stuck("`and` on a non-boolean"),
                }
            }
            Expr::Bin(BinOp::Or, l, r) => {
                let lv = self.expr(l, scope)?;
                match lv {
                    Value::Bool(true) => {
                        self.feat.short_circuits += 1;
                        Ok(Value::Bool(true))
                    }
                    Value::Bool(false) | Value::Null => match self.expr(r, scope)? {
                        Value::Bool(b) => Ok(Value::Bool(b)),
                        Value::Null => Ok(Value::Bool(false)),
                        _ => stuck("`or` on a non-boolean"),
                    },
                    _ => stuck("`or` on a non-boolean"),
                }
            }
            Expr::Bin(op, l, r) => {
                let lv = self.expr(l, scope)?;
                let rv = self.expr(r, scope)?;
                self.binary(*op, lv, rv)
            }
            Expr::Un(op, x) => {
                let v = self.expr(x, scope)?;
                match (op, v) {
                    (UnOp::Not, Value::Bool(b)) => Ok(Value::Bool(!b)),
                    (UnOp::Not, Value::Null) => Ok(Value::Bool(true)),
                    (UnOp::Neg, Value::Num(n)) => Ok(Value::Num(-n)),
                    _ => stuck("unary operator on a wrong type"),
                }
            }
            Expr::Arr(items) => {
                let mut out = Vec::with_capacity(items.len());
                for it in items {
                    out.push(self.expr(it, scope)?);
                }
                Ok(Value::Arr(out))
            }
            Expr::Index(b, i) => {
                let bv = self.expr(b, scope)?;
                let iv = self.expr(i, scope)?;
                let Value::Arr(mut items) = bv else {
                    return stuck("indexing a non-array");
                };
                let Value::Num(n) = iv else {
                    return Err(Ending::InvalidIndex);
                };
                if !n.is_finite() || n.fract() != 0.0 {
                    return Err(Ending::InvalidIndex);
                }
                if n < 0.0 || n >= items.len() as f64 {
                    return Err(Ending::IndexOutOfBounds);
                }
                Ok(items.swap_remove(n as usize))
            }
            Expr::Call { name, args, func } => {
                if *func == BUILTIN_FUNC {
                    if args.len() != 1 {
                        return stuck("builtin arity");
                    }
                    let v = self.expr(&args[0], scope)?;
                    return match name.as_str() {
                        "shout" => {
                            self.output.push(v.display());
                            Ok(Value::Null)
                        }
                        "typeof" => Ok(Value::Str(v.type_name().to_string())),
                        "to_string" => {
                            self.feat.strings_built += 1;
                            Ok(Value::Str(v.display()))
                        }
                        "command" => match v {
                            Value::Str(program) => Ok(Value::Cmd { program, args: 0 }),
                            _ => Err(Ending::TypeMismatch),
                        },
                        _ => stuck("builtin not modelled"),
                    };
                }
                let Some((def, env)) = self.find_func(scope, *func) else {
                    return stuck("function not found in lexical chain");
                };
                if def.params.len() != args.len() {
                    return stuck("arity");
                }
                let mut vals = Vec::with_capacity(args.len());
                for a in args {
                    vals.push(self.expr(a, scope)?);
                }
                self.depth += 1;
                self.feat.calls += 1;
                self.feat.max_depth = self.feat.max_depth.max(self.depth);
                if self.depth > 150 {
                    return Err(Ending::Fuel);
                }
                let same = self.fn_stack.iter().filter(|f| **f == def.id).count() as u32 + 1;
                self.feat.max_same_fn_depth = self.feat.max_same_fn_depth.max(same);
                let pscope = Scope::new(Some(env));
                for (d, v) in def.param_decls.iter().zip(vals) {
                    pscope.vars.borrow_mut().push((*d, v));
                    self.owner_of_decl.insert(*d, def.id);
                }
                self.fn_stack.push(def.id);
                let flow = self.block(&def.body, &pscope);
                self.fn_stack.pop();
                self.depth -= 1;
                match flow? {
                    Flow::Return(v) => Ok(v),
                    Flow::Next => Ok(Value::Null),
                    Flow::Break | Flow::Continue => stuck("loop control escaped a function"),
                }
            }
            Expr::Method { recv, name, args } => self.method(recv, name, args, scope),
        }
    }

    fn binary(&mut self, op: BinOp, l: Value, r: Value) -> R<Value> {
        use BinOp::*;
        match (l, r) {
            (Value::Num(a), Value::Num(b)) => match op {
                Add => Ok(Value::Num(a + b)),
                Minus => Ok(Value::Num(a - b)),
                Times => Ok(Value::Num(a * b)),
                Divide | Mod => {
                    if b == 0.0 {
                        Err(Ending::DivisionByZero)
                    } else if op == Divide {
                        Ok(Value::Num(a / b))
                    } else {
                        Ok(Value::Num(a % b))
                    }
                }
                Eq => Ok(Value::Bool((a - b).abs() <= 1e-12)),
                Gt => Ok(Value::Bool(a > b)),
                Lt => Ok(Value::Bool(a < b)),
                And | Or => unreachable!(),
            },
            (Value::Str(a), Value::Str(b)) => match op {
                Add => {
                    self.feat.strings_built += 1;
                    Ok(Value::Str(a + &b))
                }
                Eq => Ok(Value::Bool(a == b)),
                Gt => Ok(Value::Bool(a.as_bytes() > b.as_bytes())),
                Lt => Ok(Value::Bool(a.as_bytes() < b.as_bytes())),
                _ => stuck("arithmetic on strings"),
            },
            (Value::Str(a), Value::Num(n)) if op == Add => {
                self.feat.strings_built += 1;
                Ok(Value::Str(format!("{a}{n}")))
            }
            (Value::Num(n), Value::Str(b)) if op == Add => {
                self.feat.strings_built += 1;
                Ok(Value::Str(format!("{n}{b}")))
            }
            (Value::Bool(a), Value::Bool(b)) => match op {
                Eq => Ok(Value::Bool(a == b)),
                Gt => Ok(Value::Bool(a && !b)),
                Lt => Ok(Value::Bool(!a && b)),
                _ => stuck("arithmetic on booleans"),
            },
            (Value::Null, Value::Null) => match op {
                Eq => Ok(Value::Bool(true)),
                Gt | Lt => Ok(Value::Bool(false)),
                _ => stuck("arithmetic on null"),
            },
            (Value::Null, _) | (_, Value::Null) => match op {
                Eq | Gt | Lt => Ok(Value::Bool(false)),
                _ => stuck("arithmetic on null"),
            },
            _ => stuck("operands of different types"),
        }
    }

    fn method(
        &mut self,
        recv: &'p Expr,
        name: &str,
        args: &'p [Expr],
        scope: &Rc<Scope<'p>>,
    ) -> R<Value> {
        self.feat.methods += 1;
        if matches!(name, "push" | "pop" | "reverse") {
            return self.mut_method(recv, name, args, scope);
        }
        if matches!(name, "arg" | "cwd" | "env" | "stdin_text" | "stdin_null" | "stdout_capture" | "stderr_capture" | "timeout_ms") {
            return self.cmd_method(recv, name, args, scope);
        }
        let rv = self.expr(recv, scope)?;
        let arity = |n: usize| -> R<()> {
            if args.len() == n { Ok(()) } else { stuck("method arity") }
        };
        match rv {
            Value::Str(s) => match name {
                "len" => {
                    arity(0)?;
                    Ok(Value::Num(s.chars().count() as f64))
                }
                "slice" => {
                    arity(2)?;
                    let a = self.expr(&args[0], scope)?;
                    let b = self.expr(&args[1], scope)?;
                    let (Value::Num(a), Value::Num(b)) = (a, b) else {
                        return stuck("slice bounds must be numbers");
                    };
                    self.feat.strings_built += 1;
                    Ok(Value::Str(ref_slice(&s, a, b)))
                }
                "to_uppercase" => {
                    arity(0)?;
                    self.feat.strings_built += 1;
                    Ok(Value::Str(s.chars().flat_map(char::to_uppercase).collect()))
                }
                "to_lowercase" => {
                    arity(0)?;
                    self.feat.strings_built += 1;
                    Ok(Value::Str(s.chars().flat_map(char::to_lowercase).collect()))
                }
                "trim" => {
                    arity(0)?;
                    self.feat.strings_built += 1;
                    Ok(Value::Str(s.trim().to_string()))
                }
                "find" => {
                    arity(1)?;
                    let Value::Str(n) = self.expr(&args[0], scope)? else {
                        return stuck("find needle must be a string");
                    };
                    Ok(Value::Num(s.find(&n).map_or(-1.0, |i| i as f64)))
                }
                "replace" => {
                    arity(2)?;
                    let a = self.expr(&args[0], scope)?;
                    let b = self.expr(&args[1], scope)?;
                    let (Value::Str(a), Value::Str(b)) = (a, b) else {
                        return stuck("replace arguments must be strings");
                    };
                    self.feat.strings_built += 1;
                    Ok(Value::Str(s.replace(&a, &b)))
                }
                "to_number" => {
                    arity(0)?;
                    Ok(Value::Num(s.parse::<f64>().unwrap_or(f64::NAN)))
                }
                "split" => {
                    arity(1)?;
                    let Value::Str(p) = self.expr(&args[0], scope)? else {
                        return stuck("split pattern must be a string");
                    };
                    self.feat.strings_built += 1;
                    Ok(Value::Arr(s.split(&p as &str).map(|x| Value::Str(x.to_string())).collect()))
                }
                _ => Err(Ending::TypeMismatch),
            },
            Value::Num(n) => match name {
                "abs" => Ok(Value::Num(n.abs())),
                "sqrt" => Ok(Value::Num(n.sqrt())),
                "floor" => Ok(Value::Num(n.floor())),
                "ceil" => Ok(Value::Num(n.ceil())),
                "round" => Ok(Value::Num(n.round())),
                _ => Err(Ending::TypeMismatch),
            },
            Value::Arr(items) => match name {
                "len" => {
                    arity(0)?;
                    Ok(Value::Num(items.len() as f64))
                }
                "join" => {
                    arity(1)?;
                    let Value::Str(sep) = self.expr(&args[0], scope)? else {
                        return stuck("join separator must be a string");
                    };
                    self.feat.strings_built += 1;
                    Ok(Value::Str(ref_join(&items, &sep)))
                }
                _ => Err(Ending::TypeMismatch),
            },
            Value::Null => Err(Ending::TypeMismatch),
            Value::Bool(_) => Err(Ending::TypeMismatch),
            Value::Cmd { .. } => stuck("non-builder method on a process command"),
        }
    }

    /// Builder methods of a process command mutate the command in place (variable or element).
    fn cmd_method(
        &mut self,
        recv: &'p Expr,
        name: &str,
        args: &'p [Expr],
        scope: &Rc<Scope<'p>>,
    ) -> R<Value> {
        let want = match name {
            "env" => 2,
            "arg" | "cwd" | "stdin_text" | "timeout_ms" => 1,
            _ => 0,
        };
        if args.len() != want {
            return Err(Ending::TypeMismatch);
        }
        let mut vals = Vec::new();
        for a in args {
            vals.push(self.expr(a, scope)?);
        }
        match name {
            "cwd" if !matches!(vals[0], Value::Str(_)) => return Err(Ending::TypeMismatch),
            "env" if !matches!(vals[0], Value::Str(_)) => return Err(Ending::TypeMismatch),
            "timeout_ms" => return stuck("timeout not modelled"),
            _ => {}
        }
        let Ok((root_name, root_decl, idx_exprs)) = flatten(recv) else {
            return Err(Ending::TypeMismatch);
        };
        let mut idxs = Vec::new();
        for ie in idx_exprs {
            let iv = self.expr(ie, scope)?;
            idxs.push(index_for_write(&iv)?);
        }
        let is_arg = name == "arg";
        self.with_var_mut(scope, root_decl, root_name, move |slot| {
            let mut cur = slot;
            for idx in &idxs {
                match cur {
                    Value::Arr(items) => {
                        if *idx >= items.len() {
                            return Err(Ending::IndexOutOfBounds);
                        }
                        cur = &mut items[*idx];
                    }
                    _ => return Err(Ending::InvalidIndex),
                }
            }
            match cur {
                Value::Cmd { args, .. } => {
                    if is_arg {
                        *args += 1;
                    }
                    Ok(Value::Null)
                }
                _ => Err(Ending::TypeMismatch),
            }
        })
    }

    fn mut_method(
        &mut self,
        recv: &'p Expr,
        name: &str,
        args: &'p [Expr],
        scope: &Rc<Scope<'p>>,
    ) -> R<Value> {
        let pushed = if name == "push" {
            if args.len() != 1 {
                return stuck("push arity");
            }
            Some(self.expr(&args[0], scope)?)
        } else {
            if !args.is_empty() {
                return stuck("method arity");
            }
            None
        };
        let Ok((root_name, root_decl, idx_exprs)) = flatten(recv) else {
            // receiver is not a variable or an index chain on a variable
            return Err(Ending::TypeMismatch);
        };
        let mut idxs = Vec::new();
        for ie in idx_exprs {
            let iv = self.expr(ie, scope)?;
            idxs.push(index_for_write(&iv)?);
        }
        self.feat.array_mutations += 1;
        let name = name.to_string();
        self.with_var_mut(scope, root_decl, root_name, move |slot| {
            let mut cur = slot;
            for idx in &idxs {
                match cur {
                    Value::Arr(items) => {
                        if *idx >= items.len() {
                            return Err(Ending::IndexOutOfBounds);
                        }
                        cur = &mut items[*idx];
                    }
                    _ => return Err(Ending::InvalidIndex),
                }
            }
            let Value::Arr(items) = cur else {
                return Err(Ending::TypeMismatch);
            };
            match name.as_str() {
                "push" => {
                    if items.len() >= MAX_ARR {
                        return Err(Ending::Fuel);
                    }
                    items.push(pushed.unwrap());
                    Ok(Value::Null)
                }
                "pop" => Ok(items.pop().unwrap_or(Value::Null)),
                _ => {
                    items.reverse();
                    Ok(Value::Null)
                }
            }
        })
    }
}

/// `a[i][j]` → (`a`, decl, [i, j]).
fn flatten(e: &Expr) -> R<(&str, u32, Vec<&Expr>)> {
    let mut idx = Vec::new();
    let mut cur = e;
    loop {
        match cur {
            Expr::Index(b, i) => {
                idx.push(&**i);
                cur = b;
            }
            Expr::Var { name, decl } => {
                idx.reverse();
                return Ok((name, *decl, idx));
            }
            _ => return stuck("assignment target is not an index chain on a variable"),
        }
    }
}

fn index_for_write(v: &Value) -> R<usize> {
    let Value::Num(n) = v else {
        return Err(Ending::InvalidIndex);
    };
    if !n.is_finite() || n.fract() != 0.0 {
        return Err(Ending::InvalidIndex);
    }
    if *n < 0.0 {
        return Err(Ending::IndexOutOfBounds);
    }
    if *n >= usize::MAX as f64 { Ok(usize::MAX) } else { Ok(*n as usize) }
}

/// `slice` by the documented rule, computed in wide integers on a char vector.
pub fn ref_slice(s: &str, start: f64, end: f64) -> String {
    let chars: Vec<char> = s.chars().collect();
    let len = chars.len() as i128;
    let conv = |x: f64| -> i128 {
        let f = x.floor();
        if f.is_nan() {
            0
        } else if f >= 1e30 {
            i128::from(i64::MAX)
        } else if f <= -1e30 {
            i128::from(i64::MIN)
        } else {
            f as i128
        }
    };
    let (mut a, mut b) = (conv(start), conv(end));
    if a < 0 {
        a += len;
    }
    if b < 0 {
        b += len;
    }
    a = a.clamp(0, len);
    b = b.clamp(0, len);
    if a >= b {
        return String::new();
    }
    chars[a as usize..b as usize].iter().collect()
}

pub fn ref_join(items: &[Value], sep: &str) -> String {
    let mut out = String::new();
    for (i, it) in items.iter().enumerate() {
        if i > 0 {
            out.push_str(sep);
        }
        match it {
            Value::Str(s) => out.push_str(s),
            Value::Arr(inner) => out.push_str(&ref_join(inner, sep)),
            other => out.push_str(&other.display()),
        }
    }
    out
}
