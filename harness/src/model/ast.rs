//! Model AST. Independent of the crate under test.

#[derive(Clone, Copy, Debug, PartialEq, Eq, Hash)]
pub enum BinOp {
    Add,
    Minus,
    Times,
    Divide,
    Mod,
    And,
    Or,
    Eq,
    Gt,
    Lt,
}

impl BinOp {
    pub fn word(self) -> &'static str {
        match self {
            BinOp::Add => "add",
            BinOp::Minus => "minus",
            BinOp::Times => "times",
            BinOp::Divide => "divide",
            BinOp::Mod => "mod",
            BinOp::And => "and",
            BinOp::Or => "or",
            BinOp::Eq => "na",
            BinOp::Gt => "pass",
            BinOp::Lt => "small pass",
        }
    }

    /// Documented precedence level (higher binds tighter).
    pub fn level(self) -> u8 {
        match self {
            BinOp::Or => 1,
            BinOp::And => 2,
            BinOp::Eq | BinOp::Gt | BinOp::Lt => 3,
            BinOp::Add | BinOp::Minus => 4,
            BinOp::Times | BinOp::Divide | BinOp::Mod => 5,
        }
    }
}

#[derive(Clone, Copy, Debug, PartialEq, Eq, Hash)]
pub enum UnOp {
    Not,
    Neg,
}

/// One piece of a template literal (a literal written without any escape).
#[derive(Clone, Debug, PartialEq)]
pub enum Seg {
    /// Text without braces, quotes, back-slashes or line breaks.
    Text(String),
    /// `{name}` with optional blanks inside the braces.
    Var { name: String, pad_l: u8, pad_r: u8, decl: u32 },
    /// `{{`
    LBrace,
    /// `}}`
    RBrace,
}

#[derive(Clone, Debug, PartialEq)]
pub enum StrLit {
    /// An ordinary literal with this value (printed with escapes where needed; never contains braces).
    Plain { value: String, quote: char },
    /// A literal without escapes that may interpolate.
    Template { segs: Vec<Seg>, quote: char },
}

#[derive(Clone, Debug, PartialEq)]
pub enum Expr {
    /// Literal text as it appears in the source (digits, optional fraction).
    Num(String),
    Str(StrLit),
    Bool(bool),
    Null,
    /// `decl` is filled in by the model's resolver (u32::MAX = unresolved).
    Var { name: String, decl: u32 },
    Bin(BinOp, Box<Expr>, Box<Expr>),
    Un(UnOp, Box<Expr>),
    Arr(Vec<Expr>),
    Index(Box<Expr>, Box<Expr>),
    /// User function or global built-in. `func` is filled in by the resolver for user functions.
    Call { name: String, args: Vec<Expr>, func: u32 },
    Method { recv: Box<Expr>, name: String, args: Vec<Expr> },
}

#[derive(Clone, Debug, PartialEq)]
pub struct Block {
    pub stmts: Vec<Stmt>,
}

#[derive(Clone, Debug, PartialEq)]
pub struct FuncDef {
    pub name: String,
    pub params: Vec<String>,
    pub param_decls: Vec<u32>,
    pub body: Block,
    /// Unique id of this definition (assigned by the resolver).
    pub id: u32,
}

#[derive(Clone, Debug, PartialEq)]
pub enum Stmt {
    Make { name: String, init: Option<Expr>, decl: u32 },
    Assign { name: String, value: Expr, decl: u32 },
    /// `target` is an `Index` chain rooted at a `Var`.
    AssignIndex { target: Expr, value: Expr },
    If { cond: Expr, then_b: Block, else_b: Option<Block> },
    Loop { cond: Expr, body: Block },
    Block(Block),
    FuncDef(Box<FuncDef>),
    Return(Option<Expr>),
    Break,
    Continue,
    Expr(Expr),
    /// Verbatim source text of one or more statements (rule-violation injection for C09).
    Raw(String),
}

#[derive(Clone, Debug, PartialEq)]
pub struct Program {
    pub body: Block,
}

pub fn num(n: i64) -> Expr {
    if n < 0 { Expr::Un(UnOp::Neg, Box::new(Expr::Num((-n).to_string()))) } else { Expr::Num(n.to_string()) }
}

pub fn var(name: &str) -> Expr {
    Expr::Var { name: name.to_string(), decl: u32::MAX }
}

pub fn plain(value: &str) -> Expr {
    Expr::Str(StrLit::Plain { value: value.to_string(), quote: '"' })
}

pub fn call(name: &str, args: Vec<Expr>) -> Expr {
    Expr::Call { name: name.to_string(), args, func: u32::MAX }
}

pub fn method(recv: Expr, name: &str, args: Vec<Expr>) -> Expr {
    Expr::Method { recv: Box::new(recv), name: name.to_string(), args }
}

pub fn bin(op: BinOp, l: Expr, r: Expr) -> Expr {
    Expr::Bin(op, Box::new(l), Box::new(r))
}

pub fn shout(e: Expr) -> Stmt {
    Stmt::Expr(call("shout", vec![e]))
}
