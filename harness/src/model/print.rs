//! Printer: model AST → token list → source text.
//!
//! The token list is the unit the C10 re-layouter works on; the default layout is one
//! statement per line.

use super::ast::*;
use crate::util::Rng;

#[derive(Clone, Debug, PartialEq)]
pub enum Tok {
    /// Identifier, keyword or number.
    Word(String),
    /// Multi-word keyword (`if to say`, `if not so`, `small pass`).
    Multi(Vec<&'static str>),
    /// Complete string literal including quotes.
    Str(String),
    Punct(char),
    /// Statement boundary hint (indent level); carries no token.
    Line(usize),
}

pub struct Printer<'r> {
    pub toks: Vec<Tok>,
    indent: usize,
    /// Probability (in 1/256) of wrapping a sub-expression in redundant parentheses.
    redundant: u32,
    rng: Option<&'r mut Rng>,
}

fn level(e: &Expr) -> u8 {
    match e {
        Expr::Bin(op, ..) => op.level(),
        Expr::Un(..) => 6,
        Expr::Index(..) | Expr::Call { .. } | Expr::Method { .. } => 7,
        _ => 8,
    }
}

pub fn escape_plain(value: &str, quote: char) -> String {
    let mut out = String::with_capacity(value.len() + 2);
    out.push(quote);
    for c in value.chars() {
        match c {
            '\\' => out.push_str("\\\\"),
            '\n' => out.push_str("\\n"),
            '\t' => out.push_str("\\t"),
            c if c == quote => {
                out.push('\\');
                out.push(c);
            }
            c => out.push(c),
        }
    }
    out.push(quote);
    out
}

pub fn lit_text(lit: &StrLit) -> String {
    match lit {
        StrLit::Plain { value, quote } => {
            debug_assert!(!value.contains(['{', '}', '\r']), "plain literal must not contain braces or CR");
            escape_plain(value, *quote)
        }
        StrLit::Template { segs, quote } => {
            let mut out = String::new();
            out.push(*quote);
            for seg in segs {
                match seg {
                    Seg::Text(t) => out.push_str(t),
                    Seg::Var { name, pad_l, pad_r, .. } => {
                        out.push('{');
                        for _ in 0..*pad_l {
                            out.push(' ');
                        }
                        out.push_str(name);
                        for _ in 0..*pad_r {
                            out.push(' ');
                        }
                        out.push('}');
                    }
                    Seg::LBrace => out.push_str("{{"),
                    Seg::RBrace => out.push_str("}}"),
                }
            }
            out.push(*quote);
            out
        }
    }
}

impl<'r> Printer<'r> {
    pub fn new() -> Self {
        Self { toks: Vec::new(), indent: 0, redundant: 0, rng: None }
    }

    pub fn with_redundant_parens(rng: &'r mut Rng, per256: u32) -> Self {
        Self { toks: Vec::new(), indent: 0, redundant: per256, rng: Some(rng) }
    }

    fn w(&mut self, s: &str) {
        self.toks.push(Tok::Word(s.to_string()));
    }

    fn p(&mut self, c: char) {
        self.toks.push(Tok::Punct(c));
    }

    fn line(&mut self) {
        self.toks.push(Tok::Line(self.indent));
    }

    fn want_redundant(&mut self) -> bool {
        if self.redundant == 0 {
            return false;
        }
        let r = self.redundant;
        self.rng.as_mut().is_some_and(|rng| rng.below(256) < u64::from(r))
    }

    pub fn program(&mut self, p: &Program) {
        self.stmts(&p.body);
    }

    fn stmts(&mut self, b: &Block) {
        for s in &b.stmts {
            self.line();
            self.stmt(s);
        }
    }

    fn block(&mut self, b: &Block) {
        self.w("start");
        self.indent += 1;
        self.stmts(b);
        self.indent -= 1;
        self.line();
        self.w("end");
    }

    pub fn stmt(&mut self, s: &Stmt) {
        match s {
            Stmt::Make { name, init, .. } => {
                self.w("make");
                self.w(name);
                if let Some(e) = init {
                    self.w("get");
                    self.expr(e, 0, false);
                }
            }
            Stmt::Assign { name, value, .. } => {
                self.w(name);
                self.w("get");
                self.expr(value, 0, false);
            }
            Stmt::AssignIndex { target, value } => {
                self.expr(target, 0, true);
                self.w("get");
                self.expr(value, 0, false);
            }
            Stmt::If { cond, then_b, else_b } => {
                self.toks.push(Tok::Multi(vec!["if", "to", "say"]));
                self.p('(');
                self.expr(cond, 0, false);
                self.p(')');
                self.block(then_b);
                if let Some(eb) = else_b {
                    self.line();
                    self.toks.push(Tok::Multi(vec!["if", "not", "so"]));
                    self.block(eb);
                }
            }
            Stmt::Loop { cond, body } => {
                self.w("jasi");
                self.p('(');
                self.expr(cond, 0, false);
                self.p(')');
                self.block(body);
            }
            Stmt::Block(b) => self.block(b),
            Stmt::FuncDef(f) => {
                self.w("do");
                self.w(&f.name);
                self.p('(');
                for (i, p) in f.params.iter().enumerate() {
                    if i > 0 {
                        self.p(',');
                    }
                    self.w(p);
                }
                self.p(')');
                self.block(&f.body);
            }
            Stmt::Return(e) => {
                self.w("return");
                if let Some(e) = e {
                    self.expr(e, 0, false);
                }
            }
            Stmt::Break => self.w("comot"),
            Stmt::Continue => self.w("next"),
            Stmt::Expr(e) => self.expr(e, 0, true),
            Stmt::Raw(text) => self.toks.push(Tok::Word(text.clone())),
        }
    }

    /// `initial`: this expression starts a statement, so its left-most token must be an identifier.
    pub fn expr(&mut self, e: &Expr, min: u8, initial: bool) {
        let needs = level(e) < min;
        let extra = !needs && !initial && self.want_redundant();
        if needs || extra {
            self.p('(');
            self.expr_inner(e, false);
            self.p(')');
        } else {
            self.expr_inner(e, initial);
        }
    }

    fn args(&mut self, args: &[Expr]) {
        self.p('(');
        for (i, a) in args.iter().enumerate() {
            if i > 0 {
                self.p(',');
            }
            self.expr(a, 0, false);
        }
        self.p(')');
    }

    fn expr_inner(&mut self, e: &Expr, initial: bool) {
        match e {
            Expr::Num(t) => self.w(t),
            Expr::Str(lit) => self.toks.push(Tok::Str(lit_text(lit))),
            Expr::Bool(b) => self.w(if *b { "true" } else { "false" }),
            Expr::Null => self.w("null"),
            Expr::Var { name, .. } => self.w(name),
            Expr::Bin(op, l, r) => {
                let lv = op.level();
                self.expr(l, lv, initial);
                match op {
                    BinOp::Lt => self.toks.push(Tok::Multi(vec!["small", "pass"])),
                    _ => self.w(op.word()),
                }
                self.expr(r, lv + 1, false);
            }
            Expr::Un(op, x) => {
                self.w(match op {
                    UnOp::Not => "not",
                    UnOp::Neg => "minus",
                });
                self.expr(x, 6, false);
            }
            Expr::Arr(items) => {
                self.p('[');
                for (i, a) in items.iter().enumerate() {
                    if i > 0 {
                        self.p(',');
                    }
                    self.expr(a, 0, false);
                }
                self.p(']');
            }
            Expr::Index(b, i) => {
                self.expr(b, 7, initial);
                self.p('[');
                self.expr(i, 0, false);
                self.p(']');
            }
            Expr::Call { name, args, .. } => {
                self.w(name);
                self.args(args);
            }
            Expr::Method { recv, name, args } => {
                // `5.abs()` would lex as the invalid number `5.`; a literal number receiver gets parentheses.
                if matches!(**recv, Expr::Num(..)) {
                    self.p('(');
                    self.expr_inner(recv, false);
                    self.p(')');
                } else {
                    self.expr(recv, 7, initial);
                }
                self.p('.');
                self.w(name);
                self.args(args);
            }
        }
    }
}

/// Conventional layout: one statement per line, two-space indent, single blanks.
pub fn layout_default(toks: &[Tok]) -> String {
    let mut out = String::new();
    let mut prev: Option<&Tok> = None;
    for t in toks {
        match t {
            Tok::Line(ind) => {
                if !out.is_empty() {
                    out.push('\n');
                }
                for _ in 0..*ind {
                    out.push_str("  ");
                }
                prev = None;
                continue;
            }
            _ => {
                if let Some(p) = prev
                    && needs_blank_conventional(p, t)
                {
                    out.push(' ');
                }
            }
        }
        push_tok(&mut out, t, " ");
        prev = Some(t);
    }
    out.push('\n');
    out
}

pub fn push_tok(out: &mut String, t: &Tok, multi_sep: &str) {
    match t {
        Tok::Word(w) => out.push_str(w),
        Tok::Multi(ws) => {
            for (i, w) in ws.iter().enumerate() {
                if i > 0 {
                    out.push_str(multi_sep);
                }
                out.push_str(w);
            }
        }
        Tok::Str(s) => out.push_str(s),
        Tok::Punct(c) => out.push(*c),
        Tok::Line(..) => {}
    }
}

fn is_wordy(t: &Tok) -> bool {
    matches!(t, Tok::Word(..) | Tok::Multi(..))
}

/// Must there be white space between two adjacent tokens for them to lex separately?
pub fn needs_blank(a: &Tok, b: &Tok) -> bool {
    match (a, b) {
        (x, y) if is_wordy(x) && is_wordy(y) => true,
        // `1.` would start a fraction
        (Tok::Word(w), Tok::Punct('.')) => w.as_bytes().first().is_some_and(u8::is_ascii_digit),
        _ => false,
    }
}

fn needs_blank_conventional(a: &Tok, b: &Tok) -> bool {
    if needs_blank(a, b) {
        return true;
    }
    match (a, b) {
        (_, Tok::Punct(')' | ']' | ',' | '.')) | (Tok::Punct('(' | '[' | '.'), _) => false,
        (Tok::Word(w), Tok::Punct('(')) => {
            // keyword before '(' gets a blank, a call does not
            matches!(w.as_str(), "get" | "return" | "add" | "minus" | "times" | "divide" | "mod" | "and" | "or" | "not" | "na" | "pass" | "jasi")
        }
        (Tok::Word(_) | Tok::Punct(')' | ']') | Tok::Str(_), Tok::Punct('[')) => false,
        _ => true,
    }
}

pub fn to_source(p: &Program) -> String {
    let mut pr = Printer::new();
    pr.program(p);
    layout_default(&pr.toks)
}

pub fn tokens(p: &Program) -> Vec<Tok> {
    let mut pr = Printer::new();
    pr.program(p);
    pr.toks
}
