//! Reference model: AST, printer, generator, resolver, interpreter. No dependency on the crate under test.
pub mod ast;
pub mod genp;
pub mod interp;
pub mod print;
