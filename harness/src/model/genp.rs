//! Type-directed program generator.
//!
//! Produces programs that are valid by the documented rules, use every variable at the
//! type it was declared with, and terminate by construction. Every literal carries the id
//! of the site that produced it, so values are unique and a wrong binding or a stale read
//! cannot hide behind two equal values.

use super::ast::*;
use crate::util::Rng;

#[derive(Clone, Debug, PartialEq)]
pub enum Ty {
    Num,
    Str,
    Bool,
    Null,
    Arr(Box<Ty>),
    /// Value whose type is only known at run time; used in type-agnostic positions only.
    Any,
    /// process command builder (never run): a host value that lives behind a handle
    Cmd,
}

impl Ty {
    fn arr(t: Ty) -> Ty {
        Ty::Arr(Box::new(t))
    }
}

#[derive(Clone, Copy, Debug, PartialEq, Eq)]
pub enum Profile {
    Core,
    Mem,
    Dead,
    Scope,
    Array,
}

impl Profile {
    pub fn from_name(s: &str) -> Option<Self> {
        Some(match s {
            "core" => Profile::Core,
            "mem" => Profile::Mem,
            "dead" => Profile::Dead,
            "scope" => Profile::Scope,
            "array" => Profile::Array,
            _ => return None,
        })
    }
}

#[derive(Clone, Debug)]
struct VarInfo {
    name: String,
    ty: Ty,
    /// Loop counter or recursion-depth parameter: never assigned by generated code.
    frozen: bool,
    /// Arrays: length never shrinks and `lens[d]` is a lower bound of the length at depth d.
    fixed: bool,
    lens: Vec<usize>,
}

#[derive(Clone, Debug)]
struct FnInfo {
    name: String,
    params: Vec<Ty>,
    ret: Ty,
    rank: u32,
    /// First parameter is a recursion budget; callers pass a small literal.
    recursive: bool,
    /// names of outer variables the body mentions (filled in when the body is complete)
    captures: Vec<String>,
}

#[derive(Default)]
struct Scope {
    vars: Vec<VarInfo>,
    fns: Vec<FnInfo>,
    /// index of the statement being generated in this block
    cur_stmt: usize,
    /// first statement of this block that declared a name which also exists further out
    first_shadow: Option<usize>,
}

struct FnCtx {
    name: String,
    ret: Ty,
    rank: u32,
    /// (name of the function, name of its budget parameter, remaining recursive call sites)
    rec: Option<(String, String, u32)>,
    /// partner for mutual recursion
    partner: Option<String>,
}

pub struct GenStats {
    pub shadowings: u32,
    pub captures: u32,
    pub forward_calls: u32,
    pub recursive_fns: u32,
    pub array_copies: u32,
    pub dead_stmts: u32,
}

pub struct Gen<'r> {
    rng: &'r mut Rng,
    profile: Profile,
    scopes: Vec<Scope>,
    fn_stack: Vec<FnCtx>,
    loop_depth: usize,
    site: u32,
    next_rank: u32,
    fresh: u32,
    /// statements still allowed
    budget: i32,
    depth: usize,
    called: Vec<String>,
    /// signature the next generated function must have (shadowing definitions)
    force_sig: Option<(Vec<Ty>, Ty)>,
    pub stats: GenStats,
}

const SCOPE_NUM_NAMES: [&str; 3] = ["a", "b", "c"];
const SCOPE_STR_NAMES: [&str; 2] = ["s", "t"];
const SCOPE_FN_NAMES: [&str; 3] = ["f", "g", "h"];

const POOL_EDGE_LENS: [usize; 14] = [1, 7, 8, 9, 15, 16, 17, 120, 128, 129, 160, 161, 256, 257];

pub fn generate(rng: &mut Rng, profile: Profile) -> (Program, GenStats) {
    let mut g = Gen {
        rng,
        profile,
        scopes: vec![Scope::default()],
        fn_stack: Vec::new(),
        loop_depth: 0,
        site: 0,
        next_rank: 0,
        fresh: 0,
        budget: 0,
        depth: 0,
        called: Vec::new(),
        force_sig: None,
        stats: GenStats {
            shadowings: 0,
            captures: 0,
            forward_calls: 0,
            recursive_fns: 0,
            array_copies: 0,
            dead_stmts: 0,
        },
    };
    g.budget = g.rng.range(6, 40) as i32;
    let n = g.rng.range(3, 14) as usize;
    let mut stmts = g.block_stmts(n, true);
    g.dump_all(&mut stmts);
    (Program { body: Block { stmts } }, g.stats)
}

impl Gen<'_> {
    // ----- helpers -------------------------------------------------------

    fn site(&mut self) -> u32 {
        self.site += 1;
        self.site
    }

    fn fresh_name(&mut self, prefix: &str) -> String {
        self.fresh += 1;
        format!("{prefix}{}", self.fresh)
    }

    fn var_name(&mut self, ty: &Ty) -> String {
        if matches!(self.profile, Profile::Scope | Profile::Array) && self.rng.chance(3, 4) && matches!(ty, Ty::Arr(_)) {
            // arrays share a few names too, so that a nested receiver `q[0].push(..)` in a callee and
            // a same-named array of its caller can be confused by a by-name lookup
            let cand = *self.rng.pick(&["q", "q", "u"]);
            if self.may_declare_as(cand, ty) {
                return cand.to_string();
            }
        }
        if self.profile == Profile::Scope && self.rng.chance(3, 4) && matches!(ty, Ty::Num | Ty::Str) {
            // few names, reused everywhere and at different types in different scopes; within
            // one block a name keeps its type (a same-block `make` rebinds the same variable)
            let cand = if self.rng.chance(2, 3) {
                match ty {
                    Ty::Num => *self.rng.pick(&SCOPE_NUM_NAMES),
                    _ => *self.rng.pick(&SCOPE_STR_NAMES),
                }
            } else {
                *self.rng.pick(&["a", "b", "c", "s", "t"])
            };
            if self.may_declare_as(cand, ty) {
                return cand.to_string();
            }
        }
        let prefix = match ty {
            Ty::Num => "n",
            Ty::Str => "s",
            Ty::Bool => "k",
            Ty::Null => "z",
            Ty::Arr(_) => "r",
            Ty::Any => "d",
            Ty::Cmd => "c",
        };
        self.fresh_name(prefix)
    }

    /// May `make <name>` declare a value of type `ty` in the current block? Yes if the block does
    /// not have the name yet, or has it at the same type; a same-block re-declaration at another
    /// type is documented too, but only generated when no visible function mentions the name
    /// (its body was generated against the old type).
    fn may_declare_as(&self, name: &str, ty: &Ty) -> bool {
        let Some(existing) = self.scopes.last().unwrap().vars.iter().find(|v| v.name == name) else {
            return true;
        };
        if &existing.ty == ty {
            return !existing.frozen;
        }
        if existing.frozen || existing.fixed {
            return false;
        }
        !self.visible_fns().iter().any(|f| f.captures.iter().any(|c| c == name))
    }

    fn all_vars(&self) -> Vec<VarInfo> {
        let mut seen: Vec<&str> = Vec::new();
        let mut out = Vec::new();
        for s in self.scopes.iter().rev() {
            for v in s.vars.iter().rev() {
                if !seen.contains(&v.name.as_str()) {
                    seen.push(&v.name);
                    out.push(v.clone());
                }
            }
        }
        out
    }

    fn vars_of(&self, ty: &Ty) -> Vec<VarInfo> {
        self.all_vars().into_iter().filter(|v| &v.ty == ty).collect()
    }

    fn visible_fns(&self) -> Vec<FnInfo> {
        let mut seen: Vec<&str> = Vec::new();
        let mut out = Vec::new();
        for s in self.scopes.iter().rev() {
            for f in s.fns.iter().rev() {
                if !seen.contains(&f.name.as_str()) {
                    seen.push(&f.name);
                    out.push(f.clone());
                }
            }
        }
        out
    }

    fn min_rank(&self) -> u32 {
        self.fn_stack.iter().map(|f| f.rank).min().unwrap_or(u32::MAX)
    }

    fn callable(&self, ret: Option<&Ty>) -> Vec<FnInfo> {
        // A function may call every *complete* function: bodies only ever call functions that were
        // complete when they were generated, so the call graph is acyclic apart from the budgeted
        // recursion. Functions being generated right now (and their mutual-recursion partners)
        // are reachable only through the budgeted path in `try_call`.
        let in_progress: Vec<String> = self.fn_stack.iter().map(|c| c.name.clone()).collect();
        let partners: Vec<String> = self.fn_stack.iter().filter_map(|c| c.partner.clone()).collect();
        self.visible_fns()
            .into_iter()
            .filter(|f| !in_progress.contains(&f.name) && !partners.contains(&f.name) && ret.is_none_or(|r| &f.ret == r))
            .collect()
    }

    fn declare(&mut self, v: VarInfo) {
        let shadows = self.scopes[..self.scopes.len() - 1]
            .iter()
            .any(|s| s.vars.iter().any(|x| x.name == v.name));
        if shadows {
            self.stats.shadowings += 1;
        }
        let scope = self.scopes.last_mut().unwrap();
        if shadows && scope.first_shadow.is_none() {
            scope.first_shadow = Some(scope.cur_stmt);
        }
        // same-block redeclaration rebinds the same variable
        scope.vars.retain(|x| x.name != v.name);
        scope.vars.push(v);
    }

    fn random_ty(&mut self, depth: usize) -> Ty {
        let w: [u32; 6] = match self.profile {
            Profile::Array => [3, 3, 1, 0, 8, 1],
            Profile::Mem => [2, 8, 1, 0, 3, 3],
            Profile::Scope => [6, 5, 1, 0, 1, 0],
            _ => [6, 5, 2, 1, 3, 1],
        };
        match self.rng.weighted(&w) {
            0 => Ty::Num,
            1 => Ty::Str,
            2 => Ty::Bool,
            3 => Ty::Null,
            5 => Ty::Cmd,
            _ => {
                if depth >= 2 {
                    Ty::arr(if self.rng.chance(1, 2) { Ty::Num } else { Ty::Str })
                } else {
                    let inner = match self.rng.weighted(&[4, 4, 1, 3, 1, 1]) {
                        0 => Ty::Num,
                        1 => Ty::Str,
                        2 => Ty::Bool,
                        3 => self.random_ty(depth + 1),
                        4 => Ty::Any,
                        _ => Ty::Cmd,
                    };
                    let inner = if matches!(inner, Ty::Null) { Ty::Num } else { inner };
                    Ty::arr(inner)
                }
            }
        }
    }

    // ----- literals ------------------------------------------------------

    fn num_lit(&mut self) -> Expr {
        let id = i64::from(self.site());
        match self.rng.weighted(&[10, 3, 1, 1]) {
            0 => Expr::Num(id.to_string()),
            1 => Expr::Num(format!("{id}.{}", self.rng.pick(&["5", "25", "125", "75"]))),
            2 => Expr::Un(UnOp::Neg, Box::new(Expr::Num(id.to_string()))),
            _ => Expr::Num(format!("{}", id * 1000)),
        }
    }

    fn text_of_len(&mut self, len: usize) -> String {
        let id = self.site();
        let mut s = format!("{id}");
        let alphabet = ["x", "y", "z", "é", "€", "q", " ", "-", "k", "w"];
        while s.len() < len {
            let piece = *self.rng.pick(&alphabet);
            if s.len() + piece.len() <= len {
                s.push_str(piece);
            } else {
                s.push('_');
            }
        }
        s
    }

    fn str_text(&mut self) -> String {
        if self.profile == Profile::Mem && self.rng.chance(1, 2) {
            let len = *self.rng.pick(&POOL_EDGE_LENS);
            return self.text_of_len(len);
        }
        let id = self.site();
        let tails = ["", " ", "é", "-x", " make", "#", "ß€", "  pad  ", "Q", "end", "😀", " ,", "."];
        format!("t{id}{}", self.rng.pick(&tails))
    }

    fn str_lit(&mut self) -> Expr {
        let quote = if self.rng.chance(1, 4) { '\'' } else { '"' };
        let kind = self.rng.weighted(&[8, 3, 2]);
        if kind == 1 {
            // needs escapes
            let mut v = self.str_text();
            let extra = *self.rng.pick(&["\"", "'", "\\", "\n", "\t", "\\n", "a\"b"]);
            v.push_str(extra);
            return Expr::Str(StrLit::Plain { value: v, quote });
        }
        if kind == 2 {
            return self.template(quote);
        }
        Expr::Str(StrLit::Plain { value: self.str_text(), quote })
    }

    fn template(&mut self, quote: char) -> Expr {
        let vars: Vec<VarInfo> = self.all_vars();
        let n = self.rng.range(1, 4) as usize;
        let mut segs = Vec::new();
        for _ in 0..n {
            match self.rng.weighted(&[4, 6, 1, 1]) {
                0 => segs.push(Seg::Text(self.str_text())),
                1 if !vars.is_empty() => {
                    let v = self.rng.pick(&vars).clone();
                    let pad = if self.rng.chance(1, 5) { 1 } else { 0 };
                    segs.push(Seg::Var { name: v.name, pad_l: pad, pad_r: pad, decl: u32::MAX });
                }
                2 => segs.push(Seg::LBrace),
                3 => segs.push(Seg::RBrace),
                _ => segs.push(Seg::Text(self.str_text())),
            }
        }
        // text segments must not contain the quote or a back-slash (no escapes in a template)
        for seg in &mut segs {
            if let Seg::Text(t) = seg {
                *t = t.replace(['"', '\'', '\\', '\n', '\t'], "_");
            }
        }
        Expr::Str(StrLit::Template { segs, quote })
    }

    // ----- expressions ---------------------------------------------------

    pub fn expr(&mut self, ty: &Ty, depth: usize) -> Expr {
        match ty {
            Ty::Num => self.num_expr(depth),
            Ty::Str => self.str_expr(depth),
            Ty::Bool => self.bool_expr(depth),
            Ty::Null => Expr::Null,
            Ty::Arr(inner) => self.arr_expr(inner, depth),
            Ty::Cmd => self.cmd_expr(depth),
            Ty::Any => {
                let t = match self.rng.weighted(&[3, 3, 1, 1]) {
                    0 => Ty::Num,
                    1 => Ty::Str,
                    2 => Ty::Bool,
                    _ => Ty::Null,
                };
                self.expr(&t, depth)
            }
        }
    }

    fn cmd_expr(&mut self, depth: usize) -> Expr {
        let vars = self.vars_of(&Ty::Cmd);
        if !vars.is_empty() && self.rng.chance(2, 5) {
            return var(&self.rng.pick(&vars).name.clone());
        }
        if depth < 3
            && self.rng.chance(1, 4)
            && let Some(c) = self.try_call(&Ty::Cmd, depth)
        {
            return c;
        }
        if let Some(e) = self.elem_read(&Ty::Cmd)
            && self.rng.chance(1, 4)
        {
            return e;
        }
        // the program name is a string computed at run time as often as a literal
        let name = if self.rng.chance(1, 2) { self.str_expr(depth + 2) } else { plain(&format!("/bin/p{}", self.site())) };
        call("command", vec![name])
    }

    fn call_expr(&mut self, f: &FnInfo, depth: usize) -> Expr {
        if !self.called.contains(&f.name) {
            self.called.push(f.name.clone());
        }
        let mut args = Vec::new();
        for (i, p) in f.params.iter().enumerate() {
            if i == 0 && f.recursive {
                args.push(num(self.rng.range(0, 3)));
            } else {
                args.push(self.expr(p, depth + 1));
            }
        }
        call(&f.name, args)
    }

    fn try_call(&mut self, ty: &Ty, depth: usize) -> Option<Expr> {
        // recursion inside the function being generated
        if let Some(ctx) = self.fn_stack.last_mut()
            && &ctx.ret == ty
            && let Some((fname, budget, left)) = ctx.rec.as_mut()
            && *left > 0
        {
            *left -= 1;
            let target = ctx.partner.clone().unwrap_or_else(|| fname.clone());
            let budget = budget.clone();
            let me = self.visible_fns().into_iter().find(|f| f.name == target);
            if let Some(me) = me {
                let mut args = vec![bin(BinOp::Minus, var(&budget), num(1))];
                for p in me.params.iter().skip(1) {
                    args.push(self.expr(p, depth + 1));
                }
                return Some(call(&target, args));
            }
        }
        let cands = self.callable(Some(ty));
        if cands.is_empty() {
            return None;
        }
        let f = self.rng.pick(&cands).clone();
        Some(self.call_expr(&f, depth))
    }

    fn elem_read(&mut self, elem: &Ty) -> Option<Expr> {
        // read of an element of a fixed-length array whose element type matches
        let cands: Vec<VarInfo> = self
            .all_vars()
            .into_iter()
            .filter(|v| v.fixed && !v.lens.is_empty() && v.lens[0] > 0 && v.ty == Ty::arr(elem.clone()))
            .collect();
        if cands.is_empty() {
            return None;
        }
        let v = self.rng.pick(&cands).clone();
        let k = self.rng.usize(v.lens[0]);
        Some(Expr::Index(Box::new(var(&v.name)), Box::new(num(k as i64))))
    }

    fn num_expr(&mut self, depth: usize) -> Expr {
        let leaf = depth >= 3 || self.rng.chance(1, 3);
        if leaf {
            let vars = self.vars_of(&Ty::Num);
            if !vars.is_empty() && self.rng.chance(3, 5) {
                return var(&self.rng.pick(&vars).name.clone());
            }
            return self.num_lit();
        }
        match self.rng.weighted(&[10, 2, 3, 3, 3, 2, 2]) {
            0 => {
                let op = *self.rng.pick(&[BinOp::Add, BinOp::Add, BinOp::Minus, BinOp::Times]);
                bin(op, self.num_expr(depth + 1), self.num_expr(depth + 1))
            }
            1 => {
                let op = *self.rng.pick(&[BinOp::Divide, BinOp::Mod]);
                // safe divisor most of the time
                let d = if self.rng.chance(19, 20) {
                    num(self.rng.range(2, 9))
                } else {
                    self.num_expr(depth + 1)
                };
                bin(op, self.num_expr(depth + 1), d)
            }
            2 => {
                let s = self.str_expr(depth + 1);
                match self.rng.weighted(&[3, 2, 1]) {
                    0 => method(s, "len", vec![]),
                    1 => method(s, "find", vec![self.str_expr(depth + 2)]),
                    _ => {
                        let id = self.site();
                        let txt = self.rng.pick(&["{}", "{}.5", "x{}", "", "{}x"]).replace("{}", &id.to_string());
                        method(plain(&txt), "to_number", vec![])
                    }
                }
            }
            3 => {
                let m = *self.rng.pick(&["abs", "floor", "ceil", "round", "sqrt"]);
                let recv = if m == "sqrt" {
                    method(self.num_expr(depth + 1), "abs", vec![])
                } else {
                    self.num_expr(depth + 1)
                };
                method(recv, m, vec![])
            }
            4 => self.try_call(&Ty::Num, depth).unwrap_or_else(|| self.num_lit()),
            5 => self.elem_read(&Ty::Num).unwrap_or_else(|| self.num_lit()),
            _ => {
                // array length
                let arrs: Vec<VarInfo> =
                    self.all_vars().into_iter().filter(|v| matches!(v.ty, Ty::Arr(_))).collect();
                if arrs.is_empty() {
                    Expr::Un(UnOp::Neg, Box::new(self.num_expr(depth + 1)))
                } else {
                    method(var(&self.rng.pick(&arrs).name.clone()), "len", vec![])
                }
            }
        }
    }

    fn str_expr(&mut self, depth: usize) -> Expr {
        let leaf = depth >= 3 || self.rng.chance(1, 3);
        if leaf {
            let vars = self.vars_of(&Ty::Str);
            if !vars.is_empty() && self.rng.chance(3, 5) {
                return var(&self.rng.pick(&vars).name.clone());
            }
            return self.str_lit();
        }
        match self.rng.weighted(&[8, 3, 3, 4, 3, 2, 2, 2]) {
            0 => bin(BinOp::Add, self.str_expr(depth + 1), self.str_expr(depth + 1)),
            1 => {
                if self.rng.chance(1, 2) {
                    bin(BinOp::Add, self.str_expr(depth + 1), self.num_expr(depth + 1))
                } else {
                    bin(BinOp::Add, self.num_expr(depth + 1), self.str_expr(depth + 1))
                }
            }
            2 => {
                let t = self.random_ty(1);
                let f = *self.rng.pick(&["to_string", "to_string", "typeof"]);
                call(f, vec![self.expr(&t, depth + 1)])
            }
            3 => {
                let s = self.str_expr(depth + 1);
                match self.rng.weighted(&[3, 2, 2, 2, 3]) {
                    0 => {
                        let a = self.rng.range(-3, 6);
                        let b = self.rng.range(-3, 12);
                        let b = if self.rng.chance(1, 4) { self.num_expr(depth + 2) } else { num(b) };
                        method(s, "slice", vec![num(a), b])
                    }
                    1 => method(s, "to_uppercase", vec![]),
                    2 => method(s, "to_lowercase", vec![]),
                    3 => method(s, "trim", vec![]),
                    _ => {
                        // arguments are evaluated after the receiver: they may call functions that
                        // reassign the very variable the receiver was read from
                        let from = if self.rng.chance(1, 3) { self.str_expr(depth + 2) } else { plain(self.rng.pick(&["t", "1", "x", " ", "é", "2", "-"])) };
                        let to = if self.rng.chance(1, 3) { self.str_expr(depth + 2) } else { plain(&self.str_text().replace(['{', '}'], "")) };
                        method(s, "replace", vec![from, to])
                    }
                }
            }
            4 => self.try_call(&Ty::Str, depth).unwrap_or_else(|| self.str_lit()),
            5 => self.elem_read(&Ty::Str).unwrap_or_else(|| self.str_lit()),
            6 => {
                // join of an array of strings or numbers
                let arrs: Vec<VarInfo> = self
                    .all_vars()
                    .into_iter()
                    .filter(|v| {
                        v.ty == Ty::arr(Ty::Str)
                            || v.ty == Ty::arr(Ty::Num)
                            || v.ty == Ty::arr(Ty::arr(Ty::Str))
                            || v.ty == Ty::arr(Ty::Any)
                    })
                    .collect();
                if arrs.is_empty() {
                    self.str_lit()
                } else {
                    let sep = *self.rng.pick(&[",", "", " - ", "é", "|"]);
                    method(var(&self.rng.pick(&arrs).name.clone()), "join", vec![plain(sep)])
                }
            }
            _ => self.template('"'),
        }
    }

    fn bool_expr(&mut self, depth: usize) -> Expr {
        let leaf = depth >= 3 || self.rng.chance(1, 4);
        if leaf {
            let vars = self.vars_of(&Ty::Bool);
            if !vars.is_empty() && self.rng.chance(1, 2) {
                return var(&self.rng.pick(&vars).name.clone());
            }
            return Expr::Bool(self.rng.chance(1, 2));
        }
        match self.rng.weighted(&[8, 3, 4, 2, 2, 1, 1]) {
            0 => {
                let op = *self.rng.pick(&[BinOp::Eq, BinOp::Gt, BinOp::Lt]);
                bin(op, self.num_expr(depth + 1), self.num_expr(depth + 1))
            }
            1 => {
                let op = *self.rng.pick(&[BinOp::Eq, BinOp::Gt, BinOp::Lt]);
                bin(op, self.str_expr(depth + 1), self.str_expr(depth + 1))
            }
            2 => {
                let op = *self.rng.pick(&[BinOp::And, BinOp::Or]);
                // operand with an observable side effect, to see short-circuiting
                let r = if self.rng.chance(1, 3) {
                    self.try_call(&Ty::Bool, depth).unwrap_or_else(|| self.bool_expr(depth + 1))
                } else if self.rng.chance(1, 8) {
                    self.nullish_expr(depth + 1)
                } else {
                    self.bool_expr(depth + 1)
                };
                // null counts as false on either side and short-circuits `and` on the left
                let l = if self.rng.chance(1, 4) { self.nullish_expr(depth + 1) } else { self.bool_expr(depth + 1) };
                // an operand that ends the run with an error: the error must come out of the
                // operator whichever side it is on (unless short-circuited away)
                let failing = |g: &mut Self| -> Expr {
                    let bad = if g.rng.chance(1, 2) {
                        Expr::Index(Box::new(Expr::Arr(vec![num(1), num(2)])), Box::new(num(7)))
                    } else {
                        bin(BinOp::Divide, g.num_lit(), num(0))
                    };
                    bin(BinOp::Gt, bad, num(0))
                };
                if self.rng.chance(1, 24) {
                    return bin(op, failing(self), r);
                }
                if self.rng.chance(1, 40) {
                    return bin(op, l, failing(self));
                }
                bin(op, l, r)
            }
            3 => {
                let x = if self.rng.chance(1, 6) { self.nullish_expr(depth + 1) } else { self.bool_expr(depth + 1) };
                Expr::Un(UnOp::Not, Box::new(x))
            }
            4 => {
                let t = self.random_ty(2);
                let l = self.expr(&t, depth + 1);
                if self.rng.chance(1, 2) { bin(BinOp::Eq, l, Expr::Null) } else { bin(BinOp::Eq, Expr::Null, l) }
            }
            5 => {
                let op = *self.rng.pick(&[BinOp::Eq, BinOp::Gt, BinOp::Lt]);
                bin(op, self.bool_expr(depth + 1), self.bool_expr(depth + 1))
            }
            _ => self.try_call(&Ty::Bool, depth).unwrap_or(Expr::Bool(true)),
        }
    }

    /// An expression whose value is null: the literal, a variable that holds null, or a call of a
    /// function that returns nothing (which has its own observable effects).
    fn nullish_expr(&mut self, depth: usize) -> Expr {
        match self.rng.weighted(&[2, 2, 3]) {
            0 => Expr::Null,
            1 => {
                let vars = self.vars_of(&Ty::Null);
                if vars.is_empty() { Expr::Null } else { var(&self.rng.pick(&vars).name.clone()) }
            }
            _ => self.try_call(&Ty::Null, depth).unwrap_or(Expr::Null),
        }
    }

    fn arr_expr(&mut self, inner: &Ty, depth: usize) -> Expr {
        let ty = Ty::arr(inner.clone());
        let vars = self.vars_of(&ty);
        if !vars.is_empty() && self.rng.chance(2, 5) {
            self.stats.array_copies += 1;
            return var(&self.rng.pick(&vars).name.clone());
        }
        if *inner == Ty::Str && depth < 3 && self.rng.chance(1, 6) {
            let pat = *self.rng.pick(&[",", " ", "t", "-", "é"]);
            return method(self.str_expr(depth + 1), "split", vec![plain(pat)]);
        }
        if depth < 3
            && self.rng.chance(1, 6)
            && let Some(c) = self.try_call(&ty, depth)
        {
            return c;
        }
        let n = if depth >= 3 { self.rng.range(0, 2) } else { self.rng.range(0, 4) } as usize;
        let mut items = Vec::new();
        for _ in 0..n {
            items.push(self.expr(inner, depth + 1));
        }
        Expr::Arr(items)
    }

    /// Array literal with at least `min` elements (used for fixed-length declarations).
    fn arr_literal(&mut self, inner: &Ty, min: usize, depth: usize) -> Expr {
        let n = min + self.rng.usize(3);
        let mut items = Vec::new();
        for _ in 0..n {
            let e = match inner {
                Ty::Arr(i2) => self.arr_literal(i2, 1, depth + 1),
                other => self.expr(other, depth + 2),
            };
            items.push(e);
        }
        Expr::Arr(items)
    }

    // ----- statements ----------------------------------------------------

    fn dump_all(&mut self, out: &mut Vec<Stmt>) {
        for v in self.all_vars() {
            out.push(shout(var(&v.name)));
        }
    }

    fn dump_arrays(&mut self, out: &mut Vec<Stmt>) {
        for v in self.all_vars() {
            if matches!(v.ty, Ty::Arr(_)) {
                out.push(shout(var(&v.name)));
            }
        }
    }

    /// Generates `n` statements into the current scope. `top` = program top level.
    fn block_stmts(&mut self, n: usize, top: bool) -> Vec<Stmt> {
        let mut out: Vec<Stmt> = Vec::new();

        // functions of this block that are generated up front and may be placed anywhere,
        // so that calls before the definition (forward references) are meaningful
        let mut hoisted: Vec<Stmt> = Vec::new();
        let want_fns = match self.profile {
            Profile::Scope => self.rng.range(0, 3),
            Profile::Array | Profile::Mem => self.rng.range(0, 2),
            _ => self.rng.range(0, 2),
        };
        if self.depth >= 1 && self.depth <= 2 && self.budget > 4 && self.rng.chance(1, if self.profile == Profile::Scope { 3 } else { 10 }) {
            // An inner definition that shadows a visible outer function. It is generated before
            // anything else of this block exists (so nothing in the block was bound to the outer
            // one) and has the same signature, so every call site type-checks against either.
            let here: Vec<String> = self.scopes.last().unwrap().fns.iter().map(|f| f.name.clone()).collect();
            let cands: Vec<FnInfo> = self.callable(None).into_iter().filter(|f| !f.recursive && !here.contains(&f.name)).collect();
            if !cands.is_empty() {
                let f = self.rng.pick(&cands).clone();
                self.force_sig = Some((f.params.clone(), f.ret.clone()));
                self.stats.shadowings += 1;
                let def = self.func_def_named(f.name.clone(), false, None);
                hoisted.push(def);
            }
        }
        if self.depth <= 2 && self.budget > 4 {
            for _ in 0..want_fns {
                if self.rng.chance(1, 5) && self.depth <= 1 {
                    hoisted.extend(self.mutual_pair());
                } else {
                    hoisted.push(self.func_def());
                }
            }
        }
        for _ in 0..n {
            if self.budget <= 0 {
                break;
            }
            self.scopes.last_mut().unwrap().cur_stmt = out.len();
            let terminated = self.statement(&mut out, top);
            if terminated {
                if self.profile == Profile::Dead && self.rng.chance(2, 3) {
                    // code after return / comot / next: must never run
                    let k = self.rng.range(1, 2);
                    for _ in 0..k {
                        self.stats.dead_stmts += 1;
                        self.scopes.last_mut().unwrap().cur_stmt = out.len();
                        self.simple_statement(&mut out);
                    }
                }
                break;
            }
        }
        let terminated = out.last().is_some_and(|s| matches!(s, Stmt::Return(_) | Stmt::Break | Stmt::Continue));
        if !terminated {
            // most functions defined here get at least one call
            let mine: Vec<FnInfo> = self.scopes.last().unwrap().fns.clone();
            let ok: Vec<String> = self.callable(None).into_iter().map(|f| f.name).collect();
            for f in mine {
                if ok.contains(&f.name) && !self.called.contains(&f.name) && self.rng.chance(6, 7) {
                    let c = self.call_expr(&f, 1);
                    out.push(if f.ret == Ty::Null { Stmt::Expr(c) } else { shout(c) });
                }
            }
        }
        // The up-front functions were generated against the names visible at block entry; a
        // definition placed after a declaration that shadows one of those names would bind
        // differently, so they go before the first such declaration. Anywhere else is fine,
        // including after the calls (forward reference) and after a terminator.
        let limit = self.scopes.last().unwrap().first_shadow.unwrap_or(out.len()).min(out.len());
        for def in hoisted {
            let pos = self.rng.usize(limit + 1);
            if pos > 0 {
                self.stats.forward_calls += 1;
            }
            out.insert(pos, def);
        }
        // a bare `return` must be the last statement of its block
        if let Some(pos) = out.iter().position(|s| matches!(s, Stmt::Return(None)))
            && pos + 1 != out.len()
        {
            out[pos] = Stmt::Return(Some(Expr::Null));
        }
        out
    }

    fn simple_statement(&mut self, out: &mut Vec<Stmt>) {
        self.budget -= 1;
        match self.rng.weighted(&[4, 3, 4]) {
            0 => self.make_stmt(out),
            1 => {
                if !self.assign_stmt(out) {
                    self.make_stmt(out);
                }
            }
            _ => {
                let t = self.random_ty(1);
                let e = self.expr(&t, 1);
                out.push(shout(e));
            }
        }
    }

    fn make_stmt(&mut self, out: &mut Vec<Stmt>) {
        let ty = self.random_ty(0);
        let name = self.var_name(&ty);
        if self.rng.chance(1, 25) {
            // uninitialised declaration: null (fresh name: one name, one type)
            let name = self.fresh_name("z");
            self.declare(VarInfo { name: name.clone(), ty: Ty::Null, frozen: false, fixed: false, lens: vec![] });
            out.push(Stmt::Make { name, init: None, decl: u32::MAX });
            return;
        }
        let (init, fixed, lens) = match &ty {
            Ty::Arr(inner) if self.rng.chance(1, 2) => {
                let min = self.rng.range(1, 3) as usize;
                let e = self.arr_literal(inner, min, 0);
                let mut lens = vec![min];
                if matches!(**inner, Ty::Arr(_)) {
                    lens.push(1);
                }
                (e, true, lens)
            }
            _ => (self.expr(&ty, 0), false, vec![]),
        };
        out.push(Stmt::Make { name: name.clone(), init: Some(init), decl: u32::MAX });
        self.declare(VarInfo { name, ty, frozen: false, fixed, lens });
    }

    fn assign_stmt(&mut self, out: &mut Vec<Stmt>) -> bool {
        let cands: Vec<VarInfo> =
            self.all_vars().into_iter().filter(|v| !v.frozen && !v.fixed && v.ty != Ty::Any).collect();
        if cands.is_empty() {
            return false;
        }
        let v = self.rng.pick(&cands).clone();
        // `x get f()` where f itself reads (or writes) x: the callee sees the old value
        if self.rng.chance(1, 4) {
            let fs: Vec<FnInfo> = self.callable(Some(&v.ty)).into_iter().filter(|f| f.captures.contains(&v.name)).collect();
            if !fs.is_empty() {
                let f = self.rng.pick(&fs).clone();
                let c = self.call_expr(&f, 1);
                out.push(Stmt::Assign { name: v.name, value: c, decl: u32::MAX });
                return true;
            }
        }
        let e = match (&v.ty, self.rng.chance(1, 2)) {
            // accumulate: x get x add ...
            (Ty::Num, true) => bin(BinOp::Add, var(&v.name), self.num_expr(1)),
            (Ty::Str, true) => {
                if self.rng.chance(1, 2) {
                    bin(BinOp::Add, var(&v.name), self.str_expr(1))
                } else {
                    bin(BinOp::Add, self.str_expr(1), var(&v.name))
                }
            }
            _ => self.expr(&v.ty, 0),
        };
        out.push(Stmt::Assign { name: v.name, value: e, decl: u32::MAX });
        true
    }

    /// `c.arg(v)` / `c.cwd(s)` / `c.env(k, v)` on a command variable or an element that is one.
    fn cmd_mutation(&mut self, out: &mut Vec<Stmt>) -> bool {
        let mut targets: Vec<Expr> = self.vars_of(&Ty::Cmd).into_iter().map(|v| var(&v.name)).collect();
        for v in self.all_vars() {
            if v.fixed && v.ty == Ty::arr(Ty::Cmd) && v.lens.first().copied().unwrap_or(0) > 0 {
                let k = self.rng.usize(v.lens[0]);
                targets.push(Expr::Index(Box::new(var(&v.name)), Box::new(num(k as i64))));
            }
        }
        if targets.is_empty() {
            return false;
        }
        let t = self.rng.pick(&targets).clone();
        let stmt = match self.rng.weighted(&[6, 1, 2, 1]) {
            0 => {
                let ty = match self.rng.below(4) {
                    0 => Ty::Num,
                    1 | 2 => Ty::Str,
                    _ => Ty::Bool,
                };
                method(t.clone(), "arg", vec![self.expr(&ty, 1)])
            }
            1 => method(t.clone(), "cwd", vec![self.str_expr(2)]),
            2 => method(t.clone(), "env", vec![plain(&format!("K{}", self.site())), self.str_expr(2)]),
            _ => method(t.clone(), "stdout_capture", vec![]),
        };
        out.push(Stmt::Expr(stmt));
        if self.rng.chance(1, 2) {
            out.push(shout(t));
        }
        true
    }

    fn array_mutation(&mut self, out: &mut Vec<Stmt>) -> bool {
        if self.rng.chance(1, 3) && self.cmd_mutation(out) {
            return true;
        }
        let arrs: Vec<VarInfo> =
            self.all_vars().into_iter().filter(|v| matches!(v.ty, Ty::Arr(_))).collect();
        if arrs.is_empty() {
            return false;
        }
        let v = self.rng.pick(&arrs).clone();
        let Ty::Arr(inner) = v.ty.clone() else { unreachable!() };
        let inner = *inner;
        // optionally descend into a nested array
        if let Ty::Arr(inner2) = &inner
            && self.rng.chance(1, 2)
        {
            let inner2 = (**inner2).clone();
            let path = |k: Expr| Expr::Index(Box::new(var(&v.name)), Box::new(k));
            let guard_needed = !(v.fixed && v.lens.first().copied().unwrap_or(0) > 0);
            let k = if v.fixed { self.rng.usize(v.lens[0].max(1)) } else { self.rng.usize(2) };
            let target = path(num(k as i64));
            let stmt = match self.rng.weighted(&[4, if v.fixed { 0 } else { 2 }, 2, 3]) {
                0 => Stmt::Expr(method(target, "push", vec![self.expr(&inner2, 1)])),
                1 => Stmt::Expr(call("shout", vec![method(target, "pop", vec![])])),
                2 => Stmt::Expr(method(target, "reverse", vec![])),
                _ => {
                    // a[k][0] get e   (inner arrays of fixed outer arrays keep length >= 1)
                    let t2 = Expr::Index(Box::new(target), Box::new(num(0)));
                    if v.fixed && v.lens.get(1).copied().unwrap_or(0) > 0 {
                        Stmt::AssignIndex { target: t2, value: self.expr(&inner2, 1) }
                    } else {
                        Stmt::If {
                            cond: bin(
                                BinOp::And,
                                bin(BinOp::Gt, method(var(&v.name), "len", vec![]), num(k as i64)),
                                Expr::Bool(true),
                            ),
                            then_b: Block { stmts: vec![shout(plain("guarded"))] },
                            else_b: None,
                        }
                    }
                }
            };
            if guard_needed {
                out.push(Stmt::If {
                    cond: bin(BinOp::Gt, method(var(&v.name), "len", vec![]), num(k as i64)),
                    then_b: Block { stmts: vec![stmt] },
                    else_b: None,
                });
            } else {
                out.push(stmt);
            }
            return true;
        }
        match self.rng.weighted(&[5, if v.fixed { 0 } else { 3 }, 2, 4]) {
            0 => {
                let e = match &inner {
                    Ty::Arr(i2) if v.fixed => self.arr_literal(i2, 1, 1),
                    other => self.expr(other, 1),
                };
                out.push(Stmt::Expr(method(var(&v.name), "push", vec![e])));
            }
            1 => {
                if self.rng.chance(1, 2) {
                    out.push(shout(method(var(&v.name), "pop", vec![])));
                } else {
                    let name = self.fresh_name("d");
                    out.push(Stmt::Make {
                        name: name.clone(),
                        init: Some(method(var(&v.name), "pop", vec![])),
                        decl: u32::MAX,
                    });
                    self.declare(VarInfo { name, ty: Ty::Any, frozen: false, fixed: false, lens: vec![] });
                }
            }
            2 => out.push(Stmt::Expr(method(var(&v.name), "reverse", vec![]))),
            _ => {
                let e = match &inner {
                    Ty::Arr(i2) if v.fixed => self.arr_literal(i2, 1, 1),
                    other => self.expr(other, 1),
                };
                if v.fixed && v.lens[0] > 0 {
                    let k = self.rng.usize(v.lens[0]);
                    out.push(Stmt::AssignIndex {
                        target: Expr::Index(Box::new(var(&v.name)), Box::new(num(k as i64))),
                        value: e,
                    });
                } else {
                    let k = self.rng.range(0, 2);
                    let unguarded = self.rng.chance(1, 12);
                    let st = Stmt::AssignIndex {
                        target: Expr::Index(Box::new(var(&v.name)), Box::new(num(k))),
                        value: e,
                    };
                    if unguarded {
                        out.push(st);
                    } else {
                        out.push(Stmt::If {
                            cond: bin(BinOp::Gt, method(var(&v.name), "len", vec![]), num(k)),
                            then_b: Block { stmts: vec![st] },
                            else_b: None,
                        });
                    }
                }
            }
        }
        true
    }

    /// `r[f() ...]` where the (complete) function f mentions the array r itself: the array operand
    /// is read before the index expression runs.
    fn index_with_side_effect(&mut self, out: &mut Vec<Stmt>) -> bool {
        let arrs: Vec<VarInfo> = self.all_vars().into_iter().filter(|v| matches!(v.ty, Ty::Arr(_))).collect();
        for v in arrs {
            let fs: Vec<FnInfo> = self.callable(Some(&Ty::Num)).into_iter().filter(|f| f.captures.contains(&v.name)).collect();
            if fs.is_empty() {
                continue;
            }
            let f = self.rng.pick(&fs).clone();
            let c = self.call_expr(&f, 1);
            let idx = bin(BinOp::Mod, method(method(c, "abs", vec![]), "floor", vec![]), method(var(&v.name), "len", vec![]));
            let read = Expr::Index(Box::new(var(&v.name)), Box::new(idx));
            out.push(Stmt::If {
                cond: bin(BinOp::Gt, method(var(&v.name), "len", vec![]), num(0)),
                then_b: Block { stmts: vec![shout(read)] },
                else_b: None,
            });
            return true;
        }
        // no such function yet: use the array's own pop as the index source
        let nums: Vec<VarInfo> = self.all_vars().into_iter().filter(|v| v.ty == Ty::arr(Ty::Num) && !v.fixed).collect();
        if nums.is_empty() {
            return false;
        }
        let v = self.rng.pick(&nums).clone();
        // a[(a.pop() times 0)]: index 0 of the array as it was *before* the pop
        let idx = bin(BinOp::Times, method(var(&v.name), "pop", vec![]), num(0));
        out.push(Stmt::If {
            cond: bin(BinOp::Gt, method(var(&v.name), "len", vec![]), num(0)),
            then_b: Block { stmts: vec![shout(Expr::Index(Box::new(var(&v.name)), Box::new(idx)))] },
            else_b: None,
        });
        true
    }

    fn volatile_read(&mut self, out: &mut Vec<Stmt>) -> bool {
        if self.rng.chance(1, 3) && self.index_with_side_effect(out) {
            return true;
        }
        let arrs: Vec<VarInfo> = self
            .all_vars()
            .into_iter()
            .filter(|v| matches!(v.ty, Ty::Arr(_)) && !v.fixed)
            .collect();
        if arrs.is_empty() {
            return false;
        }
        let v = self.rng.pick(&arrs).clone();
        let k = self.rng.range(0, 3);
        let read = Expr::Index(Box::new(var(&v.name)), Box::new(num(k)));
        if self.rng.chance(1, 15) {
            // unguarded: may end the run with "Index out of bounds"
            out.push(shout(read));
        } else {
            out.push(Stmt::If {
                cond: bin(BinOp::Gt, method(var(&v.name), "len", vec![]), num(k)),
                then_b: Block { stmts: vec![shout(read)] },
                else_b: Some(Block { stmts: vec![shout(method(var(&v.name), "len", vec![]))] }),
            });
        }
        true
    }

    fn idiom_lit(&mut self, is_num: bool) -> Expr {
        if is_num { self.num_lit() } else { self.str_lit() }
    }

    /// A variable is stored in one basic block, then a function that assigns it only behind a
    /// condition (directly or through a second function) is called, then the variable is read: the
    /// earlier store is observed whenever the condition is false. Variants put the store in an
    /// `if`, a loop or straight-line code, let the callee read the variable first or write it
    /// unconditionally, and read it directly, by interpolation or from a nested block.
    fn may_write_idiom(&mut self, out: &mut Vec<Stmt>) {
        self.budget -= 5;
        let is_num = self.rng.chance(1, 2);
        let ty = if is_num { Ty::Num } else { Ty::Str };
        let v = self.fresh_name(if is_num { "mw" } else { "ms" });
        let init = self.idiom_lit(is_num);
        out.push(Stmt::Make { name: v.clone(), init: Some(init), decl: u32::MAX });
        self.declare(VarInfo { name: v.clone(), ty, frozen: false, fixed: false, lens: vec![] });

        // the writer(s)
        let w = self.fresh_name("w");
        let fl = self.fresh_name("fl");
        let written = if self.rng.chance(1, 4) {
            bin(BinOp::Add, var(&v), self.idiom_lit(is_num))
        } else {
            self.idiom_lit(is_num)
        };
        let write = Stmt::Assign { name: v.clone(), value: written, decl: u32::MAX };
        let guarded = if self.rng.chance(1, 6) {
            write
        } else {
            let cond = if self.rng.chance(1, 4) { Expr::Un(UnOp::Not, Box::new(var(&fl))) } else { var(&fl) };
            Stmt::If { cond, then_b: Block { stmts: vec![write] }, else_b: None }
        };
        let returns = self.rng.chance(1, 3);
        let mut defs: Vec<Stmt> = Vec::new();
        let mut body = vec![guarded];
        if self.rng.chance(1, 3) {
            // the write sits one call further down
            let w2 = self.fresh_name("w");
            let fl2 = self.fresh_name("fl");
            let inner = std::mem::replace(&mut body, vec![Stmt::Expr(call(&w2, vec![var(&fl)]))]);
            let inner = rename_var_in(inner, &fl, &fl2);
            defs.push(Stmt::FuncDef(Box::new(FuncDef { name: w2, params: vec![fl2], param_decls: vec![], body: Block { stmts: inner }, id: u32::MAX })));
        }
        if returns {
            body.push(Stmt::Return(Some(self.num_lit())));
        }
        defs.push(Stmt::FuncDef(Box::new(FuncDef { name: w.clone(), params: vec![fl], param_decls: vec![], body: Block { stmts: body }, id: u32::MAX })));
        let defs_first = self.rng.chance(2, 3);
        if defs_first {
            out.append(&mut defs);
        }

        if self.rng.chance(1, 3) {
            // The calls sit in another function than the one that owns the variable, and their
            // results are never looked at: the statements are dead stores whose right-hand sides
            // write a variable of an enclosing scope.
            let f = self.fresh_name("w");
            let mut fb: Vec<Stmt> = Vec::new();
            for _ in 0..self.rng.range(1, 3) {
                let arg = Expr::Bool(self.rng.chance(3, 4));
                let c = call(&w, vec![arg]);
                let u = self.fresh_name("u");
                fb.push(if returns { Stmt::Make { name: u, init: Some(c), decl: u32::MAX } } else { Stmt::Expr(c) });
            }
            fb.push(Stmt::Return(Some(num(0))));
            let def_f = Stmt::FuncDef(Box::new(FuncDef { name: f.clone(), params: vec![], param_decls: vec![], body: Block { stmts: fb }, id: u32::MAX }));
            if defs_first {
                out.push(def_f.clone());
            }
            if self.rng.chance(1, 2) {
                out.push(Stmt::Expr(call(&f, vec![])));
            } else {
                let u = self.fresh_name("u");
                out.push(Stmt::Make { name: u, init: Some(call(&f, vec![])), decl: u32::MAX });
            }
            out.push(shout(var(&v)));
            if !defs_first {
                out.push(def_f);
                out.append(&mut defs);
            }
            return;
        }

        // the store, in a block of its own more often than not
        let stored = self.idiom_lit(is_num);
        let store = Stmt::Assign { name: v.clone(), value: stored, decl: u32::MAX };
        match self.rng.weighted(&[5, 2, 2]) {
            0 => {
                let cond = if self.rng.chance(1, 2) { Expr::Bool(self.rng.chance(3, 4)) } else { self.bool_expr(2) };
                out.push(Stmt::If { cond, then_b: Block { stmts: vec![store] }, else_b: None });
            }
            1 => {
                let i = self.fresh_name("i");
                out.push(Stmt::Make { name: i.clone(), init: Some(num(0)), decl: u32::MAX });
                self.declare(VarInfo { name: i.clone(), ty: Ty::Num, frozen: true, fixed: false, lens: vec![] });
                let inc = Stmt::Assign { name: i.clone(), value: bin(BinOp::Add, var(&i), num(1)), decl: u32::MAX };
                out.push(Stmt::Loop { cond: bin(BinOp::Lt, var(&i), num(self.rng.range(0, 2))), body: Block { stmts: vec![inc, store] } });
            }
            _ => out.push(store),
        }

        // the call, in the block that follows
        let arg = match self.rng.weighted(&[4, 2, 1]) {
            0 => Expr::Bool(false),
            1 => Expr::Bool(true),
            _ => self.bool_expr(2),
        };
        let c = call(&w, vec![arg]);
        let wrapped = self.rng.chance(1, 5);
        let call_stmt = if returns && self.rng.chance(1, 2) {
            let u = self.fresh_name("u");
            let st = Stmt::Make { name: u.clone(), init: Some(c), decl: u32::MAX };
            if !wrapped {
                self.declare(VarInfo { name: u, ty: Ty::Num, frozen: false, fixed: false, lens: vec![] });
            }
            st
        } else {
            Stmt::Expr(c)
        };
        if wrapped {
            out.push(Stmt::If { cond: Expr::Bool(true), then_b: Block { stmts: vec![call_stmt] }, else_b: None });
        } else {
            out.push(call_stmt);
        }

        // the read
        match self.rng.weighted(&[5, 2, 2, 1]) {
            0 => out.push(shout(var(&v))),
            1 => out.push(shout(Expr::Str(StrLit::Template {
                segs: vec![Seg::Text("v=".to_string()), Seg::Var { name: v.clone(), pad_l: 0, pad_r: 0, decl: u32::MAX }],
                quote: '"',
            }))),
            2 => out.push(Stmt::If { cond: Expr::Bool(true), then_b: Block { stmts: vec![shout(var(&v))] }, else_b: None }),
            _ => {}
        }
        if !defs_first {
            out.append(&mut defs);
        }
    }

    /// A computed string of exactly `len` bytes (`"<half>" add "<half>"`): an owned value in the
    /// string pool, of a chosen size class.
    fn computed_str(&mut self, len: usize) -> Expr {
        let a = self.text_of_len(len / 2);
        let b = self.text_of_len(len - a.len());
        bin(BinOp::Add, plain(&a), plain(&b))
    }

    /// Left-to-right evaluation with a side effect in a later operand: a variable is read as the
    /// receiver, left operand, first argument or first element, and a call further right in the
    /// same expression then overwrites that variable (and allocates more values of the same size
    /// class, so that storage given back is taken again at once). The expression must see the value
    /// the variable had when it was read.
    fn eval_order_idiom(&mut self, out: &mut Vec<Stmt>) {
        self.budget -= 6;
        let len = *self.rng.pick(&[6usize, 8, 9, 16, 17, 24, 32, 33, 64, 100, 128, 129, 256, 257, 300]);
        let on_array = self.rng.chance(1, 4);
        let v = self.fresh_name(if on_array { "ra" } else { "rs" });
        let w = self.fresh_name("w");
        let wn = self.fresh_name("w");
        let show = self.fresh_name("w");
        let init = if on_array { Expr::Arr(vec![self.computed_str(len), self.computed_str(len)]) } else { self.computed_str(len) };
        out.push(Stmt::Make { name: v.clone(), init: Some(init), decl: u32::MAX });
        let ty = if on_array { Ty::arr(Ty::Str) } else { Ty::Str };
        self.declare(VarInfo { name: v.clone(), ty, frozen: false, fixed: false, lens: vec![] });
        // the writers: w returns a string, wn a small number
        let mut defs = Vec::new();
        for (name, ret) in [(&w, plain(*self.rng.pick(&["t", "x", "-", "é", "zz"]))), (&wn, num(self.rng.range(1, 3)))] {
            let mut body = Vec::new();
            let overwrite = match (on_array, self.rng.weighted(&[3, 2, 2])) {
                (false, _) => Stmt::Assign { name: v.clone(), value: self.computed_str(len), decl: u32::MAX },
                (true, 0) => Stmt::Assign { name: v.clone(), value: Expr::Arr(vec![self.computed_str(len)]), decl: u32::MAX },
                (true, 1) => Stmt::AssignIndex { target: Expr::Index(Box::new(var(&v)), Box::new(num(0))), value: self.computed_str(len) },
                (true, _) => Stmt::Expr(method(var(&v), "reverse", vec![])),
            };
            body.push(overwrite);
            for _ in 0..self.rng.range(0, 2) {
                let t = self.fresh_name("s");
                body.push(Stmt::Make { name: t, init: Some(self.computed_str(len)), decl: u32::MAX });
            }
            body.push(Stmt::Return(Some(ret)));
            defs.push(Stmt::FuncDef(Box::new(FuncDef { name: name.clone(), params: vec![], param_decls: vec![], body: Block { stmts: body }, id: u32::MAX })));
        }
        let (pa, pb) = (self.fresh_name("p"), self.fresh_name("p"));
        let show_body = if on_array {
            vec![Stmt::Return(Some(bin(BinOp::Add, method(var(&pa), "join", vec![plain("|")]), var(&pb))))]
        } else {
            vec![Stmt::Return(Some(bin(BinOp::Add, var(&pa), var(&pb))))]
        };
        defs.push(Stmt::FuncDef(Box::new(FuncDef { name: show.clone(), params: vec![pa, pb], param_decls: vec![], body: Block { stmts: show_body }, id: u32::MAX })));
        let defs_first = self.rng.chance(1, 2);
        if defs_first {
            out.append(&mut defs);
        }
        for _ in 0..self.rng.range(1, 3) {
            let cw = call(&w, vec![]);
            let cn = call(&wn, vec![]);
            let e = if on_array {
                match self.rng.weighted(&[3, 3, 2, 2]) {
                    0 => method(var(&v), "join", vec![cw]),
                    1 => call(&show, vec![var(&v), cw]),
                    2 => Expr::Arr(vec![var(&v), cw]),
                    _ => bin(BinOp::Add, Expr::Index(Box::new(var(&v)), Box::new(num(0))), cw),
                }
            } else {
                match self.rng.weighted(&[3, 2, 2, 3, 3, 2, 2, 2, 1]) {
                    0 => method(var(&v), "find", vec![cw]),
                    1 => method(var(&v), "replace", vec![cw, plain("Z")]),
                    2 => method(var(&v), "replace", vec![plain("x"), cw]),
                    3 => bin(BinOp::Add, var(&v), cw),
                    4 => call(&show, vec![var(&v), cw]),
                    5 => Expr::Arr(vec![var(&v), cw]),
                    6 => method(var(&v), "slice", vec![num(0), bin(BinOp::Add, cn, num(len as i64))]),
                    7 => method(var(&v), "split", vec![cw]),
                    _ => bin(BinOp::Lt, var(&v), cw),
                }
            };
            out.push(shout(e));
            out.push(shout(var(&v)));
        }
        if !defs_first {
            out.append(&mut defs);
        }
    }

    /// The classic probe for lexical against dynamic binding: a function reads, assigns and mutates
    /// in place a variable of its defining scope while its (direct or indirect) caller holds a
    /// different variable of the same name as a local, a parameter or a loop-body local. The
    /// defining scope's variable must change, the caller's must not.
    fn scope_probe_idiom(&mut self, out: &mut Vec<Stmt>) {
        self.budget -= 8;
        let x = self.fresh_name("sp");
        let kind = self.rng.weighted(&[2, 2, 3, 4, 2]); // num, str, array, array of arrays, process command
        let (ty, outer_init, caller_init): (Ty, Expr, Expr) = match kind {
            0 => (Ty::Num, self.num_lit(), self.num_lit()),
            1 => (Ty::Str, self.str_lit(), self.str_lit()),
            2 => (Ty::arr(Ty::Num), Expr::Arr(vec![self.num_lit(), self.num_lit()]), Expr::Arr(vec![self.num_lit()])),
            4 => (Ty::Cmd, call("command", vec![self.str_lit()]), call("command", vec![self.str_lit()])),
            _ => (
                Ty::arr(Ty::arr(Ty::Num)),
                Expr::Arr(vec![Expr::Arr(vec![self.num_lit()]), Expr::Arr(vec![self.num_lit(), self.num_lit()])]),
                Expr::Arr(vec![Expr::Arr(vec![self.num_lit()])]),
            ),
        };
        out.push(Stmt::Make { name: x.clone(), init: Some(outer_init), decl: u32::MAX });
        self.declare(VarInfo { name: x.clone(), ty: ty.clone(), frozen: false, fixed: matches!(ty, Ty::Arr(_)), lens: if kind == 3 { vec![1, 1] } else if kind == 2 { vec![1] } else { vec![] } });
        let inner = self.fresh_name("w");
        let mid = self.fresh_name("w");
        let outerf = self.fresh_name("w");
        let idx0 = |e: Expr| Expr::Index(Box::new(e), Box::new(num(0)));
        let mut body: Vec<Stmt> = Vec::new();
        for _ in 0..self.rng.range(2, 4) {
            let st = match kind {
                0 => match self.rng.weighted(&[3, 2, 2]) {
                    0 => Stmt::Assign { name: x.clone(), value: bin(BinOp::Add, var(&x), num(1)), decl: u32::MAX },
                    1 => shout(var(&x)),
                    _ => shout(Expr::Str(StrLit::Template { segs: vec![Seg::Text("x=".into()), Seg::Var { name: x.clone(), pad_l: 0, pad_r: 0, decl: u32::MAX }], quote: '"' })),
                },
                1 => match self.rng.weighted(&[3, 2, 2]) {
                    0 => Stmt::Assign { name: x.clone(), value: bin(BinOp::Add, var(&x), plain("+")), decl: u32::MAX },
                    1 => shout(method(var(&x), "len", vec![])),
                    _ => shout(Expr::Str(StrLit::Template { segs: vec![Seg::Var { name: x.clone(), pad_l: 1, pad_r: 0, decl: u32::MAX }, Seg::Text("!".into())], quote: '"' })),
                },
                4 => match self.rng.weighted(&[4, 2, 1]) {
                    0 => Stmt::Expr(method(var(&x), "arg", vec![self.str_lit()])),
                    1 => shout(var(&x)),
                    _ => Stmt::Expr(method(var(&x), "arg", vec![self.num_lit()])),
                },
                2 => match self.rng.weighted(&[3, 3, 1, 2, 1]) {
                    0 => Stmt::Expr(method(var(&x), "push", vec![self.num_lit()])),
                    1 => Stmt::AssignIndex { target: idx0(var(&x)), value: self.num_lit() },
                    2 => Stmt::Expr(method(var(&x), "reverse", vec![])),
                    3 => shout(var(&x)),
                    _ => Stmt::Assign { name: x.clone(), value: Expr::Arr(vec![self.num_lit(), self.num_lit(), self.num_lit()]), decl: u32::MAX },
                },
                _ => match self.rng.weighted(&[4, 3, 2, 2, 2]) {
                    0 => Stmt::Expr(method(idx0(var(&x)), "push", vec![self.num_lit()])),
                    1 => Stmt::AssignIndex { target: idx0(idx0(var(&x))), value: self.num_lit() },
                    2 => Stmt::Expr(method(idx0(var(&x)), "reverse", vec![])),
                    3 => Stmt::Expr(method(var(&x), "push", vec![Expr::Arr(vec![self.num_lit()])])),
                    _ => shout(idx0(var(&x))),
                },
            };
            body.push(st);
        }
        body.push(Stmt::Return(Some(num(0))));
        let def_inner = Stmt::FuncDef(Box::new(FuncDef { name: inner.clone(), params: vec![], param_decls: vec![], body: Block { stmts: body }, id: u32::MAX }));
        let via_mid = self.rng.chance(1, 3);
        let def_mid = Stmt::FuncDef(Box::new(FuncDef {
            name: mid.clone(),
            params: vec![],
            param_decls: vec![],
            body: Block { stmts: vec![Stmt::Return(Some(call(&inner, vec![])))] },
            id: u32::MAX,
        }));
        let callee = if via_mid { mid.clone() } else { inner.clone() };
        // the caller and its own variable of the same name
        let how = self.rng.weighted(&[3, 2, 2]); // local, parameter, loop-body local
        let mut cbody: Vec<Stmt> = Vec::new();
        let call_and_show = vec![Stmt::Expr(call(&callee, vec![])), shout(var(&x))];
        match how {
            0 => {
                cbody.push(Stmt::Make { name: x.clone(), init: Some(caller_init.clone()), decl: u32::MAX });
                cbody.extend(call_and_show);
            }
            1 => cbody.extend(call_and_show),
            _ => {
                let i = self.fresh_name("i");
                cbody.push(Stmt::Make { name: i.clone(), init: Some(num(0)), decl: u32::MAX });
                let mut lb = vec![
                    Stmt::Assign { name: i.clone(), value: bin(BinOp::Add, var(&i), num(1)), decl: u32::MAX },
                    Stmt::Make { name: x.clone(), init: Some(caller_init.clone()), decl: u32::MAX },
                ];
                lb.extend(call_and_show);
                cbody.push(Stmt::Loop { cond: bin(BinOp::Lt, var(&i), num(self.rng.range(1, 2))), body: Block { stmts: lb } });
            }
        }
        cbody.push(Stmt::Return(Some(num(0))));
        let params = if how == 1 { vec![x.clone()] } else { vec![] };
        let def_outer = Stmt::FuncDef(Box::new(FuncDef { name: outerf.clone(), params, param_decls: vec![], body: Block { stmts: cbody }, id: u32::MAX }));
        let mut defs = vec![def_inner];
        if via_mid {
            defs.push(def_mid);
        }
        defs.push(def_outer);
        if self.rng.chance(1, 2) {
            defs.reverse();
        }
        let defs_first = self.rng.chance(2, 3);
        if defs_first {
            out.append(&mut defs);
        }
        let args = if how == 1 { vec![caller_init] } else { vec![] };
        out.push(Stmt::Expr(call(&outerf, args)));
        out.push(shout(var(&x)));
        if !defs_first {
            out.append(&mut defs);
        }
    }

    /// The same probe for function names: `k` calls the function `h` of its defining block several
    /// times (statement, operand, argument, loop body) while its caller `g` defines a function `h`
    /// of its own; every call in `k` must reach the outer `h`, every call in `g` the inner one.
    fn fn_scope_probe_idiom(&mut self, out: &mut Vec<Stmt>) {
        self.budget -= 8;
        let (h, k, g) = (self.fresh_name("w"), self.fresh_name("w"), self.fresh_name("w"));
        let p = self.fresh_name("p");
        let mk = |name: &str, params: Vec<String>, body: Vec<Stmt>| Stmt::FuncDef(Box::new(FuncDef { name: name.to_string(), params, param_decls: vec![], body: Block { stmts: body }, id: u32::MAX }));
        let tag_outer = self.str_lit();
        let tag_inner = self.str_lit();
        let def_h_outer = mk(&h, vec![p.clone()], vec![Stmt::Return(Some(bin(BinOp::Add, tag_outer, var(&p))))]);
        let def_h_inner = mk(&h, vec![p.clone()], vec![Stmt::Return(Some(bin(BinOp::Add, tag_inner, var(&p))))]);
        // k: several call sites of h
        let mut kb: Vec<Stmt> = Vec::new();
        let acc = self.fresh_name("s");
        kb.push(Stmt::Make { name: acc.clone(), init: Some(plain("")), decl: u32::MAX });
        for n in 0..self.rng.range(2, 4) {
            let c = call(&h, vec![plain(&format!("{n}"))]);
            match self.rng.weighted(&[3, 2, 2, 2]) {
                0 => kb.push(Stmt::Assign { name: acc.clone(), value: bin(BinOp::Add, var(&acc), c), decl: u32::MAX }),
                1 => kb.push(shout(c)),
                2 => kb.push(Stmt::Assign { name: acc.clone(), value: bin(BinOp::Add, var(&acc), call(&h, vec![c])), decl: u32::MAX }),
                _ => {
                    let i = self.fresh_name("i");
                    kb.push(Stmt::Make { name: i.clone(), init: Some(num(0)), decl: u32::MAX });
                    kb.push(Stmt::Loop {
                        cond: bin(BinOp::Lt, var(&i), num(2)),
                        body: Block { stmts: vec![Stmt::Assign { name: i.clone(), value: bin(BinOp::Add, var(&i), num(1)), decl: u32::MAX }, Stmt::Assign { name: acc.clone(), value: bin(BinOp::Add, var(&acc), c), decl: u32::MAX }] },
                    });
                }
            }
        }
        kb.push(Stmt::Return(Some(var(&acc))));
        let def_k = mk(&k, vec![], kb);
        // g: its own h, before or after the calls (a definition is visible throughout its block)
        let mut gb: Vec<Stmt> = vec![shout(call(&k, vec![])), shout(call(&h, vec![plain("g")])), shout(call(&k, vec![]))];
        let at = self.rng.usize(gb.len() + 1);
        if self.rng.chance(1, 4) {
            // the inner h sits in a nested block together with the calls
            gb.insert(at, def_h_inner);
            gb = vec![Stmt::Block(Block { stmts: gb })];
        } else {
            gb.insert(at, def_h_inner);
        }
        gb.push(Stmt::Return(Some(num(0))));
        let def_g = mk(&g, vec![], gb);
        let mut defs = vec![def_h_outer, def_k, def_g];
        if self.rng.chance(1, 2) {
            defs.reverse();
        }
        let defs_first = self.rng.chance(2, 3);
        if defs_first {
            out.append(&mut defs);
        }
        out.push(Stmt::Expr(call(&g, vec![])));
        out.push(shout(call(&h, vec![plain("top")])));
        out.push(shout(call(&k, vec![])));
        if self.rng.chance(1, 2) {
            // straight after a call of the outer `h`, a block that defines its own `h` and calls it
            // before that definition: the call belongs to the block's `h`
            let tag_blk = self.str_lit();
            let def_blk = mk(&h, vec![p.clone()], vec![Stmt::Return(Some(bin(BinOp::Add, tag_blk, var(&p))))]);
            out.push(shout(call(&h, vec![plain("pre")])));
            let inner_stmts = vec![shout(call(&h, vec![plain("blk")])), def_blk, shout(call(&h, vec![plain("blk2")]))];
            match self.rng.weighted(&[3, 2, 2]) {
                0 => out.push(Stmt::Block(Block { stmts: inner_stmts })),
                1 => out.push(Stmt::If { cond: Expr::Bool(true), then_b: Block { stmts: inner_stmts }, else_b: None }),
                _ => {
                    let f = self.fresh_name("w");
                    let mut b = inner_stmts;
                    b.push(Stmt::Return(Some(num(0))));
                    out.push(mk(&f, vec![], b));
                    out.push(shout(call(&h, vec![plain("pre2")])));
                    out.push(Stmt::Expr(call(&f, vec![])));
                }
            }
            out.push(shout(call(&h, vec![plain("post")])));
        }
        if self.rng.chance(1, 2) {
            // a parameter shadowed by a `make` of the same name in the body: a nested function
            // defined before that `make` keeps reading (and assigning) the parameter
            let (f, g2, n) = (self.fresh_name("w"), self.fresh_name("w"), self.fresh_name("p"));
            let reads = mk(&g2, vec![], vec![
                Stmt::Assign { name: n.clone(), value: bin(BinOp::Add, var(&n), plain("+")), decl: u32::MAX },
                Stmt::Return(Some(var(&n))),
            ]);
            let body = vec![
                reads,
                shout(call(&g2, vec![])),
                Stmt::Make { name: n.clone(), init: Some(self.str_lit()), decl: u32::MAX },
                shout(var(&n)),
                shout(call(&g2, vec![])),
                shout(var(&n)),
                Stmt::Return(Some(num(0))),
            ];
            out.push(mk(&f, vec![n.clone()], body));
            out.push(Stmt::Expr(call(&f, vec![self.str_lit()])));
        }
        if self.rng.chance(1, 2) {
            // a function whose body defines another function under its own name: a call of that
            // name in the body reaches the inner one (no recursion), from outside the outer one
            let ss = self.fresh_name("w");
            let q = self.fresh_name("p");
            let inner_tag = self.str_lit();
            let inner = mk(&ss, vec![q.clone()], vec![Stmt::Return(Some(bin(BinOp::Add, inner_tag, var(&q))))]);
            let mut body = vec![Stmt::Return(Some(bin(BinOp::Add, call(&ss, vec![plain("x")]), bin(BinOp::Add, plain("|"), var(&q)))))];
            let at = self.rng.usize(2);
            if self.rng.chance(1, 3) {
                body = vec![Stmt::Block(Block { stmts: { let mut b = body; b.insert(0, inner); b } })];
            } else {
                body.insert(at.min(body.len()), inner);
                // a definition after the `return` is still visible throughout the block
            }
            out.push(mk(&ss, vec![q.clone()], body));
            out.push(shout(call(&ss, vec![plain("t")])));
        }
        if !defs_first {
            out.append(&mut defs);
        }
    }

    /// A process command configured from frames that end before it is looked at: arguments added in
    /// loop bodies and function bodies, computed at run time, followed by unrelated string work.
    fn cmd_idiom(&mut self, out: &mut Vec<Stmt>) {
        self.budget -= 6;
        let c = self.fresh_name("cm");
        let len = *self.rng.pick(&[6usize, 8, 16, 17, 32, 64, 128, 129, 256, 300]);
        out.push(Stmt::Make { name: c.clone(), init: Some(call("command", vec![self.computed_str(len)])), decl: u32::MAX });
        self.declare(VarInfo { name: c.clone(), ty: Ty::Cmd, frozen: false, fixed: false, lens: vec![] });
        let i = self.fresh_name("i");
        out.push(Stmt::Make { name: i.clone(), init: Some(num(0)), decl: u32::MAX });
        self.declare(VarInfo { name: i.clone(), ty: Ty::Num, frozen: true, fixed: false, lens: vec![] });
        let arg = bin(BinOp::Add, self.computed_str(len), var(&i));
        out.push(Stmt::Loop {
            cond: bin(BinOp::Lt, var(&i), num(self.rng.range(1, 3))),
            body: Block { stmts: vec![Stmt::Assign { name: i.clone(), value: bin(BinOp::Add, var(&i), num(1)), decl: u32::MAX }, Stmt::Expr(method(var(&c), "arg", vec![arg]))] },
        });
        let f = self.fresh_name("w");
        let p = self.fresh_name("p");
        let fb = vec![
            Stmt::Expr(method(var(&c), "arg", vec![bin(BinOp::Add, var(&p), self.computed_str(len))])),
            Stmt::Expr(method(var(&c), "arg", vec![var(&p)])),
        ];
        out.push(Stmt::FuncDef(Box::new(FuncDef { name: f.clone(), params: vec![p], param_decls: vec![], body: Block { stmts: fb }, id: u32::MAX })));
        out.push(Stmt::Expr(call(&f, vec![self.computed_str(len)])));
        for _ in 0..self.rng.range(1, 3) {
            let t = self.fresh_name("s");
            out.push(Stmt::Make { name: t.clone(), init: Some(self.computed_str(len)), decl: u32::MAX });
            self.declare(VarInfo { name: t, ty: Ty::Str, frozen: false, fixed: false, lens: vec![] });
        }
        out.push(shout(var(&c)));
    }

    /// A name that has one type outside and another inside a nested block, loop body or function
    /// body, with functions of the inner block returning it (directly, through a local, through
    /// another function) and their results used in operations that fit the inner type only.
    fn type_shadow_idiom(&mut self, out: &mut Vec<Stmt>) {
        self.budget -= 8;
        let v = self.fresh_name("ts");
        let lit = |g: &mut Self, t: usize| -> Expr {
            match t {
                0 => g.num_lit(),
                1 => g.str_lit(),
                2 => Expr::Bool(g.rng.chance(1, 2)),
                _ => Expr::Arr(vec![g.num_lit()]),
            }
        };
        let typed_use = |e: Expr, t: usize| -> Expr {
            match t {
                0 => bin(BinOp::Times, e, num(2)),
                1 => method(e, "to_uppercase", vec![]),
                2 => bin(BinOp::And, e, Expr::Bool(true)),
                _ => method(e, "len", vec![]),
            }
        };
        let ta = self.rng.usize(4);
        let tb = (ta + 1 + self.rng.usize(3)) % 4;
        let ty_of = |t: usize| match t {
            0 => Ty::Num,
            1 => Ty::Str,
            2 => Ty::Bool,
            _ => Ty::arr(Ty::Num),
        };
        let outer_init = lit(self, ta);
        out.push(Stmt::Make { name: v.clone(), init: Some(outer_init), decl: u32::MAX });
        self.declare(VarInfo { name: v.clone(), ty: ty_of(ta), frozen: true, fixed: false, lens: vec![] });
        let (g, h) = (self.fresh_name("w"), self.fresh_name("w"));
        let mk = |name: &str, body: Vec<Stmt>| Stmt::FuncDef(Box::new(FuncDef { name: name.to_string(), params: vec![], param_decls: vec![], body: Block { stmts: body }, id: u32::MAX }));
        let inner_init = lit(self, tb);
        let mut inner: Vec<Stmt> = vec![Stmt::Make { name: v.clone(), init: Some(inner_init), decl: u32::MAX }];
        let g_body = match self.rng.weighted(&[3, 2, 2]) {
            0 => vec![Stmt::Return(Some(var(&v)))],
            1 => {
                let t = self.fresh_name("s");
                vec![Stmt::Make { name: t.clone(), init: Some(var(&v)), decl: u32::MAX }, Stmt::Return(Some(var(&t)))]
            }
            _ => vec![Stmt::If { cond: Expr::Bool(true), then_b: Block { stmts: vec![Stmt::Return(Some(var(&v)))] }, else_b: None }, Stmt::Return(Some(var(&v)))],
        };
        let def_g = mk(&g, g_body);
        let def_h = mk(&h, vec![Stmt::Return(Some(call(&g, vec![])))]);
        let uses = vec![shout(typed_use(call(&g, vec![]), tb)), shout(typed_use(call(&h, vec![]), tb)), shout(typed_use(var(&v), tb))];
        if self.rng.chance(1, 2) {
            inner.push(def_g);
            inner.push(def_h);
            inner.extend(uses);
        } else {
            // forward references: the calls come first, the definitions after them
            inner.push(def_h);
            inner.extend(uses);
            inner.push(def_g);
        }
        match self.rng.weighted(&[3, 2, 2, 3]) {
            0 => out.push(Stmt::Block(Block { stmts: inner })),
            1 => out.push(Stmt::If { cond: Expr::Bool(true), then_b: Block { stmts: inner }, else_b: None }),
            2 => {
                let i = self.fresh_name("i");
                out.push(Stmt::Make { name: i.clone(), init: Some(num(0)), decl: u32::MAX });
                self.declare(VarInfo { name: i.clone(), ty: Ty::Num, frozen: true, fixed: false, lens: vec![] });
                inner.insert(0, Stmt::Assign { name: i.clone(), value: bin(BinOp::Add, var(&i), num(1)), decl: u32::MAX });
                out.push(Stmt::Loop { cond: bin(BinOp::Lt, var(&i), num(self.rng.range(1, 2))), body: Block { stmts: inner } });
            }
            _ => {
                let f = self.fresh_name("w");
                inner.push(Stmt::Return(Some(num(0))));
                out.push(mk(&f, inner));
                out.push(Stmt::Expr(call(&f, vec![])));
            }
        }
        out.push(shout(typed_use(var(&v), ta)));
    }

    /// A loop whose condition reads a flag that the body assigns: reset at the top, set again
    /// before `next`, cleared before `comot` or at the end. A store that only the loop condition
    /// reads (along the `next` edge or the back edge) is live.
    fn flag_loop_idiom(&mut self, out: &mut Vec<Stmt>) {
        self.budget -= 8;
        let flag = self.fresh_name("fl");
        let guard = self.fresh_name("i");
        let rounds = self.rng.range(1, 4);
        out.push(Stmt::Make { name: flag.clone(), init: Some(Expr::Bool(true)), decl: u32::MAX });
        out.push(Stmt::Make { name: guard.clone(), init: Some(num(0)), decl: u32::MAX });
        self.declare(VarInfo { name: flag.clone(), ty: Ty::Bool, frozen: true, fixed: false, lens: vec![] });
        self.declare(VarInfo { name: guard.clone(), ty: Ty::Num, frozen: true, fixed: false, lens: vec![] });
        let set = |v: bool| Stmt::Assign { name: flag.clone(), value: Expr::Bool(v), decl: u32::MAX };
        let mut body: Vec<Stmt> = vec![Stmt::Assign { name: guard.clone(), value: bin(BinOp::Add, var(&guard), num(1)), decl: u32::MAX }];
        let variant = self.rng.weighted(&[4, 2, 2, 2]);
        match variant {
            0 => {
                // retry: cleared at the top, set again right before `next`
                body.push(set(false));
                body.push(Stmt::If {
                    cond: bin(BinOp::Lt, var(&guard), num(rounds)),
                    then_b: Block { stmts: vec![shout(plain("retry")), set(true), Stmt::Continue] },
                    else_b: None,
                });
                body.push(shout(plain("settled")));
            }
            1 => {
                // cleared right before `next`: the condition ends the loop
                body.push(Stmt::If {
                    cond: bin(BinOp::Gt, var(&guard), num(rounds)),
                    then_b: Block { stmts: vec![set(false), Stmt::Continue] },
                    else_b: None,
                });
                body.push(shout(var(&guard)));
            }
            2 => {
                // set at the end of the body only (back edge)
                body.push(set(false));
                body.push(shout(var(&guard)));
                body.push(Stmt::If { cond: bin(BinOp::Lt, var(&guard), num(rounds)), then_b: Block { stmts: vec![set(true)] }, else_b: None });
            }
            _ => {
                // set before `next` inside a nested block, cleared before `comot`
                body.push(set(false));
                body.push(Stmt::If {
                    cond: bin(BinOp::Lt, var(&guard), num(rounds)),
                    then_b: Block { stmts: vec![Stmt::Block(Block { stmts: vec![set(true), Stmt::Continue] })] },
                    else_b: Some(Block { stmts: vec![set(false), shout(plain("out")), Stmt::Break] }),
                });
            }
        }
        let cond = match self.rng.weighted(&[3, 2, 2]) {
            0 => bin(BinOp::And, var(&flag), bin(BinOp::Lt, var(&guard), num(8))),
            1 => bin(BinOp::And, bin(BinOp::Lt, var(&guard), num(8)), var(&flag)),
            _ => bin(BinOp::And, Expr::Un(UnOp::Not, Box::new(Expr::Un(UnOp::Not, Box::new(var(&flag))))), bin(BinOp::Lt, var(&guard), num(8))),
        };
        out.push(Stmt::Loop { cond, body: Block { stmts: body } });
        out.push(shout(var(&guard)));
        out.push(shout(var(&flag)));
    }

    /// Arrays nested three levels deep, mutated in place through receivers with two different
    /// indexes (`cu[0][1].push(x)` must not reach `cu[1][0]`), and read back whole.
    fn cube_idiom(&mut self, out: &mut Vec<Stmt>) {
        self.budget -= 6;
        let cu = self.fresh_name("cu");
        let leaf = |g: &mut Self| Expr::Arr(vec![g.num_lit()]);
        let init = Expr::Arr(vec![Expr::Arr(vec![leaf(self), leaf(self)]), Expr::Arr(vec![leaf(self), leaf(self)])]);
        out.push(Stmt::Make { name: cu.clone(), init: Some(init), decl: u32::MAX });
        self.declare(VarInfo { name: cu.clone(), ty: Ty::arr(Ty::arr(Ty::arr(Ty::Num))), frozen: true, fixed: true, lens: vec![2, 2] });
        let at = |i: i64, j: i64| Expr::Index(Box::new(Expr::Index(Box::new(var(&cu)), Box::new(num(i)))), Box::new(num(j)));
        let mut ops: Vec<Stmt> = Vec::new();
        for _ in 0..self.rng.range(2, 4) {
            let (i, j) = (self.rng.range(0, 1), self.rng.range(0, 1));
            let st = match self.rng.weighted(&[4, 2, 2, 2, 1]) {
                0 => Stmt::Expr(method(at(i, j), "push", vec![self.num_lit()])),
                1 => Stmt::Expr(method(at(i, j), "reverse", vec![])),
                2 => Stmt::AssignIndex { target: Expr::Index(Box::new(at(i, j)), Box::new(num(0))), value: self.num_lit() },
                3 => shout(at(i, j)),
                _ => Stmt::AssignIndex { target: at(i, j), value: Expr::Arr(vec![self.num_lit(), self.num_lit()]) },
            };
            ops.push(st);
        }
        match self.rng.weighted(&[3, 2, 2]) {
            0 => out.extend(ops),
            1 => {
                let f = self.fresh_name("w");
                ops.push(Stmt::Return(Some(num(0))));
                out.push(Stmt::FuncDef(Box::new(FuncDef { name: f.clone(), params: vec![], param_decls: vec![], body: Block { stmts: ops }, id: u32::MAX })));
                out.push(Stmt::Expr(call(&f, vec![])));
            }
            _ => {
                let i = self.fresh_name("i");
                out.push(Stmt::Make { name: i.clone(), init: Some(num(0)), decl: u32::MAX });
                self.declare(VarInfo { name: i.clone(), ty: Ty::Num, frozen: true, fixed: false, lens: vec![] });
                ops.insert(0, Stmt::Assign { name: i.clone(), value: bin(BinOp::Add, var(&i), num(1)), decl: u32::MAX });
                out.push(Stmt::Loop { cond: bin(BinOp::Lt, var(&i), num(self.rng.range(1, 2))), body: Block { stmts: ops } });
            }
        }
        out.push(shout(var(&cu)));
    }

    /// A pure store in the innermost body of 2-4 nested loops that only code after the outermost
    /// loop (or the top of a later outer iteration) reads: liveness has to travel back across
    /// every back edge.
    fn nested_loop_store_idiom(&mut self, out: &mut Vec<Stmt>) {
        self.budget -= 8;
        let last = self.fresh_name("nl");
        let depth = self.rng.range(2, 4) as usize;
        let counters: Vec<String> = (0..depth).map(|_| self.fresh_name("i")).collect();
        out.push(Stmt::Make { name: last.clone(), init: Some(num(0)), decl: u32::MAX });
        self.declare(VarInfo { name: last.clone(), ty: Ty::Num, frozen: true, fixed: false, lens: vec![] });
        // value: a non-self-reading expression of the counters
        let mut value = self.num_lit();
        for c in &counters {
            value = bin(BinOp::Add, bin(BinOp::Times, value, num(10)), var(c));
        }
        let read_at_top = self.rng.chance(1, 3);
        let mut body: Vec<Stmt> = vec![Stmt::Assign { name: last.clone(), value, decl: u32::MAX }];
        for (lvl, c) in counters.iter().enumerate().rev() {
            let mut stmts = vec![Stmt::Assign { name: c.clone(), value: bin(BinOp::Add, var(c), num(1)), decl: u32::MAX }];
            if lvl == 0 && read_at_top {
                stmts.push(shout(var(&last)));
            }
            stmts.extend(body);
            let lp = Stmt::Loop { cond: bin(BinOp::Lt, var(c), num(self.rng.range(1, 2))), body: Block { stmts } };
            body = vec![Stmt::Make { name: c.clone(), init: Some(num(0)), decl: u32::MAX }, lp];
        }
        out.extend(body);
        out.push(shout(var(&last)));
    }

    /// An array of arrays built row by row, in place: rows start empty (a literal, or a copy of an
    /// empty variable) or with one element and grow through the nested receiver `m[r].push(e)`
    /// inside a loop body or a function, i.e. in frames that end before the rows are read.
    fn matrix_idiom(&mut self, out: &mut Vec<Stmt>) {
        self.budget -= 6;
        let is_num = self.rng.chance(1, 2);
        let elem = if is_num { Ty::Num } else { Ty::Str };
        let m = self.fresh_name("mx");
        out.push(Stmt::Make { name: m.clone(), init: Some(Expr::Arr(vec![])), decl: u32::MAX });
        let empty = if self.rng.chance(1, 3) {
            let e = self.fresh_name("em");
            out.push(Stmt::Make { name: e.clone(), init: Some(Expr::Arr(vec![])), decl: u32::MAX });
            self.declare(VarInfo { name: e.clone(), ty: Ty::arr(elem.clone()), frozen: false, fixed: false, lens: vec![] });
            Some(e)
        } else {
            None
        };
        let rows = self.rng.range(1, 3);
        let cols = self.rng.range(1, 9);
        let r = self.fresh_name("i");
        let c = self.fresh_name("i");
        out.push(Stmt::Make { name: r.clone(), init: Some(num(0)), decl: u32::MAX });
        self.declare(VarInfo { name: r.clone(), ty: Ty::Num, frozen: true, fixed: false, lens: vec![] });
        let cell = |g: &mut Self| -> Expr {
            match (is_num, g.rng.weighted(&[3, 2, 1])) {
                (true, 0) => bin(BinOp::Add, bin(BinOp::Times, var(&r), num(10)), var(&c)),
                (true, _) => g.num_lit(),
                (false, 0) => bin(BinOp::Add, g.str_lit(), var(&c)),
                (false, 1) => bin(BinOp::Add, plain("c"), bin(BinOp::Add, var(&r), plain("-"))),
                (false, _) => g.str_lit(),
            }
        };
        let row_init = match (&empty, self.rng.weighted(&[4, 2])) {
            (Some(e), _) => var(e),
            (None, 0) => Expr::Arr(vec![]),
            (None, _) => Expr::Arr(vec![if is_num { self.num_lit() } else { self.str_lit() }]),
        };
        let target = Expr::Index(Box::new(var(&m)), Box::new(bin(BinOp::Minus, var(&r), num(1))));
        let via_fn = self.rng.chance(1, 3);
        let mut body: Vec<Stmt> = vec![
            Stmt::Assign { name: r.clone(), value: bin(BinOp::Add, var(&r), num(1)), decl: u32::MAX },
            Stmt::Expr(method(var(&m), "push", vec![row_init])),
            Stmt::Make { name: c.clone(), init: Some(num(0)), decl: u32::MAX },
        ];
        let push_cell = Stmt::Expr(method(target, "push", vec![cell(self)]));
        let inner: Vec<Stmt> = if via_fn {
            let f = self.fresh_name("w");
            body.push(Stmt::FuncDef(Box::new(FuncDef { name: f.clone(), params: vec![], param_decls: vec![], body: Block { stmts: vec![push_cell] }, id: u32::MAX })));
            vec![Stmt::Expr(call(&f, vec![]))]
        } else {
            vec![push_cell]
        };
        let mut inner_body = vec![Stmt::Assign { name: c.clone(), value: bin(BinOp::Add, var(&c), num(1)), decl: u32::MAX }];
        inner_body.extend(inner);
        body.push(Stmt::Loop { cond: bin(BinOp::Lt, var(&c), num(cols)), body: Block { stmts: inner_body } });
        out.push(Stmt::Loop { cond: bin(BinOp::Lt, var(&r), num(rows)), body: Block { stmts: body } });
        self.declare(VarInfo { name: m.clone(), ty: Ty::arr(Ty::arr(elem.clone())), frozen: false, fixed: false, lens: vec![] });
        // unrelated work that reuses what the frames above gave back, then the rows are read
        let others = self.vars_of(&Ty::arr(elem.clone()));
        if !others.is_empty() && self.rng.chance(1, 2) {
            let t = self.fresh_name("q");
            let src = self.rng.pick(&others).name.clone();
            out.push(Stmt::Make { name: t.clone(), init: Some(var(&src)), decl: u32::MAX });
            self.declare(VarInfo { name: t, ty: Ty::arr(elem), frozen: false, fixed: false, lens: vec![] });
        } else {
            let e = if is_num { self.num_expr(1) } else { self.str_expr(1) };
            out.push(shout(e));
        }
        out.push(shout(var(&m)));
        if let Some(e) = empty {
            out.push(shout(var(&e)));
        }
        if self.rng.chance(1, 2) {
            // receivers chosen by an index expression with a side effect of its own (a work list
            // that is popped): the index is evaluated once per call
            let ord = self.fresh_name("q");
            let picks: Vec<Expr> = (0..4).map(|_| num(self.rng.range(0, rows - 1))).collect();
            out.push(Stmt::Make { name: ord.clone(), init: Some(Expr::Arr(picks)), decl: u32::MAX });
            self.declare(VarInfo { name: ord.clone(), ty: Ty::arr(Ty::Num), frozen: true, fixed: true, lens: vec![0] });
            let pick = |g: &Self| Expr::Index(Box::new(var(&m)), Box::new(method(var(&g_name(&ord)), "pop", vec![])));
            fn g_name(s: &str) -> String { s.to_string() }
            let v1 = if is_num { self.num_lit() } else { self.str_lit() };
            out.push(Stmt::Expr(method(pick(self), "push", vec![v1])));
            out.push(shout(var(&m)));
            out.push(shout(var(&ord)));
            out.push(Stmt::Expr(method(pick(self), "reverse", vec![])));
            let v2 = if is_num { self.num_lit() } else { self.str_lit() };
            out.push(Stmt::AssignIndex { target: Expr::Index(Box::new(pick(self)), Box::new(num(0))), value: v2 });
            out.push(shout(var(&m)));
            out.push(shout(var(&ord)));
        }
    }

    /// Adds one statement; returns true if it ends the block (return / comot / next).
    fn statement(&mut self, out: &mut Vec<Stmt>, top: bool) -> bool {
        self.budget -= 1;
        let in_fn = !self.fn_stack.is_empty();
        let in_loop = self.loop_depth > 0;
        let deep = self.depth >= 3;
        let p = self.profile;
        if self.rng.chance(1, if p == Profile::Dead { 12 } else { 60 }) && self.budget > 6 {
            self.may_write_idiom(out);
            return false;
        }
        if !deep && self.budget > 8 && self.rng.chance(1, if matches!(p, Profile::Array | Profile::Mem) { 20 } else { 70 }) {
            self.matrix_idiom(out);
            return false;
        }
        if !deep && self.budget > 8 && self.rng.chance(1, if p == Profile::Mem { 12 } else { 50 }) {
            self.eval_order_idiom(out);
            return false;
        }
        if !deep && self.budget > 10 && self.rng.chance(1, if matches!(p, Profile::Scope | Profile::Array) { 18 } else { 70 }) {
            self.scope_probe_idiom(out);
            return false;
        }
        if !deep && self.budget > 10 && self.rng.chance(1, if p == Profile::Scope { 18 } else { 90 }) {
            self.fn_scope_probe_idiom(out);
            return false;
        }
        if !deep && self.budget > 8 && self.rng.chance(1, if p == Profile::Mem { 30 } else { 120 }) {
            self.cmd_idiom(out);
            return false;
        }
        if !deep && self.budget > 10 && self.rng.chance(1, if p == Profile::Scope { 25 } else { 100 }) {
            self.type_shadow_idiom(out);
            return false;
        }
        if !deep && self.budget > 10 && self.rng.chance(1, if p == Profile::Dead { 15 } else { 80 }) {
            self.flag_loop_idiom(out);
            return false;
        }
        if !deep && self.budget > 10 && self.rng.chance(1, if p == Profile::Dead { 20 } else { 100 }) {
            self.nested_loop_store_idiom(out);
            return false;
        }
        if !deep && self.budget > 8 && self.rng.chance(1, if p == Profile::Array { 20 } else { 90 }) {
            self.cube_idiom(out);
            return false;
        }
        if p == Profile::Dead && self.rng.chance(1, 14) {
            self.trap_statement(out);
            return false;
        }
        let w: [u32; 12] = [
            /* 0 make      */ 10,
            /* 1 assign    */ if p == Profile::Mem { 12 } else { 7 },
            /* 2 shout     */ 8,
            /* 3 if        */ if deep { 0 } else { 5 },
            /* 4 loop      */ if deep { 0 } else if p == Profile::Mem { 6 } else { 4 },
            /* 5 block     */ if deep { 0 } else if p == Profile::Scope { 4 } else { 1 },
            /* 6 func def  */ if deep { 0 } else if p == Profile::Scope { 5 } else { 3 },
            /* 7 call stmt */ 4,
            /* 8 arr mut   */ if p == Profile::Array { 22 } else { 4 },
            /* 9 return    */ if in_fn && !top { 2 } else { 0 },
            /* 10 comot/next*/ if in_loop { 2 } else { 0 },
            /* 11 arr read */ if p == Profile::Array { 5 } else { 2 },
        ];
        match self.rng.weighted(&w) {
            0 => self.make_stmt(out),
            1 => {
                if !self.assign_stmt(out) {
                    self.make_stmt(out);
                }
            }
            2 => {
                let t = self.random_ty(1);
                let e = self.expr(&t, 0);
                out.push(shout(e));
            }
            3 => {
                let cond = self.bool_expr(0);
                let then_b = self.nested_block(false);
                let else_b = if self.rng.chance(1, 2) { Some(self.nested_block(false)) } else { None };
                out.push(Stmt::If { cond, then_b, else_b });
            }
            4 => self.loop_stmt(out),
            5 => {
                let b = self.nested_block(false);
                out.push(Stmt::Block(b));
            }
            6 => {
                let def = self.func_def();
                out.push(def);
            }
            7 => {
                let cands = self.callable(None);
                if cands.is_empty() {
                    let t = self.random_ty(1);
                    let e = self.expr(&t, 0);
                    out.push(shout(e));
                } else {
                    let f = self.rng.pick(&cands).clone();
                    let c = self.call_expr(&f, 0);
                    if f.ret == Ty::Null || self.rng.chance(1, 3) {
                        out.push(Stmt::Expr(c));
                    } else {
                        out.push(shout(c));
                    }
                }
            }
            8 => {
                if self.array_mutation(out) {
                    if p == Profile::Array {
                        self.dump_arrays(out);
                    }
                } else {
                    self.make_stmt(out);
                }
            }
            9 => {
                let ret = self.fn_stack.last().unwrap().ret.clone();
                if ret == Ty::Null {
                    out.push(Stmt::Return(None));
                } else {
                    let e = self.expr(&ret, 0);
                    out.push(Stmt::Return(Some(e)));
                }
                return true;
            }
            10 => {
                out.push(if self.rng.chance(1, 2) { Stmt::Break } else { Stmt::Continue });
                return true;
            }
            _ => {
                if !self.volatile_read(out) {
                    let t = self.random_ty(1);
                    let e = self.expr(&t, 0);
                    out.push(shout(e));
                }
            }
        }
        false
    }

    /// An operation that can fail at run time, in a position where its value is not used:
    /// pruning it would make the error disappear.
    fn trap_statement(&mut self, out: &mut Vec<Stmt>) {
        let name = self.fresh_name("u");
        let live = self.rng.chance(1, 2);
        let e = match self.rng.weighted(&[3, 3, 3, 2, 4]) {
            0 => {
                // divisor that is zero only sometimes; zero is written in several ways
                let d = if live { Expr::Num((*self.rng.pick(&["0", "0.0", "00.00", "0.000"])).to_string()) } else { num(self.rng.range(0, 1)) };
                bin(*self.rng.pick(&[BinOp::Divide, BinOp::Mod]), self.num_expr(2), d)
            }
            4 => {
                // operator, condition or built-in parameter applied to a parameter whose run-time
                // type may not fit it
                let fname = self.fresh_name("f");
                let pname = self.fresh_name("p");
                let p = var(&pname);
                let body = match self.rng.weighted(&[4, 2, 2, 2, 1]) {
                    0 => {
                        let op = *self.rng.pick(&[BinOp::Minus, BinOp::Times, BinOp::Gt, BinOp::Lt, BinOp::Eq, BinOp::And, BinOp::Or, BinOp::Add]);
                        let other = match op {
                            BinOp::And | BinOp::Or => Expr::Bool(true),
                            _ => num(1),
                        };
                        vec![Stmt::Return(Some(if self.rng.chance(1, 2) { bin(op, p, other) } else { bin(op, other, p) }))]
                    }
                    1 => vec![Stmt::Return(Some(Expr::Un(*self.rng.pick(&[UnOp::Not, UnOp::Neg]), Box::new(p))))],
                    2 => vec![
                        Stmt::If { cond: p, then_b: Block { stmts: vec![Stmt::Return(Some(num(1)))] }, else_b: None },
                        Stmt::Return(Some(num(2))),
                    ],
                    3 => vec![Stmt::Return(Some(method(plain("abc"), "slice", vec![p, num(2)])))],
                    _ => vec![Stmt::Return(Some(method(Expr::Arr(vec![num(1), num(2)]), "join", vec![p])))],
                };
                out.push(Stmt::FuncDef(Box::new(FuncDef { name: fname.clone(), params: vec![pname], param_decls: vec![], body: Block { stmts: body }, id: u32::MAX })));
                let arg = match self.rng.below(4) {
                    0 => self.num_lit(),
                    1 => self.str_lit(),
                    2 => Expr::Bool(true),
                    _ => Expr::Null,
                };
                call(&fname, vec![arg])
            }
            1 => {
                let k = if live { 7 } else { self.rng.range(0, 3) };
                Expr::Index(Box::new(Expr::Arr(vec![num(1), num(2)])), Box::new(num(k)))
            }
            2 => {
                // method that the run-time type of the receiver may not have
                let fname = self.fresh_name("f");
                let pname = self.fresh_name("p");
                let uname = self.fresh_name("u");
                let m = *self.rng.pick(&["len", "abs", "trim", "floor"]);
                out.push(Stmt::FuncDef(Box::new(FuncDef {
                    name: fname.clone(),
                    params: vec![pname.clone()],
                    param_decls: vec![],
                    body: Block {
                        stmts: vec![
                            Stmt::Make { name: uname, init: Some(method(var(&pname), m, vec![])), decl: u32::MAX },
                            Stmt::Return(Some(num(i64::from(self.site())))),
                        ],
                    },
                    id: u32::MAX,
                })));
                let arg = if self.rng.chance(1, 2) { self.num_lit() } else { self.str_lit() };
                call(&fname, vec![arg])
            }
            _ => {
                // non-whole index
                Expr::Index(Box::new(Expr::Arr(vec![num(1), num(2)])), Box::new(Expr::Num("0.5".into())))
            }
        };
        // the declared variable is never read
        out.push(Stmt::Make { name, init: Some(e), decl: u32::MAX });
    }

    fn nested_block(&mut self, dump: bool) -> Block {
        self.scopes.push(Scope::default());
        self.depth += 1;
        let n = self.rng.range(1, 5) as usize;
        let mut stmts = self.block_stmts(n, false);
        if dump || (matches!(self.profile, Profile::Mem | Profile::Scope) && self.rng.chance(1, 2)) {
            let ends = stmts.last().is_some_and(|s| matches!(s, Stmt::Return(_) | Stmt::Break | Stmt::Continue));
            if !ends {
                self.dump_all(&mut stmts);
            }
        }
        self.depth -= 1;
        self.scopes.pop();
        Block { stmts }
    }

    fn loop_stmt(&mut self, out: &mut Vec<Stmt>) {
        let counter = self.fresh_name("i");
        let bound = self.rng.range(1, 4);
        out.push(Stmt::Make { name: counter.clone(), init: Some(num(0)), decl: u32::MAX });
        self.declare(VarInfo { name: counter.clone(), ty: Ty::Num, frozen: true, fixed: false, lens: vec![] });
        self.loop_depth += 1;
        let mut body = self.nested_block(false);
        self.loop_depth -= 1;
        // increment first, so that `next` can never skip it
        body.stmts.insert(
            0,
            Stmt::Assign {
                name: counter.clone(),
                value: bin(BinOp::Add, var(&counter), num(1)),
                decl: u32::MAX,
            },
        );
        // function definitions are hoisted anyway; keep the counter update the first *executed* statement
        out.push(Stmt::Loop { cond: bin(BinOp::Lt, var(&counter), num(bound)), body });
    }

    fn fn_name(&mut self) -> String {
        if self.profile == Profile::Scope && self.rng.chance(1, 3) {
            // inner definitions may shadow outer ones of the same name; never redefine in the same block
            let cand = (*self.rng.pick(&SCOPE_FN_NAMES)).to_string();
            let clash_here = self.scopes.last().unwrap().fns.iter().any(|f| f.name == cand);
            // a shadowing definition must keep the outer one's signature out of reach only for
            // code generated after it; calls generated earlier in this block would bind to it too,
            // so only shadow when this block has produced no call yet (cheap approximation: never
            // shadow a function that is visible right now)
            let visible = self.visible_fns().iter().any(|f| f.name == cand);
            if !clash_here && !visible {
                return cand;
            }
        }
        self.fresh_name("f")
    }

    /// Defines a function in the current scope and returns its definition statement.
    fn func_def(&mut self) -> Stmt {
        let name = self.fn_name();
        let recursive = self.rng.chance(1, 4);
        self.func_def_named(name, recursive, None)
    }

    fn func_def_named(&mut self, name: String, recursive: bool, partner: Option<(String, FnInfo)>) -> Stmt {
        self.budget -= 1;
        let rank = self.next_rank;
        self.next_rank += 1;
        let cmd_w = if matches!(self.profile, Profile::Mem | Profile::Array) { 2 } else { 1 };
        let ret = match self.rng.weighted(&[5, 5, 2, 3, 2, cmd_w]) {
            0 => Ty::Num,
            1 => Ty::Str,
            2 => Ty::Bool,
            3 => Ty::Null,
            5 => Ty::Cmd,
            _ => Ty::arr(if self.rng.chance(1, 2) { Ty::Num } else { Ty::Str }),
        };
        let forced = self.force_sig.take();
        let (ret, mut ptys): (Ty, Vec<Ty>) = match (&partner, forced) {
            (Some((_, info)), _) => (info.ret.clone(), info.params.clone()),
            (None, Some((p, r))) => (r, p),
            (None, None) => {
                let n = self.rng.range(0, 3) as usize;
                let mut ptys = Vec::new();
                for _ in 0..n {
                    let t = match self.rng.weighted(&[5, 5, 1, 3, 1]) {
                        0 => Ty::Num,
                        1 => Ty::Str,
                        2 => Ty::Bool,
                        4 => Ty::Cmd,
                        _ => Ty::arr(if self.rng.chance(1, 2) { Ty::Num } else { Ty::Str }),
                    };
                    ptys.push(t);
                }
                (ret, ptys)
            }
        };
        if recursive && partner.is_none() {
            ptys.insert(0, Ty::Num);
            self.stats.recursive_fns += 1;
        }
        let info = FnInfo { name: name.clone(), params: ptys.clone(), ret: ret.clone(), rank, recursive, captures: Vec::new() };
        // visible throughout the defining block (including its own body, for recursion)
        if !self.scopes.last().unwrap().fns.iter().any(|f| f.name == name) {
            self.scopes.last_mut().unwrap().fns.push(info.clone());
        }

        // parameter scope
        self.scopes.push(Scope::default());
        let mut params = Vec::new();
        for (i, t) in ptys.iter().enumerate() {
            let pname = if i == 0 && recursive { self.fresh_name("m") } else { self.var_name(t) };
            let pname = if params.contains(&pname) { self.fresh_name("p") } else { pname };
            params.push(pname.clone());
            self.declare(VarInfo {
                name: pname,
                ty: t.clone(),
                frozen: i == 0 && recursive,
                fixed: false,
                lens: vec![],
            });
        }
        let rec = if recursive {
            Some((name.clone(), params[0].clone(), self.rng.range(1, 2) as u32))
        } else {
            None
        };
        self.fn_stack.push(FnCtx {
            name: name.clone(),
            ret: ret.clone(),
            rank,
            rec,
            partner: partner.as_ref().map(|(n, _)| n.clone()),
        });
        let saved_loop = self.loop_depth;
        self.loop_depth = 0;

        // body scope
        self.scopes.push(Scope::default());
        self.depth += 1;
        let mut stmts = Vec::new();
        if recursive {
            // the base case must not recurse
            let saved_left = self.fn_stack.last_mut().and_then(|c| c.rec.as_mut().map(|r| std::mem::replace(&mut r.2, 0)));
            let base = if ret == Ty::Null { Stmt::Return(None) } else { Stmt::Return(Some(self.expr(&ret, 2))) };
            if let (Some(l), Some(c)) = (saved_left, self.fn_stack.last_mut())
                && let Some(r) = c.rec.as_mut()
            {
                r.2 = l;
            }
            stmts.push(Stmt::If {
                cond: bin(BinOp::Lt, var(&params[0]), num(1)),
                then_b: Block { stmts: vec![base] },
                else_b: None,
            });
        }
        if self.rng.chance(1, 80) {
            // a wide function: many locals, so that the ids of the enclosing function's later
            // locals lie far beyond its first ones
            let k = self.rng.range(60, 140);
            for _ in 0..k {
                let name = self.fresh_name("w");
                let id = i64::from(self.site());
                stmts.push(Stmt::Make { name: name.clone(), init: Some(num(id)), decl: u32::MAX });
                self.declare(VarInfo { name, ty: Ty::Num, frozen: false, fixed: false, lens: vec![] });
            }
        }
        let n = self.rng.range(1, 5) as usize;
        let body = self.block_stmts(n, false);
        let ended = body.last().is_some_and(|s| matches!(s, Stmt::Return(_)));
        stmts.extend(body);
        if !ended {
            if recursive {
                // make sure the recursive call is actually present
                if let Some(ctx) = self.fn_stack.last_mut()
                    && let Some((_, _, left)) = ctx.rec.as_mut()
                    && *left == 0
                {
                    *left = 1;
                }
            }
            if ret == Ty::Null {
                if recursive && let Some(c) = self.try_call(&Ty::Null, 0) {
                    stmts.push(Stmt::Expr(c));
                }
            } else {
                let e = if recursive {
                    match (&ret, self.try_call(&ret, 0)) {
                        (Ty::Num, Some(c)) => bin(BinOp::Add, self.num_expr(2), c),
                        (Ty::Str, Some(c)) => bin(BinOp::Add, c, self.str_expr(2)),
                        (_, Some(c)) => c,
                        (_, None) => self.expr(&ret, 0),
                    }
                } else {
                    self.expr(&ret, 0)
                };
                stmts.push(Stmt::Return(Some(e)));
            }
        }
        self.depth -= 1;
        self.scopes.pop();
        self.scopes.pop();
        self.fn_stack.pop();
        self.loop_depth = saved_loop;
        // which outer variables does the body mention?
        let mut mentioned = Vec::new();
        mentions_block(&Block { stmts: stmts.clone() }, &mut mentioned);
        let outer: Vec<String> = self.all_vars().into_iter().map(|v| v.name).filter(|n| mentioned.contains(n) && !params.contains(n)).collect();
        for sc in self.scopes.iter_mut().rev() {
            if let Some(f) = sc.fns.iter_mut().find(|f| f.name == name) {
                f.captures = outer;
                break;
            }
        }
        Stmt::FuncDef(Box::new(FuncDef { name, params, param_decls: vec![], body: Block { stmts }, id: u32::MAX }))
    }

    /// Two mutually recursive functions sharing a signature `(budget, ...)`.
    fn mutual_pair(&mut self) -> Vec<Stmt> {
        let a = self.fresh_name("f");
        let b = self.fresh_name("f");
        let ret = if self.rng.chance(1, 2) { Ty::Num } else { Ty::Str };
        let rank_b = self.next_rank + 1;
        let info_b = FnInfo {
            name: b.clone(),
            params: vec![Ty::Num],
            ret: ret.clone(),
            rank: rank_b,
            recursive: true,
            captures: Vec::new(),
        };
        let info_a = FnInfo { name: a.clone(), params: vec![Ty::Num], ret, rank: self.next_rank, recursive: true, captures: Vec::new() };
        // both names are known to the block before either body is generated
        self.scopes.last_mut().unwrap().fns.push(info_a.clone());
        self.scopes.last_mut().unwrap().fns.push(info_b.clone());
        self.stats.recursive_fns += 2;
        let da = self.func_def_named(a.clone(), true, Some((b.clone(), info_b)));
        let db = self.func_def_named(b, true, Some((a, info_a)));
        vec![da, db]
    }
}

fn mentions_block(b: &Block, out: &mut Vec<String>) {
    for s in &b.stmts {
        match s {
            Stmt::Make { init, .. } => {
                if let Some(e) = init {
                    mentions_expr(e, out);
                }
            }
            Stmt::Assign { name, value, .. } => {
                out.push(name.clone());
                mentions_expr(value, out);
            }
            Stmt::AssignIndex { target, value } => {
                mentions_expr(target, out);
                mentions_expr(value, out);
            }
            Stmt::If { cond, then_b, else_b } => {
                mentions_expr(cond, out);
                mentions_block(then_b, out);
                if let Some(eb) = else_b {
                    mentions_block(eb, out);
                }
            }
            Stmt::Loop { cond, body } => {
                mentions_expr(cond, out);
                mentions_block(body, out);
            }
            Stmt::Block(b) => mentions_block(b, out),
            Stmt::FuncDef(f) => mentions_block(&f.body, out),
            Stmt::Return(Some(e)) | Stmt::Expr(e) => mentions_expr(e, out),
            _ => {}
        }
    }
}

fn mentions_expr(e: &Expr, out: &mut Vec<String>) {
    match e {
        Expr::Var { name, .. } => out.push(name.clone()),
        Expr::Str(StrLit::Template { segs, .. }) => {
            for s in segs {
                if let Seg::Var { name, .. } = s {
                    out.push(name.clone());
                }
            }
        }
        Expr::Bin(_, l, r) => {
            mentions_expr(l, out);
            mentions_expr(r, out);
        }
        Expr::Un(_, x) => mentions_expr(x, out),
        Expr::Arr(items) => items.iter().for_each(|i| mentions_expr(i, out)),
        Expr::Index(b, i) => {
            mentions_expr(b, out);
            mentions_expr(i, out);
        }
        Expr::Call { args, .. } => args.iter().for_each(|a| mentions_expr(a, out)),
        Expr::Method { recv, args, .. } => {
            mentions_expr(recv, out);
            args.iter().for_each(|a| mentions_expr(a, out));
        }
        _ => {}
    }
}

/// Renames variable `from` to `to` in statements built by hand (conditions and call arguments only).
fn rename_var_in(stmts: Vec<Stmt>, from: &str, to: &str) -> Vec<Stmt> {
    fn ex(e: Expr, from: &str, to: &str) -> Expr {
        match e {
            Expr::Var { name, decl } if name == from => Expr::Var { name: to.to_string(), decl },
            Expr::Un(op, x) => Expr::Un(op, Box::new(ex(*x, from, to))),
            Expr::Bin(op, l, r) => Expr::Bin(op, Box::new(ex(*l, from, to)), Box::new(ex(*r, from, to))),
            Expr::Call { name, args, func } => Expr::Call { name, args: args.into_iter().map(|a| ex(a, from, to)).collect(), func },
            other => other,
        }
    }
    stmts
        .into_iter()
        .map(|s| match s {
            Stmt::If { cond, then_b, else_b } => Stmt::If { cond: ex(cond, from, to), then_b, else_b },
            Stmt::Expr(e) => Stmt::Expr(ex(e, from, to)),
            other => other,
        })
        .collect()
}
