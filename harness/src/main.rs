//! nsworker: one sub-command per engine. Speaks a line protocol on the original stdout
//! (see util::Proto); fd 1 is redirected to /dev/null because `shout` prints.
#![feature(allocator_api)]
#![allow(dead_code, unused_features)]

mod engines;
mod model;
mod pipeline;
mod util;

use std::collections::HashMap;

pub struct Ctx {
    pub engine: String,
    pub seed: u64,
    pub shard: u64,
    pub nshards: u64,
    pub count: u64,
    pub start: u64,
    pub opts: HashMap<String, String>,
    pub out: util::Proto,
}

impl Ctx {
    pub fn opt(&self, k: &str) -> Option<&str> {
        self.opts.get(k).map(String::as_str)
    }

    pub fn opt_u64(&self, k: &str, default: u64) -> u64 {
        self.opt(k).and_then(|v| v.parse().ok()).unwrap_or(default)
    }

    /// Case indices of this shard.
    pub fn indices(&self) -> impl Iterator<Item = u64> + use<> {
        let (start, count, shard, n) = (self.start, self.count, self.shard, self.nshards.max(1));
        (start..count).filter(move |i| i % n == shard)
    }
}

fn main() {
    let mut args = std::env::args().skip(1);
    let engine = args.next().unwrap_or_else(|| {
        eprintln!("usage: nsworker <engine> [--key value]...");
        std::process::exit(2);
    });
    let mut opts = HashMap::new();
    let rest: Vec<String> = args.collect();
    let mut i = 0;
    while i < rest.len() {
        let k = rest[i].trim_start_matches("--").to_string();
        let v = rest.get(i + 1).cloned().unwrap_or_default();
        opts.insert(k, v);
        i += 2;
    }
    let get = |k: &str, d: u64| opts.get(k).and_then(|v| v.parse::<u64>().ok()).unwrap_or(d);
    let keep_stdout = opts.contains_key("keep-stdout");
    let out = util::Proto::init(opts.get("hashes").map(String::as_str), keep_stdout);
    let mut out = out;
    {
        let mut o = serde_json::Map::new();
        for (k, v) in &opts {
            if !matches!(k.as_str(), "shard" | "nshards" | "count" | "start" | "hashes" | "seed" | "keep-stdout" | "file") {
                o.insert(k.clone(), serde_json::Value::String(v.clone()));
            }
        }
        out.replay_base = serde_json::json!({"engine": engine, "seed": get("seed", 1), "opts": o});
    }
    let mut ctx = Ctx {
        engine: engine.clone(),
        seed: get("seed", 1),
        shard: get("shard", 0),
        nshards: get("nshards", 1),
        count: get("count", 100),
        start: get("start", 0),
        opts,
        out,
    };
    util::install_panic_hook();

    // Run on a big stack: the interpreter's own 4 MiB budget must be what stops deep recursion.
    let handle = std::thread::Builder::new()
        .stack_size(256 << 20)
        .spawn(move || {
            engines::dispatch(&mut ctx);
            ctx.out.finish();
        })
        .expect("spawn");
    if handle.join().is_err() {
        eprintln!("nsworker: engine thread panicked outside a guarded case");
        std::process::exit(101);
    }
}
