//! C07 stage F: coverage-guided search (libFuzzer, ASan) with the same oracle as the `front`
//! engine: lex + parse (+ static check after a clean parse) must return, every diagnostic and
//! label span must be ordered, inside the text and on character boundaries, and the set must render.
#![no_main]

use libfuzzer_sys::fuzz_target;
use naijascript::arena::Arena;
use naijascript::diagnostics::Diagnostics;
use naijascript::resolver::Resolver;
use naijascript::syntax::parser::Parser;
use naijascript::syntax::scanner::Lexer;

fn span_ok(src: &str, s: usize, e: usize) -> bool {
    s <= e && e <= src.len() && src.is_char_boundary(s) && src.is_char_boundary(e)
}

fn check(src: &str, d: &Diagnostics<'_>) {
    for x in &d.diagnostics {
        assert!(span_ok(src, x.span.start, x.span.end), "VERIF bad span {:?} len {} ({})", x.span, src.len(), x.message);
        for l in &x.labels {
            assert!(span_ok(src, l.span.start, l.span.end), "VERIF bad label span {:?} len {} ({})", l.span, src.len(), x.message);
        }
    }
    let rendered = d.render_ansi(src, "input.ns");
    assert!(std::str::from_utf8(rendered.as_bytes()).is_ok(), "VERIF render produced invalid UTF-8");
}

fuzz_target!(|data: &[u8]| {
    let Ok(src) = std::str::from_utf8(data) else { return };
    if src.len() > 1024 {
        return;
    }
    let arena = Arena::new(64 << 20).expect("arena");
    let res_arena = Arena::new(64 << 20).expect("arena");
    let lexer = Lexer::new(src, &arena);
    let mut parser = Parser::new(lexer, &arena);
    let (root, perr) = parser.parse_program();
    check(src, perr);
    if !perr.diagnostics.is_empty() {
        return;
    }
    let mut resolver = Resolver::with_facts_arena(&res_arena, &arena);
    resolver.resolve(root);
    check(src, &resolver.errors);
});
