//! Derives a native copy of the web playground's entry point from /repo/wasm/src/lib.rs.
//! The wasm32 target is not installed in this sandbox, so the file's own text is compiled
//! natively instead: the `cfg(target_family = "wasm")` gate and the wasm_bindgen
//! import/attribute are dropped, `ansi_to_html::convert` is shimmed to the identity.
//! The wiring that runs is therefore the file's own, and a change to it is seen.
use std::{env, fs, path::PathBuf};

fn main() {
    let src_path = "/repo/wasm/src/lib.rs";
    println!("cargo:rerun-if-changed={src_path}");
    let text = fs::read_to_string(src_path).expect("read wasm/src/lib.rs");
    let mut out = String::new();
    out.push_str("// derived from /repo/wasm/src/lib.rs by build.rs - do not edit\n");
    out.push_str("#[allow(unused_imports, dead_code, clippy::all)]\npub mod derived {\n");
    out.push_str("mod ansi_to_html { pub fn convert(s: &str) -> Result<String, ()> { Ok(s.to_string()) } }\n");
    let mut dropped = 0;
    for line in text.lines() {
        let t = line.trim();
        if t == "#![cfg(target_family = \"wasm\")]" || t == "use wasm_bindgen::prelude::*;" || t == "#[wasm_bindgen]" {
            dropped += 1;
            continue;
        }
        out.push_str(line);
        out.push('\n');
    }
    out.push_str("}\n");
    assert!(dropped == 3, "wasm/src/lib.rs no longer has the three wasm-only lines this derivation expects ({dropped} found)");
    let dest = PathBuf::from(env::var("OUT_DIR").unwrap()).join("playground.rs");
    fs::write(dest, out).unwrap();
}
