"""C12 - string pool: exclusive ownership, conservation, class fidelity, fallback, contains (engine `pool`)."""
import json
import os
import subprocess

from . import common
from .common import build, run_engine, finish, log

RULE = (
    "histories of 200-2000 operations (alloc(size), alloc_str, dealloc of a random live buffer, bursts that exhaust a "
    "pool, bursts that release in random order, contains() probes, unrelated arena allocations) on (i) the runtime's "
    "20-class pool set with sizes biased to 0,1,8,9,128,129,160,161,256,257,300,70000 and scripted exhaustion of a "
    "512- or 1024-slot class and (ii) 1-3 small pools (slot size 8-256, 2-64 slots); after every single alloc/dealloc: "
    "returned length >= request, the slot is not live, is the slot the model predicts (top of the LIFO free stack, "
    "else the virgin boundary, else None/arena fallback), no overlap with any live buffer, live/free/bump counters of "
    "every class equal the model's and satisfy live+free+(count-bump)==count, fallback buffers are fresh arena bump "
    "memory outside every slot block, releasing them moves no counter, every live buffer still holds its fill "
    "pattern; contains() is compared with the block geometry for slot starts/interiors/last bytes, one-past-the-block, "
    "free-list storage, fallback buffers, arena, stack, heap addresses. non-trivial = the history exhausts a pool/class, "
    "refills it from the free list after releases, and releases in non-LIFO order; distinct = hash of (geometry, operation list)"
)

ASSUMPTIONS = [
    "the model (per class: live set, LIFO free stack, virgin boundary) and the class table (8-byte spacing up to 128, 32-byte spacing up to 256, counts 16384/4096/1024/512) are written from the documentation in src/arena/pool.rs",
    "the pool is driven through the feature-gated wrappers arena::pool_verif::{VPool, VPoolSet} (thin forwards to the crate-private Pool/PoolSet)",
    "API preconditions are respected: dealloc gets the size that was passed to alloc, only live buffers are released, nothing is written into a slot after its release (debug builds check the 0xDD fill on reuse)",
    "LIFO reuse order and lowest-virgin-first are treated as part of the contract because the documentation states them; a deviation is reported under its own signature (pool|reuse-order, pool|virgin-order)",
    "the backing arena is never reset during a history, so 'fallback memory is never recycled' is checked as: every fallback buffer starts exactly at the arena's previous offset",
]

# Entry for vlib/manifest_gen.py (CHECKS["C12"] = p_c12.MANIFEST).
MANIFEST = dict(
    engine="pool",
    technique="runtime monitoring: random alloc/release interleavings on the string pool against an abstract per-class model (live set, LIFO free stack, virgin boundary); counters read through feature-gated wrappers after every operation; fill patterns re-read; AddressSanitizer with slot poisoning; Miri",
    text="Held on N random histories (200-2000 operations each) on the real 20-class pool set (class-boundary sizes, scripted exhaustion and refill of 512/1024-slot classes) and on small pools of 2-64 slots: every buffer was at least as large as requested, was the slot the model predicted, overlapped no live buffer; live+free+never-used equalled the class capacity and the model's numbers after every single alloc/dealloc (release builds included); released slots returned to their own class; fallback buffers were fresh arena memory outside all slot blocks, their release moved no counter; contains() agreed with the block geometry on slot starts, interiors, last bytes, one-past-the-block, free-list storage, fallback buffers, arena, stack and heap addresses. Exploration, not proof.",
    note="Trusts the per-class model and the class table written from the documentation in pool.rs, and the thin verif wrappers VPool/VPoolSet. Misaligned or foreign pointers passed to dealloc (an API-precondition violation) are not exercised.",
    design="DESIGN.md §4 C12",
)


def run(tier, seed, scale=None):
    from . import props
    n = props.n
    res = common.Result()
    per_build = {}

    def stage(kind, count, sd):
        r = run_engine(build(kind), "pool", count, sd, {}, build_name=kind)
        per_build[kind] = {"histories": r.evaluations, "distinct_nontrivial": r.distinct_nontrivial, "failure_records": len(r.failures),
                           "inconclusive": len(r.inconclusive), "worker_restarts": r.crashes, "wall_s": round(r.wall, 1)}
        res.absorb(r)

    if tier == "quick":
        stage("dbg", n(5000), seed)
        stage("rel", n(5000), seed + 1000003)
    else:
        stage("dbg", n(30000), seed)
        stage("rel", n(120000), seed + 1000003)
        stage("asan", n(10000), seed + 2000003)
    extra = {"per_build": per_build}
    if tier == "thorough" and os.environ.get("VERIF_NO_MIRI") != "1":
        from . import miri
        mres, note = miri.run("pool", n(48), seed + 3000003)
        extra["miri"] = {"note": note, "flags": miri.MIRIFLAGS}
        if mres is not None:
            evals = mres.evaluations
            mres.evaluations = 0  # reported separately: histogram miri.histories
            extra["miri"]["histories"] = evals
            extra["miri"]["wall_s"] = round(mres.wall, 1)
            res.absorb(mres)
        else:
            log(f"[C12] Miri stage skipped: {note}")
    props.triage(res)
    return finish("C12", tier, seed, "exploration", res, RULE, ASSUMPTIONS, min_nontrivial=50, extra_cov=extra)


def replay(path):
    with open(path) as f:
        rec = json.load(f)
    kind = rec.get("build", "dbg")
    if kind not in ("dbg", "rel", "asan"):
        kind = "dbg"
    binary = build(kind)
    env = dict(common.ENV_BASE)
    env["ASAN_OPTIONS"] = common.ASAN_OPTIONS
    p = subprocess.run([binary, "pool", "--replay-file", path, "--keep-stdout", "1"], env=env, cwd=common.VERIF)
    return 1 if p.returncode != 0 else 0
