"""C08 - running out of depth is reported ("Stack overflow" runtime error or an ordinary diagnostic),
never a native crash of the `naija` process, on the default 8 MiB stack, debug and release builds.

Workload: shape x depth x profile.  Every shape is a generator `shape(d) -> source text`.  For every
(shape, profile) pair the depths are a fixed ladder (10, 100, .. 1 000 000, capped by source size and a
per-shape maximum) plus bisections from fixed ends, so depths (and therefore signatures) do not depend on
the seed.  The seed only selects the random two-shape compositions of the thorough tier.

A run that dies on a signal with a native stack overflow / segmentation fault is a failure with signature
    native-crash|<shape id>|<phase>|<profile>          phase in {front-end, run}, profile in {dbg, rel}
The phase is decided per (shape, profile) at the smallest crashing depth found (bisection of the ladder
interval that contains the first crash, 9 steps) with two probes of the same text at the same depth:
  parse  - the text with a syntax error appended (the checker never starts) still crashes;
  check  - otherwise, the text behind a prefix that stops execution in the first statement with an
           ordinary runtime error (`shout(zz0[5])` on a one-element array; parser, checker and analyses
           see the whole program, the runtime never reaches it) still crashes;
  run    - otherwise.
parse and check are both reported as "front-end" in the signature: for several shapes the parser and the
checker overflow within a handful of levels of each other (e.g. nested `do`: 1518 vs 1521 in the debug
build), so the finer attribution flips with any unrelated change of a frame size; it is kept in the
evidence (`crash_phase_detail`, `phase_probe`) and in the failure detail.

Environment overrides (experiments only): NAIJA_BIN (debug binary), NAIJA_BIN_REL (release binary).
"""
import concurrent.futures
import hashlib
import json
import os
import random
import re
import resource
import signal
import subprocess
import sys
import tempfile
import threading
import time

from . import common

PROP = "C08"
WATCHDOG = 120.0
STACK_BYTES = 8 * 1024 * 1024
MAX_SOURCE = 8 * 1000 * 1000
PARALLEL = 8
LADDER = [10, 100, 1000, 10_000, 100_000, 1_000_000]

RULE = (
    "one case = (shape, depth, build profile) run through the real naija binary with RLIMIT_STACK = 8 MiB; the text is "
    "passed as a file argument, and for the shapes named <shape>@stdin / <shape>@eval on standard input / as the --eval argument; "
    "the shapes unb-<position> recurse without bound through one operand position each and can never end normally: exit 0 there means the "
    "guard's error was lost on its way out and is a violation too (guard-error-lost); "
    "endings: ok (exit 0), guard (exit 1 with the runtime 'Stack overflow' diagnostic), diag (exit 1 with another "
    "diagnostic), crash (death by signal with a native stack overflow / SIGSEGV / SIGBUS), resource (allocation "
    "failure abort, SIGKILL), watchdog, panic. Only crash refutes. Non-trivial = the case did not end normally "
    "(a guard, a diagnostic caused by depth, or a crash was reached); distinct = (shape, depth, profile)"
)

ASSUMPTIONS = [
    "a known finding is a (shape, phase, profile) whose crashes start at about the recorded depth; a crash of the same shape at less than 85 % of that depth is reported under its own signature (native-crash-shallower-than-known), so that a change which leaves less stack to the same recursion is not hidden by the finding",
    "RLIMIT_STACK soft limit is set to 8 MiB in the checking process before any child is started (children inherit it); the value is verified through a child and recorded in evidence",
    "children run with a fixed small environment, same-length file names and address-space randomisation disabled (setarch -R), so a given text reaches the same native stack depth in every run and the phase probes can run at exactly the smallest crashing depth; randomisation would move every threshold by a few levels only (measured: +-2 levels at 1518)",
    "an abort with 'memory allocation of N bytes failed' (256 MiB scratch arenas), SIGKILL and the 120 s watchdog are resource outcomes: inconclusive, never violations; a Rust panic (exit 101 in debug, abort in release) is another defect class and is listed as inconclusive with its message",
    "'all depths' is sampled: ladder 10^k plus bisection of the ok/not-ok and of the no-crash/crash transition of every (shape, profile)",
    "the phase in a signature (front-end = parser or static checker/analyses, run = runtime) is the phase at the smallest crashing depth of that (shape, profile); deeper inputs of the same shape may die earlier in the pipeline and are counted under the same signature; which of parser and checker overflows first is evidence only (crash_phase_detail)",
]


# ---------------------------------------------------------------------------
# Shapes
# ---------------------------------------------------------------------------

def _rec(body, call="shout(f({d}))", pre=""):
    """Recursion shape helper: `body` is the text of f; {d} is replaced by the depth."""
    def gen(d):
        return pre.replace("{d}", str(d)) + body + "\n" + call.replace("{d}", str(d)) + "\n"
    return gen


BASE = "    if to say (n na 0) start\n        return 0\n    end\n"

SHAPES = {}


def shape(sid, kind, max_depth=1_000_000, quick=True):
    def deco(fn):
        SHAPES[sid] = {"id": sid, "kind": kind, "gen": fn, "max": max_depth, "quick": quick, "extra": (), "delivery": "file"}
        return fn
    return deco


def add_shape(sid, kind, fn, max_depth=1_000_000, quick=True, never_ok=False, extra=(), delivery="file"):
    """never_ok: the shape recurses until a guard fires at every depth, so depth 10 is not expected to complete.
    extra: depths run in addition to the ladder. delivery: how the text reaches the interpreter (file argument,
    `--eval` argument, or standard input with `-`): the three entry points leave different frames on the stack
    above the runtime's stack anchor."""
    SHAPES[sid] = {"id": sid, "kind": kind, "gen": fn, "max": max_depth, "quick": quick, "never_ok": never_ok,
                   "extra": tuple(extra), "delivery": delivery}


# --- recursion shapes (source size constant; d = requested recursion depth) ------------------

add_shape("rec-direct", "rec", _rec("do f(n) start\n" + BASE + "    return 1 add f(n minus 1)\nend"))
add_shape("rec-direct-stmt", "rec", _rec(
    "do f(n) start\n    if to say (n pass 0) start\n        f(n minus 1)\n    end\nend", call="f({d})\nshout(\"done\")"))
add_shape("rec-unbounded", "rec", lambda d: "do overflow() start\n    overflow()\nend\noverflow()\n" if d > 10 else
          "do overflow() start\n    return 1\nend\noverflow()\n", quick=False)
add_shape("rec-mutual2", "rec", _rec(
    "do f(n) start\n" + BASE + "    return 1 add g(n minus 1)\nend\n"
    "do g(n) start\n" + BASE + "    return 1 add f(n minus 1)\nend"))
add_shape("rec-mutual3", "rec", _rec(
    "do f(n) start\n" + BASE + "    return 1 add g(n minus 1)\nend\n"
    "do g(n) start\n" + BASE + "    return 1 add h(n minus 1)\nend\n"
    "do h(n) start\n" + BASE + "    return 1 add f(n minus 1)\nend"), quick=False)
add_shape("rec-mutual4", "rec", _rec(
    "do f(n) start\n" + BASE + "    return 1 add g(n minus 1)\nend\n"
    "do g(n) start\n" + BASE + "    make t get h(n minus 1)\n    return t\nend\n"
    "do h(n) start\n" + BASE + "    return k(n minus 1) add 1\nend\n"
    "do k(n) start\n" + BASE + "    return f(n minus 1)\nend"))
add_shape("rec-arg", "rec", _rec("do f(n) start\n" + BASE + "    return f(f(n minus 1))\nend"))
add_shape("rec-cond", "rec", _rec(
    "do f(n) start\n" + BASE + "    if to say (f(n minus 1) na 0) start\n        return 0\n    end\n    return 0\nend"))
add_shape("rec-loop-cond", "rec", _rec(
    "do f(n) start\n" + BASE + "    jasi (f(n minus 1) pass 0) start\n        return 1\n    end\n    return 0\nend"), quick=False)
add_shape("rec-index", "rec", _rec(
    "do f(n) start\n" + BASE + "    make a get [0, 0]\n    return a[f(n minus 1)]\nend"))
add_shape("rec-index-assign", "rec", _rec(
    "do f(n) start\n" + BASE + "    make a get [0, 0]\n    a[f(n minus 1)] get 0\n    return a[1]\nend"), quick=False)
add_shape("rec-array-literal", "rec", _rec(
    "do f(n) start\n" + BASE + "    make r get [0, f(n minus 1)]\n    return r[1]\nend"))
add_shape("rec-builtin-to_string", "rec", _rec(
    "do f(n) start\n" + BASE + "    make s get to_string(f(n minus 1))\n    return s.len() minus 1\nend"))
add_shape("rec-builtin-push", "rec", _rec(
    "do f(n) start\n" + BASE + "    make x get []\n    x.push(f(n minus 1))\n    return x[0]\nend"))
add_shape("rec-builtin-slice", "rec", _rec(
    "do f(n) start\n" + BASE + "    make s get \"ab\"\n    make t get s.slice(f(n minus 1), 1)\n    return t.len() minus 1\nend"))
add_shape("rec-builtin-len", "rec", _rec(
    "do f(n) start\n    if to say (n na 0) start\n        return \"\"\n    end\n    make k get f(n minus 1).len()\n    return \"a\".slice(0, k)\nend",
    call="shout(f({d}).len())"))
add_shape("rec-builtin-typeof", "rec", _rec(
    "do f(n) start\n" + BASE + "    make t get typeof(f(n minus 1))\n    return t.len() minus 6\nend"), quick=False)
add_shape("rec-interp", "rec", _rec(
    "do f(n) start\n" + BASE + "    make v get f(n minus 1)\n    make s get \"v={v}\"\n    return s.len() minus 3\nend"))
add_shape("rec-unary", "rec", _rec("do f(n) start\n" + BASE + "    return minus (minus f(n minus 1))\nend"), quick=False)
add_shape("rec-logic", "rec", _rec(
    "do f(n) start\n    if to say (n na 0) start\n        return true\n    end\n    return true and f(n minus 1)\nend"), quick=False)


def _rec_frame(nparams, nlocals):
    def gen(d):
        params = ["n"] + [f"p{i}" for i in range(nparams - 1)] if nparams else []
        out = []
        if nparams == 0:
            out.append(f"make c get {d}\n")
            out.append("do f() start\n    if to say (c na 0) start\n        return 0\n    end\n    c get c minus 1\n")
            seed_expr = "c"
        else:
            out.append("do f(" + ", ".join(params) + ") start\n" + BASE)
            seed_expr = "n"
        for i in range(nlocals):
            out.append(f"    make l{i} get {seed_expr} add {i}\n")
        if nparams == 0:
            call = "f()"
        else:
            call = "f(" + ", ".join(["n minus 1"] + [f"p{i}" for i in range(nparams - 1)]) + ")"
        tail = " add ".join(["1", call] + ([f"l{nlocals - 1} minus l{nlocals - 1}"] if nlocals else []))
        out.append(f"    return {tail}\nend\n")
        if nparams == 0:
            out.append("shout(f())\n")
        else:
            out.append("shout(f(" + ", ".join([str(d)] + [str(i) for i in range(nparams - 1)]) + "))\n")
        return "".join(out)
    return gen


add_shape("rec-params0", "rec", _rec_frame(0, 0))
add_shape("rec-params8", "rec", _rec_frame(8, 0))
add_shape("rec-locals8", "rec", _rec_frame(1, 8), quick=False)
add_shape("rec-locals32", "rec", _rec_frame(1, 32))
add_shape("rec-params8-locals32", "rec", _rec_frame(8, 32), quick=False)

add_shape("rec-nested-stmts", "rec", _rec(
    "do f(n) start\n" + BASE +
    "    make r get 0\n"
    "    start\n"
    "        make i get 0\n"
    "        jasi (i small pass 1) start\n"
    "            if to say (true) start\n"
    "                start\n"
    "                    r get f(n minus 1)\n"
    "                end\n"
    "            end\n"
    "            i get i add 1\n"
    "        end\n"
    "    end\n"
    "    return r add 1\nend"))


# --- syntactic nesting shapes (source size O(d)) -----------------------------------------------

@shape("syn-parens", "syn")
def _(d):
    return "shout(" + "(" * d + "1" + ")" * d + ")\n"


@shape("syn-not", "syn")
def _(d):
    return "shout(" + "not " * (2 * ((d + 1) // 2)) + "true)\n"


@shape("syn-minus", "syn", quick=False)
def _(d):
    return "shout(" + "minus " * (2 * ((d + 1) // 2)) + "1)\n"


@shape("syn-add-left", "syn")
def _(d):
    return "shout(" + "1 add " * d + "1)\n"


@shape("syn-add-right", "syn")
def _(d):
    return "shout(" + "1 add (" * d + "1" + ")" * d + ")\n"


@shape("syn-times-add-mixed", "syn", quick=False)
def _(d):
    return "shout(" + "1 times 1 add " * d + "1)\n"


@shape("syn-and-left", "syn", quick=False)
def _(d):
    return "shout(" + "true and " * d + "true)\n"


@shape("syn-string-add-left", "syn", max_depth=100_000, quick=False)
def _(d):
    return "make s get " + "\"a\" add " * d + "\"a\"\nshout(s.len())\n"


@shape("syn-array-literal", "syn")
def _(d):
    return "make a get " + "[" * d + "0" + "]" * d + "\nshout(a.len())\n"


@shape("syn-index-chain", "syn", max_depth=100_000)
def _(d):
    # the data is built at run time (one level per iteration), so only the index chain nests syntactically
    return ("make a get [7]\nmake i get 1\njasi (i small pass %d) start\n    a get [a]\n    i get i add 1\nend\n" % d
            + "shout(a" + "[0]" * d + ")\n")


@shape("syn-nested-calls", "syn")
def _(d):
    return "do f(x) start\n    return x\nend\nshout(" + "f(" * d + "1" + ")" * d + ")\n"


@shape("syn-member-chain", "syn")
def _(d):
    return "make s get \" a \"\nshout(s" + ".trim()" * d + ")\n"


@shape("syn-builtin-nested", "syn", quick=False)
def _(d):
    return "shout(" + "to_string(" * d + "1" + ")" * d + ")\n"


@shape("syn-blocks", "syn")
def _(d):
    return "start\n" * d + "shout(1)\n" + "end\n" * d


@shape("syn-blocks-leading-def", "syn")
def _(d):
    # every level opens with a function definition (hoisted, evaluates nothing) before the next block;
    # the functions are called on the way out so that there are no warnings
    return "".join(f"start\ndo h{i}() start\nend\n" for i in range(d)) + "shout(1)\n" + "".join(f"h{i}()\nend\n" for i in range(d - 1, -1, -1))


@shape("syn-ifs", "syn")
def _(d):
    return "if to say (true) start\n" * d + "shout(1)\n" + "end\n" * d


@shape("syn-else-chain", "syn", quick=False)
def _(d):
    return "if to say (false) start\nend\nif not so start\n" * d + "shout(1)\n" + "end\n" * d


@shape("syn-loops", "syn")
def _(d):
    return ("make i get 0\n" + "jasi (i small pass 1) start\n" * d + "i get i add 1\n" + "end\n" * d + "shout(i)\n")


@shape("syn-do-nested-called", "syn")
def _(d):
    out = []
    for i in range(d):
        out.append(f"do f{i}() start\n")
    out.append("return 1\n")
    for i in range(d - 1, -1, -1):
        out.append("end\n")
        if i > 0:
            out.append(f"return f{i}()\n")
    out.append("shout(f0())\n")
    return "".join(out)


@shape("syn-do-nested-uncalled", "syn", quick=False)
def _(d):
    return "".join(f"do f{i}() start\n" for i in range(d)) + "return 1\n" + "end\n" * d + "shout(1)\n"


@shape("syn-interp-after-parens", "syn", quick=False)
def _(d):
    return "make v get " + "(" * d + "1" + ")" * d + "\nshout(\"v={v}\")\n"


# --- nested array data built at run time ---------------------------------------------------------

def _data(tail):
    def gen(d):
        return ("make a get [0]\nmake i get 1\njasi (i small pass %d) start\n    a get [a]\n    i get i add 1\nend\n" % d) + tail + "\n"
    return gen


DATA_MAX = 100_000
add_shape("data-build", "data", _data("shout(a.len())"), max_depth=DATA_MAX)
add_shape("data-copy", "data", _data("make b get a\nshout(b.len())"), max_depth=DATA_MAX)
add_shape("data-print", "data", _data("shout(a)"), max_depth=DATA_MAX)
add_shape("data-join", "data", _data("shout(a.join(\",\").len())"), max_depth=DATA_MAX)
# (arrays cannot be compared in this language: `a na b` on arrays is a static type error, so there is no compare shape)
add_shape("data-to_string", "data", _data("shout(to_string(a).len())"), max_depth=DATA_MAX, quick=False)
add_shape("data-interp", "data", _data("make s get \"{a}\"\nshout(s.len())"), max_depth=DATA_MAX, quick=False)
add_shape("data-arg", "data", lambda d: "do g(x) start\n    return x.len()\nend\n" + _data("shout(g(a))")(d), max_depth=DATA_MAX, quick=False)
add_shape("data-return", "data", lambda d: "do g(x) start\n    return x\nend\n" + _data("make b get g(a)\nshout(b.len())")(d), max_depth=DATA_MAX, quick=False)
add_shape("data-push-self", "data", lambda d: (
    "make a get [0]\nmake i get 1\njasi (i small pass %d) start\n    make t get []\n    t.push(a)\n    a get t\n    i get i add 1\nend\nshout(a.len())\n" % d),
    max_depth=DATA_MAX, quick=False)


# the same nesting built by MOVING the inner array (pop() hands it out, push() stores it again) instead of
# copying it: whatever bounds the depth of copied data (each level costs O(depth) arena memory) does not
# bound this route
def _data_move(tail):
    def gen(d):
        return ("make outer get [[]]\nmake i get 0\njasi (i small pass %d) start\n    outer.push([])\n    outer.reverse()\n"
                "    outer[0].push(outer.pop())\n    i get i add 1\nend\n" % d) + tail + "\n"
    return gen


add_shape("data-move-build", "data", _data_move("shout(outer.len())"), max_depth=DATA_MAX)
add_shape("data-move-print", "data", _data_move("shout(outer)"), max_depth=DATA_MAX, quick=False)
add_shape("data-move-copy", "data", _data_move("make b get outer\nshout(b.len())"), max_depth=DATA_MAX, quick=False)

# --- unbounded recursion entered through every kind of operand position: the guard's error has to travel
# --- back out through that position; the program can never end normally
_UNBOUNDED = {
    "or-left": "return f(n add 1) or false",
    "or-right": "return false or f(n add 1)",
    "and-left": "return f(n add 1) and true",
    "and-right": "return true and f(n add 1)",
    "not": "return not f(n add 1)",
    "negate": "return minus f(n add 1)",
    "add-left": "return f(n add 1) add 1",
    "compare-left": "return f(n add 1) pass 1",
    "equal-right": "return 1 na f(n add 1)",
    "array-element": "return [f(n add 1)]",
    "index-base": "return f(n add 1)[0]",
    "index-value": "return [1][f(n add 1)]",
    "argument": "return g(f(n add 1))",
    "builtin-argument": "return to_string(f(n add 1))",
    "method-receiver": "return f(n add 1).len()",
    "method-argument": "return \"abc\".slice(f(n add 1), 2)",
    "if-condition": "if to say (f(n add 1)) start\n        return true\n    end\n    return false",
    "loop-condition": "jasi (f(n add 1)) start\n        return true\n    end\n    return false",
    "declaration": "make v get f(n add 1)\n    return v",
    "index-assignment-value": "make a get [0]\n    a[0] get f(n add 1)\n    return a",
    "push-argument": "make a get []\n    a.push(f(n add 1))\n    return a",
}
for _pos, _body in _UNBOUNDED.items():
    _quick = _pos in ("or-left", "and-left", "not", "if-condition", "argument", "method-receiver")
    add_shape(f"unb-{_pos}", "rec",
              (lambda body: (lambda d: "do g(x) start\n    return x\nend\ndo f(n) start\n    " + body + "\nend\nshout(f(0))\nshout(\"done\")\n"))(_body),
              max_depth=10, quick=_quick, never_ok=True)

# --- a stretch of depth d that evaluates no expression (so it is never probed), entered at every level of a
# --- recursion that runs until the guard fires: the stretch starts anywhere below the 4 MiB budget -------

def _under_recursion(setup, action):
    def gen(d):
        return (setup(d) + "do f(n) start\n" + BASE + "    " + action + "\n    return 1 add f(n minus 1)\nend\nshout(f(100000))\n")
    return gen


def _build_data(d):
    return "make a get [0]\nmake i get 1\njasi (i small pass %d) start\n    a get [a]\n    i get i add 1\nend\n" % d


add_shape("mix-empty-blocks-under-recursion", "mix",
          _under_recursion(lambda d: "do g() start\n" + "start\n" * d + "end\n" * d + "end\n", "g()"), never_ok=True)
# the data walkers (display, copy, promotion) recurse without a probe and live on the headroom between the
# budget and the 8 MiB stack: the deepest data the arena can hold (a few thousand levels) is the worst case,
# so those depths are run on purpose rather than left to where a bisection happens to land
DATA_UNDER_REC_EXTRA = (2000, 2400, 2800, 3000, 3100, 3200, 3300, 3400, 3500, 3600)
add_shape("mix-data-copy-under-recursion", "mix", _under_recursion(_build_data, "make b get a"), max_depth=10_000, quick=True, never_ok=True,
          extra=DATA_UNDER_REC_EXTRA)
add_shape("mix-data-print-under-recursion", "mix", _under_recursion(_build_data, "shout(a)"), max_depth=10_000, quick=True, never_ok=True,
          extra=DATA_UNDER_REC_EXTRA)
add_shape("mix-data-to_string-under-recursion", "mix", _under_recursion(_build_data, "make s get to_string(a)"), max_depth=10_000, quick=False, never_ok=True,
          extra=DATA_UNDER_REC_EXTRA)

# the same recursion routes entered through the other two entry points of the command-line interpreter
for _sid, _quick in (("rec-direct", True), ("rec-direct-stmt", False), ("rec-mutual2", False), ("rec-locals32", True),
                     ("rec-builtin-to_string", False), ("rec-nested-stmts", False), ("rec-params8", False)):
    for _dl in ("stdin", "eval"):
        _b = SHAPES[_sid]
        add_shape(f"{_sid}@{_dl}", "rec", _b["gen"], max_depth=_b["max"], quick=_quick, delivery=_dl)


# --- compositions (thorough): a recursion route whose recursive call sits inside k levels of another shape ----

WRAP_EXPR = {
    "parens": lambda e, k: "(" * k + e + ")" * k,
    "minus": lambda e, k: "minus " * (2 * ((k + 1) // 2)) + e,
    "add-right": lambda e, k: "0 add (" * k + e + ")" * k,
    "add-left": lambda e, k: e + " add 0" * k,
    "array-index": lambda e, k: "[" * max(1, k // 2) + e + "]" * max(1, k // 2) + "[0]" * max(1, k // 2),   # k levels in total
    "id-calls": lambda e, k: "id(" * k + e + ")" * k,
}
WRAP_STMT = {
    "blocks": lambda s, k: "start\n" * k + s + "\n" + "end\n" * k,
    "ifs": lambda s, k: "if to say (true) start\n" * k + s + "\n" + "end\n" * k,
    "loops": lambda s, k: "".join(f"make j{i} get 0\njasi (j{i} small pass 1) start\nj{i} get j{i} add 1\n" for i in range(k)) + s + "\n" + "end\n" * k,
}


MIX_LOG10_MAX = 3.0          # k up to 1000 levels of the wrapping shape per recursion level: below every
                             # front-end threshold of the syn-* shapes, which cover deeper nesting on their own
MIX_GRID = [1, 3, 10, 30, 100, 200, 300, 450, 600, 700, 800, 900, 1000]


def compose(wrap_kind, wrap_id, k):
    if wrap_kind == "expr":
        w = WRAP_EXPR[wrap_id]

        def gen(d):
            return ("do id(x) start\n    return x\nend\n"
                    "do f(n) start\n" + BASE + "    return " + w("f(n minus 1)", k) + "\nend\n" + f"shout(f({d}))\n")
    else:
        w = WRAP_STMT[wrap_id]

        def gen(d):
            return ("do f(n) start\n" + BASE + "    make r get 0\n" + w("r get f(n minus 1)", k) + "    return r\nend\n" + f"shout(f({d}))\n")
    return {"id": f"mix-rec-in-{wrap_id}-{k}", "sig_id": f"mix-rec-in-{wrap_id}", "kind": "mix", "gen": gen, "max": 1_000_000, "quick": False, "k": k}


# ---------------------------------------------------------------------------
# Running one case
# ---------------------------------------------------------------------------

CHILD_ENV = {"PATH": "/usr/bin:/bin", "HOME": "/tmp", "LANG": "C.UTF-8", "RUST_BACKTRACE": "0"}

# Children run with address-space randomisation switched off (when `setarch -R` works here), and every
# source file name has the same length, so the same text reaches exactly the same native stack depth in
# every run: thresholds, and with them phases and signatures, are reproducible to the level.
NO_ASLR = []
_counter_lock = threading.Lock()
_counter = [0]


def detect_no_aslr():
    import platform
    for exe in ("/usr/bin/setarch", "/bin/setarch"):
        if os.path.exists(exe):
            argv = [exe, platform.machine(), "-R"]
            try:
                p = subprocess.run(argv + ["/bin/true"], stdout=subprocess.DEVNULL, stderr=subprocess.DEVNULL, env=CHILD_ENV)
            except OSError:
                continue
            if p.returncode == 0:
                NO_ASLR[:] = argv
                return True
    NO_ASLR[:] = []
    return False


PARSE_PROBE_SUFFIX = "\n)\n"
NORUN_PREFIX = "make zz0 get [1]\nshout(zz0[5])\n"


def classify(rc, out_tail, err_tail, timed_out):
    """-> (ending, note)"""
    if timed_out:
        return "watchdog", ""
    if rc == 0:
        return "ok", ""
    if rc is not None and rc < 0:
        sig = -rc
        try:
            name = signal.Signals(sig).name
        except ValueError:
            name = f"SIG{sig}"
        if "has overflowed its stack" in err_tail:
            return "crash", f"{name}: native stack overflow"
        if "memory allocation of" in err_tail and "failed" in err_tail:
            return "resource", "allocation failure abort"
        if "panicked at" in err_tail:
            return "panic", _panic_line(err_tail)
        if sig == signal.SIGKILL:
            return "resource", "SIGKILL"
        return "crash", name
    if rc == 101 and "panicked at" in err_tail:
        return "panic", _panic_line(err_tail)
    if "Stack overflow" in out_tail or "Stack overflow" in err_tail:
        return "guard", ""
    head = ""
    for line in (out_tail + "\n" + err_tail).splitlines():
        plain = _strip_ansi(line)
        if plain.startswith("error"):
            head = plain[:100]
            break
    return "diag", head or f"exit {rc}"


def _strip_ansi(s):
    out = []
    i = 0
    while i < len(s):
        if s[i] == "\x1b":
            j = s.find("m", i)
            if j < 0:
                break
            i = j + 1
        else:
            out.append(s[i])
            i += 1
    return "".join(out)


def _panic_line(text):
    lines = text.splitlines()
    for i, line in enumerate(lines):
        if "panicked at" in line:
            nxt = lines[i + 1].strip() if i + 1 < len(lines) else ""
            return (line.strip() + " " + nxt)[:240]
    return ""


def run_source(binary, src, workdir, tag=None, delivery="file"):
    with _counter_lock:
        _counter[0] += 1
        n = _counter[0]
    path = os.path.join(workdir, f"c{n:07d}.ns")
    with open(path, "w") as f:
        f.write(src)
    out_path = path + ".out"
    err_path = path + ".err"
    t0 = time.time()
    timed_out = False
    with open(out_path, "wb") as fo, open(err_path, "wb") as fe, open(path, "rb") as fi:
        if delivery == "stdin":
            argv, stdin = [binary, "-"], fi
        elif delivery == "eval":
            argv, stdin = [binary, "--eval", src], subprocess.DEVNULL
        else:
            argv, stdin = [binary, path], subprocess.DEVNULL
        p = subprocess.Popen(NO_ASLR + argv, stdin=stdin, stdout=fo, stderr=fe, env=CHILD_ENV)
        try:
            rc = p.wait(timeout=WATCHDOG)
        except subprocess.TimeoutExpired:
            timed_out = True
            p.kill()
            rc = p.wait()
    secs = time.time() - t0

    def tail(pth, n):
        with open(pth, "rb") as f:
            f.seek(0, 2)
            size = f.tell()
            f.seek(max(0, size - n))
            return f.read().decode("utf-8", "replace")
    # diagnostics are printed on stdout and quote a source line: look at head and tail
    with open(out_path, "rb") as f:
        out_head = f.read(3000).decode("utf-8", "replace")
    out_tail = out_head + "\n" + tail(out_path, 3000)
    err_tail = tail(err_path, 3000)
    for pth in (path, out_path, err_path):
        try:
            os.unlink(pth)
        except OSError:
            pass
    ending, note = classify(rc, out_tail, err_tail, timed_out)
    return {"ending": ending, "note": note, "rc": rc, "secs": round(secs, 2)}


class Pair:
    """All runs of one (shape, profile)."""

    def __init__(self, sh, profile, binary, workdir, steps_ok, steps_crash):
        self.sh = sh
        self.profile = profile
        self.binary = binary
        self.workdir = workdir
        self.steps_ok = steps_ok
        self.steps_crash = steps_crash
        self.runs = {}          # depth -> result
        self.skipped = []       # depths skipped for source size
        self.phase = None           # front-end | run   (signature)
        self.phase_detail = None    # parse | check | run
        self.phase_probe = None

    def run_depth(self, d):
        if d in self.runs:
            return self.runs[d]
        src = self.sh["gen"](d)
        if len(src) > MAX_SOURCE:
            self.skipped.append(d)
            return None
        r = run_source(self.binary, src, self.workdir, delivery=self.sh.get("delivery", "file"))
        r["depth"] = d
        r["source_bytes"] = len(src)
        self.runs[d] = r
        return r

    def bisect(self, lo, hi, pred, steps):
        """pred(result) is False at lo and True at hi; narrows with at most `steps` runs."""
        for _ in range(steps):
            if hi - lo <= 1:
                break
            mid = (lo + hi) // 2
            r = self.run_depth(mid)
            if r is None:
                break
            if pred(r):
                hi = mid
            else:
                lo = mid
        return lo, hi

    def execute(self):
        for d in LADDER:
            if d > self.sh["max"]:
                break
            r = self.run_depth(d)
            if r is None:
                break
            if r["ending"] == "watchdog":
                break       # deeper inputs only cost more
        for d in self.sh.get("extra", ()):
            if d <= self.sh["max"]:
                self.run_depth(d)
        # transition "no crash -> crash" first, from ladder points only, so that the smallest crashing depth
        # (and the phase decided there) is the same in both tiers
        depths = sorted(self.runs)
        crashing = [d for d in depths if self.runs[d]["ending"] == "crash"]
        if crashing:
            hi = crashing[0]
            lo_c = [d for d in depths if d < hi]
            if lo_c:
                self.bisect(lo_c[-1], hi, lambda r: r["ending"] == "crash", self.steps_crash)
            self.decide_phase()
        # transition "ending of the smallest depth (normally ok) -> anything else"
        depths = sorted(self.runs)
        if depths:
            base = self.runs[depths[0]]["ending"]
            other = [d for d in depths if self.runs[d]["ending"] != base]
            if other:
                hi = other[0]
                lo_c = [d for d in depths if d < hi]
                if lo_c:
                    self.bisect(lo_c[-1], hi, lambda r: r["ending"] != base, self.steps_ok)
        if self.phase is None and any(r["ending"] == "crash" for r in self.runs.values()):
            self.decide_phase()     # a crash first met while narrowing the second transition

    def decide_phase(self):
        c = min(d for d, r in self.runs.items() if r["ending"] == "crash")
        # without randomisation the probes reach the same stack depth as the crashing run itself; otherwise
        # probe 2 % deeper to be clear of the jitter
        probe = c if NO_ASLR else c + max(10, c // 50)
        src = self.sh["gen"](probe)
        dl = self.sh.get("delivery", "file")
        rp = run_source(self.binary, src + PARSE_PROBE_SUFFIX, self.workdir, delivery=dl)
        info = {"at_depth": probe, "with_syntax_error_appended": rp["ending"]}
        if rp["ending"] == "crash":
            self.phase_detail = "parse"
        else:
            rn = run_source(self.binary, NORUN_PREFIX + src, self.workdir, delivery=dl)
            info["behind_failing_first_statement"] = rn["ending"]
            self.phase_detail = "check" if rn["ending"] == "crash" else "run"
        self.phase = "run" if self.phase_detail == "run" else "front-end"
        self.phase_probe = info

    # -- summaries ---------------------------------------------------------
    def summary(self):
        depths = sorted(self.runs)
        oks = [d for d in depths if self.runs[d]["ending"] == "ok"]
        not_ok = [d for d in depths if self.runs[d]["ending"] != "ok"]
        crashing = [d for d in depths if self.runs[d]["ending"] == "crash"]
        first_bad = not_ok[0] if not_ok else None
        largest_ok = max([d for d in oks if first_bad is None or d < first_bad], default=None)
        above = {}
        for d in not_ok:
            e = self.runs[d]["ending"]
            above.setdefault(e, [d, d])
            above[e][0] = min(above[e][0], d)
            above[e][1] = max(above[e][1], d)
        row = {
            "shape": self.sh["id"], "profile": self.profile,
            "largest_depth_completed": largest_ok,
            "smallest_depth_not_ok": first_bad,
            "ending_there": self.runs[first_bad]["ending"] if first_bad is not None else None,
            "endings_above": {e: {"from": v[0], "to": v[1]} for e, v in above.items()},
            "depths_run": len(depths),
            "seconds": round(sum(self.runs[d]["secs"] for d in depths), 1),
            "max_depth_run": depths[-1] if depths else None,
        }
        if crashing:
            c = crashing[0]
            row["smallest_crashing_depth"] = c
            row["largest_depth_without_crash_below_it"] = max([d for d in depths if d < c], default=None)
            row["crash_phase"] = self.phase
            row["crash_phase_detail"] = self.phase_detail
            row["phase_probe"] = self.phase_probe
        if self.skipped:
            row["skipped_for_source_size"] = self.skipped
        notes = sorted({self.runs[d]["note"] for d in not_ok if self.runs[d]["note"] and self.runs[d]["ending"] in ("diag", "panic", "resource")})
        if notes:
            row["notes"] = notes[:3]
        return row


def profile_of(build):
    return "dbg" if build == "cli-dbg" else "rel"


# ---------------------------------------------------------------------------

def set_stack_limit():
    soft, hard = resource.getrlimit(resource.RLIMIT_STACK)
    if hard != resource.RLIM_INFINITY and hard < STACK_BYTES:
        return False, f"hard RLIMIT_STACK is {hard} < 8 MiB"
    resource.setrlimit(resource.RLIMIT_STACK, (STACK_BYTES, hard))
    try:
        out = subprocess.run(["/bin/sh", "-c", "ulimit -s"], stdout=subprocess.PIPE, text=True, env=CHILD_ENV).stdout.strip()
    except OSError:
        out = "?"
    return out == "8192", f"child reports ulimit -s = {out} KiB"


def select_shapes(tier, seed):
    shapes = [s for s in SHAPES.values() if tier == "thorough" or s["quick"]]
    if tier == "thorough":
        rng = random.Random(int.from_bytes(hashlib.sha256(f"{seed}|C08|mix".encode()).digest()[:8], "big"))
        combos = [("expr", w) for w in WRAP_EXPR] + [("stmt", w) for w in WRAP_STMT]
        if os.environ.get("C08_ALL_MIX"):
            # enumeration aid: every wrapper on a grid of k
            for kind, wid in combos:
                for k in MIX_GRID:
                    shapes.append(compose(kind, wid, k))
        else:
            seen = set()
            while len(seen) < 12:
                kind, wid = rng.choice(combos)
                k = int(round(10 ** rng.uniform(0, MIX_LOG10_MAX)))
                if (wid, k) in seen:
                    continue
                seen.add((wid, k))
                shapes.append(compose(kind, wid, k))
    return shapes


KNOWN_DEPTH = {}


def load_known_depths():
    """signature -> smallest crashing depth recorded in known_findings.json (from its description)."""
    KNOWN_DEPTH.clear()
    for f in common.load_findings():
        if f.get("property") == PROP and f.get("status") == "known":
            m = re.search(r"smallest crashing depth measured (\d+)", f.get("what", ""))
            if m:
                KNOWN_DEPTH[f["signature"]] = int(m.group(1))


def run(tier, seed):
    t0 = time.time()
    load_known_depths()
    res = common.Result()
    ok_limit, limit_note = set_stack_limit()
    res.extra["stack_limit"] = limit_note
    res.extra["address_space_randomisation"] = "disabled for children (setarch -R)" if detect_no_aslr() else "enabled (setarch -R unavailable): phase probes run 2 % above the smallest crashing depth"
    override = os.environ.get("NAIJA_BIN")
    override_rel = os.environ.get("NAIJA_BIN_REL", override)
    bins = {}
    for b in ("cli-dbg", "cli-rel"):
        ov = override if b == "cli-dbg" else override_rel
        bins[b] = ov if ov else common.build(b)
    res.builds = ["cli-dbg", "cli-rel"]
    if override:
        res.extra["binary_override"] = {"cli-dbg": override, "cli-rel": override_rel}
    if not ok_limit:
        res.inconclusive.append({"idx": -1, "why": "could not establish the 8 MiB stack limit", "detail": {"note": limit_note}})
        res.wall = time.time() - t0
        return common.finish(PROP, tier, seed, "exploration", res, RULE, ASSUMPTIONS, min_nontrivial=10)

    shapes = select_shapes(tier, seed)
    only = os.environ.get("C08_ONLY")
    if only:
        shapes = [s for s in shapes if any(s["id"].startswith(x) for x in only.split(","))]
    steps_ok, steps_crash = (3, 9) if tier == "quick" else (9, 9)
    workdir = tempfile.mkdtemp(prefix="c08-", dir=os.path.join(common.VERIF, "run") if os.path.isdir(os.path.join(common.VERIF, "run")) else None)
    pairs = []
    for sh in shapes:
        for b in ("cli-dbg", "cli-rel"):
            pairs.append(Pair(sh, profile_of(b), bins[b], workdir, steps_ok, steps_crash))
    # slow kinds first so the pool drains evenly
    order = {"data": 0, "syn": 1, "mix": 2, "rec": 3}
    pairs.sort(key=lambda p: (order.get(p.sh["kind"], 9), p.sh["id"], p.profile))

    def job(pair):
        try:
            pair.execute()
            return None
        except Exception as e:  # generator or runner bug: never a verdict
            return f"{type(e).__name__}: {e}"

    errors = {}
    with concurrent.futures.ThreadPoolExecutor(max_workers=PARALLEL) as ex:
        for pair, err in zip(pairs, ex.map(job, pairs)):
            if err:
                errors[(pair.sh["id"], pair.profile)] = err

    hist = {}

    def bump(k, n=1):
        hist[k] = hist.get(k, 0) + n

    distinct = set()
    table = []
    samples = []
    idx = 0
    for pair in sorted(pairs, key=lambda p: (p.sh["id"], p.profile)):
        sid = pair.sh["id"]
        if (sid, pair.profile) in errors:
            res.inconclusive.append({"idx": -1, "why": "harness error", "detail": {"shape": sid, "profile": pair.profile, "error": errors[(sid, pair.profile)]}})
        r10 = pair.runs.get(10)
        if r10 is not None and r10["ending"] != "ok" and not pair.sh.get("never_ok"):
            res.inconclusive.append({"idx": -1, "why": "generator sanity: depth 10 does not complete normally", "detail": {"shape": sid, "profile": pair.profile, "ending": r10["ending"], "note": r10["note"]}})
        for d in sorted(pair.runs):
            r = pair.runs[d]
            idx += 1
            res.evaluations += 1
            bump(f"ending:{r['ending']}")
            bump(f"kind:{pair.sh['kind']}")
            bump(f"profile:{pair.profile}")
            bump(f"{pair.sh['kind']}:{r['ending']}:{pair.profile}")
            if r["ending"] != "ok":
                res.nontrivial_raw += 1
                distinct.add((sid, d, pair.profile))
            if r["ending"] == "crash":
                sig = f"native-crash|{pair.sh.get('sig_id', sid)}|{pair.phase}|{pair.profile}"
                known_from = KNOWN_DEPTH.get(sig)
                if known_from and d < 0.85 * known_from:
                    # a known finding says "crashes from about depth N on"; an input well below N that
                    # crashes is not that finding (e.g. less stack available than before)
                    sig = "native-crash-shallower-than-known" + sig[len("native-crash"):]
                res.failures.append({
                    "idx": idx, "sig": sig, "build": "cli-" + pair.profile,
                    "detail": {"shape": sid, "depth": d, "profile": pair.profile, "phase": pair.phase, "phase_detail": pair.phase_detail, "death": r["note"],
                               "phase_probe": pair.phase_probe, "source_bytes": r["source_bytes"]},
                    "replay": {"module": "vlib.p_c08", "shape": sid, "depth": d, "profile": pair.profile,
                               "how": f"python3 -m vlib.p_c08 {sid} {d} > /tmp/x.ns; ulimit -s 8192; " + {"stdin": "naija - < /tmp/x.ns", "eval": "naija --eval \"$(cat /tmp/x.ns)\""}.get(pair.sh.get("delivery", "file"), "naija /tmp/x.ns")},
                })
            elif r["ending"] == "ok" and pair.sh.get("never_ok") and pair.sh["id"].startswith("unb-"):
                # unbounded recursion cannot complete: the guard's error was lost on its way out
                sig = f"guard-error-lost|{sid}|{pair.profile}"
                res.failures.append({
                    "idx": idx, "sig": sig, "build": "cli-" + pair.profile,
                    "detail": {"shape": sid, "depth": d, "profile": pair.profile, "ending": "the program ended normally (exit 0)"},
                    "replay": {"module": "vlib.p_c08", "shape": sid, "depth": d, "profile": pair.profile,
                               "how": f"python3 -m vlib.p_c08 {sid} {d} > /tmp/x.ns; ulimit -s 8192; naija /tmp/x.ns"},
                })
            elif r["ending"] in ("watchdog", "resource", "panic"):
                res.inconclusive.append({"idx": idx, "why": r["ending"] + (": " + r["note"] if r["note"] else ""),
                                         "detail": {"shape": sid, "depth": d, "profile": pair.profile, "secs": r["secs"]}})
        if pair.phase_probe:
            res.evaluations += len(pair.phase_probe) - 1
            bump("phase-probe-runs", len(pair.phase_probe) - 1)
        row = pair.summary()
        table.append(row)
    # samples: a few written-out cases
    want = [("rec-direct", "dbg"), ("rec-direct", "rel"), ("syn-parens", "dbg"), ("syn-add-left", "rel"), ("data-print", "rel"), ("syn-blocks", "dbg")]
    by = {(p.sh["id"], p.profile): p for p in pairs}
    for key in want:
        p = by.get(key)
        if not p or not p.runs:
            continue
        src = p.sh["gen"](3)
        samples.append({
            "shape": key[0], "profile": key[1], "source_at_depth_3": src if len(src) < 700 else src[:700] + "...",
            "runs": [{"depth": d, "ending": p.runs[d]["ending"], "secs": p.runs[d]["secs"]} for d in sorted(p.runs)],
            "crash_phase": p.phase, "crash_phase_detail": p.phase_detail,
        })
    if not samples:
        for p in pairs[:4]:
            if p.runs:
                samples.append({"shape": p.sh["id"], "profile": p.profile,
                                "runs": [{"depth": d, "ending": p.runs[d]["ending"]} for d in sorted(p.runs)]})
    try:
        os.rmdir(workdir)
    except OSError:
        pass
    res.distinct_nontrivial = len(distinct)
    res.histogram = hist
    res.samples = samples
    res.extra["transition_table"] = table
    res.extra["shapes"] = len(shapes)
    res.extra["shape_ids"] = [s["id"] for s in shapes]
    res.wall = time.time() - t0
    props = sys.modules.get("vlib.props")
    if getattr(props, "TRIAGE", False):
        for row in table:
            print(row)
    return common.finish(PROP, tier, seed, "exploration", res, RULE, ASSUMPTIONS, min_nontrivial=10)


def _shape_by_id(sid):
    if sid.startswith("mix-rec-in-"):
        wid, k = sid[len("mix-rec-in-"):].rsplit("-", 1)
        return compose("expr" if wid in WRAP_EXPR else "stmt", wid, int(k))
    return SHAPES[sid]


def replay(path):
    """Re-runs one recorded case (shape, depth, profile) and reports how it ends now."""
    with open(path) as f:
        rec = json.load(f)
    rp = rec.get("replay", {})
    sid, d, profile = rp["shape"], int(rp["depth"]), rp.get("profile", "dbg")
    sh = _shape_by_id(sid)
    ok_limit, note = set_stack_limit()
    detect_no_aslr()
    binary = common.build("cli-dbg" if profile == "dbg" else "cli-rel")
    os.makedirs(os.path.join(common.VERIF, "run"), exist_ok=True)
    workdir = tempfile.mkdtemp(prefix="c08-replay-", dir=os.path.join(common.VERIF, "run"))
    try:
        r = run_source(binary, sh["gen"](d), workdir, delivery=sh.get("delivery", "file"))
    finally:
        try:
            os.rmdir(workdir)
        except OSError:
            pass
    print(f"shape={sid} depth={d} profile={profile} stack: {note}; ending now: {r['ending']} {r['note']}")
    lost = rec.get("signature", "").startswith("guard-error-lost") and r["ending"] == "ok"
    if r["ending"] == "crash" or lost:
        print(f"VIOLATION property={PROP} replay={path}")
        return 1
    print("the recorded case no longer fails" if r["ending"] in ("ok", "guard", "diag") else f"inconclusive: {r['ending']}")
    return 0


if __name__ == "__main__":
    # python3 -m vlib.p_c08 <shape id> <depth>   prints the source text of one case
    sid, d = sys.argv[1], int(sys.argv[2])
    if sid.startswith("mix-rec-in-"):
        wid, k = sid[len("mix-rec-in-"):].rsplit("-", 1)
        sh = compose("expr" if wid in WRAP_EXPR else "stmt", wid, int(k))
    else:
        sh = SHAPES[sid]
    sys.stdout.write(sh["gen"](d))
