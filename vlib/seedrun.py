#!/usr/bin/env python3
"""Runs checks against one seeded change:  python3 vlib/seedrun.py <patch.diff> <Cxx> [<Cyy> ...] [--tier quick]

Applies the patch to /repo (git apply), runs `./check <prop>` for each property, prints exit
code and violation signatures, and ALWAYS restores /repo afterwards (git checkout + removal of
files the patch added). Never commits anything in /repo."""
import json
import os
import subprocess
import sys
import time

VERIF = os.path.dirname(os.path.dirname(os.path.abspath(__file__)))


def sh(cmd, **kw):
    return subprocess.run(cmd, text=True, stdout=subprocess.PIPE, stderr=subprocess.STDOUT, **kw)


def main():
    args = [a for a in sys.argv[1:] if not a.startswith("--")]
    tier = "quick"
    if "--tier" in sys.argv:
        tier = sys.argv[sys.argv.index("--tier") + 1]
        args = [a for a in args if a != tier]
    patch, props = os.path.abspath(args[0]), args[1:]
    st = sh(["git", "-C", "/repo", "status", "--porcelain"]).stdout.strip()
    if st:
        print("refusing: /repo has uncommitted changes:\n" + st)
        return 2
    r = sh(["git", "-C", "/repo", "apply", "--whitespace=nowarn", patch])
    if r.returncode != 0:
        print("patch does not apply:\n" + r.stdout)
        return 2
    added = sh(["git", "-C", "/repo", "ls-files", "--others", "--exclude-standard"]).stdout.split()
    results = {}
    try:
        for p in props:
            t0 = time.time()
            r = sh([os.path.join(VERIF, "check"), p, "--tier", tier], cwd=VERIF)
            sigs = [l.split("violation signature:", 1)[1].strip()[:160] for l in r.stdout.splitlines() if "violation signature:" in l]
            viol = [l for l in r.stdout.splitlines() if l.startswith("VIOLATION")]
            results[p] = {"exit": r.returncode, "violations": len(viol), "signatures": sigs[:8], "seconds": round(time.time() - t0, 1)}
            print(p, json.dumps(results[p], ensure_ascii=False))
            if r.returncode not in (0, 1):
                print("\n".join(r.stdout.splitlines()[-15:]))
    finally:
        sh(["git", "-C", "/repo", "checkout", "--", "."])
        for f in added:
            try:
                os.remove(os.path.join("/repo", f))
            except OSError:
                pass
        st = sh(["git", "-C", "/repo", "status", "--porcelain"]).stdout.strip()
        if st:
            print("WARNING: /repo not clean after restore:\n" + st)
    return 0


if __name__ == "__main__":
    sys.exit(main())
