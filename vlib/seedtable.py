#!/usr/bin/env python3
"""Prints the markdown matrix of one seeding round from seeded/*/meta.json:
    python3 vlib/seedtable.py r2"""
import glob
import json
import os
import sys

VERIF = os.path.dirname(os.path.dirname(os.path.abspath(__file__)))


def main():
    rnd = sys.argv[1]
    print("| id | change | reported by | a reporting signature |")
    print("|---|---|---|---|")
    total = caught = 0
    for d in sorted(glob.glob(os.path.join(VERIF, "seeded", f"C??-{rnd}-?"))):
        with open(os.path.join(d, "meta.json")) as fh:
            m = json.load(fh)
        total += 1
        by = sorted(m.get("caught_by") or {})
        summary = (m.get("summary") or "").replace("|", "\\|").replace("\n", " ")[:150]
        if by:
            caught += 1
            own = m["property"] if m["property"] in by else by[0]
            sigs = m["caught_by"][own]
            sig = (sigs[0] if sigs else "").split("  (")[0].replace("|", "\\|")[:70]
            print(f"| {m['id']} | {summary} | {', '.join(by)} | {own}: `{sig}` |")
        else:
            print(f"| {m['id']} | {summary} | **not caught** |  |")
    print(f"\n{caught} of {total} reported.", file=sys.stderr)


if __name__ == "__main__":
    main()
