#!/usr/bin/env python3
"""Independent confirmation of one seeded change:  python3 vlib/seedverify.py /tmp/seed-out/C04 1

In a scratch worktree of /repo (never /repo itself): the demonstration passes on the unchanged
tree, the change applies and compiles, the existing suite (except the sandbox-flaky process::
tests) still passes with it, and the demonstration fails with it. Prints a JSON verdict."""
import glob
import json
import os
import shutil
import subprocess
import sys

WT = "/tmp/sv-wt"
TARGET = "/tmp/sv-target"
ENV = dict(os.environ, CARGO_TARGET_DIR=TARGET, CARGO_NET_OFFLINE="true", RUST_BACKTRACE="0")


def sh(cmd, cwd=None, timeout=1800, stdin=None):
    try:
        p = subprocess.run(cmd, cwd=cwd, env=ENV, text=True, errors="replace", stdout=subprocess.PIPE, stderr=subprocess.STDOUT, timeout=timeout, input=stdin)
        return p.returncode, p.stdout
    except subprocess.TimeoutExpired as e:
        return 124, (e.stdout or "") if isinstance(e.stdout, str) else "timeout"


def fresh_worktree():
    sh(["git", "-C", "/repo", "worktree", "remove", "--force", WT])
    shutil.rmtree(WT, ignore_errors=True)
    rc, out = sh(["git", "-C", "/repo", "worktree", "add", "--detach", WT, "HEAD"])
    assert rc == 0, out


def demo_run(d, k, label):
    """Returns dict with results of every demonstration artefact found."""
    res = {}
    rs = [f for f in glob.glob(os.path.join(d, f"demo{k}*.rs"))]
    for i, f in enumerate(rs):
        name = f"seed_demo_{k}_{i}"
        shutil.copy(f, os.path.join(WT, "tests", name + ".rs"))
        rc, out = sh(["cargo", "test", "--offline", "--test", name], cwd=WT, timeout=900)
        tail = [l for l in out.splitlines() if l.startswith("test result") or "panicked" in l or "FAILED" in l][:6]
        res[os.path.basename(f)] = {"rc": rc, "tail": tail}
    ns = glob.glob(os.path.join(d, f"demo{k}*.ns"))
    if ns:
        rc, out = sh(["cargo", "build", "--offline", "--bin", "naija"], cwd=WT)
        stdin_file = os.path.join(d, f"demo{k}.stdin")
        stdin = open(stdin_file, errors="replace", newline="").read() if os.path.exists(stdin_file) else None
        for f in ns:
            rc, out = sh([os.path.join(TARGET, "debug", "naija"), f], timeout=60, stdin=stdin)
            res[os.path.basename(f)] = {"rc": rc, "out": out[-1500:]}
    shs = glob.glob(os.path.join(d, f"demo{k}*.sh"))
    if shs:
        sh(["cargo", "build", "--offline", "--bin", "naija"], cwd=WT)
        for f in shs:
            rc, out = sh(["sh", f, os.path.join(TARGET, "debug", "naija")], timeout=300, stdin="")
            res[os.path.basename(f)] = {"rc": rc, "out": out[-3000:]}
    return res


def main():
    d, k = sys.argv[1], sys.argv[2]
    diff = os.path.join(d, f"change{k}.diff")
    verdict = {"dir": d, "k": k}
    fresh_worktree()
    base = demo_run(d, k, "base")
    verdict["baseline_demo"] = base
    # remove demo tests before applying (the patch must not depend on them)
    rc, out = sh(["git", "-C", WT, "apply", "--whitespace=nowarn", diff])
    verdict["applies"] = rc == 0
    if rc != 0:
        verdict["apply_error"] = out[-500:]
        print(json.dumps(verdict, indent=1))
        return 1
    rc, out = sh(["cargo", "build", "--offline"], cwd=WT)
    verdict["compiles"] = rc == 0
    if rc != 0:
        verdict["build_error"] = out[-800:]
        print(json.dumps(verdict, indent=1))
        return 1
    # suite with the change (demo tests still present in tests/ are excluded by name)
    for f in glob.glob(os.path.join(WT, "tests", "seed_demo_*.rs")):
        os.remove(f)
    rc, out = sh(["cargo", "nextest", "run", "--workspace", "--no-fail-fast", "--offline", "--test-threads", "8"], cwd=WT, timeout=1800)
    failed = sorted(set(l.split("] ", 1)[-1].split(") ", 1)[-1].strip() for l in out.splitlines() if l.strip().startswith("FAIL [")))
    nonproc = [f for f in failed if "::process " not in f and "process::" not in f and " process " not in f]
    verdict["suite_failures_outside_process"] = nonproc
    verdict["suite_ok"] = not nonproc and ("Summary" in out)
    changed = demo_run(d, k, "changed")
    verdict["changed_demo"] = changed
    disc = False
    for name in base:
        b, c = base[name], changed.get(name, {})
        if name.endswith(".rs"):
            if b.get("rc") == 0 and c.get("rc") not in (0, None):
                disc = True
        else:
            if (b.get("rc"), b.get("out")) != (c.get("rc"), c.get("out")):
                disc = True
    verdict["demo_discriminates"] = disc
    verdict["valid"] = bool(verdict["applies"] and verdict["compiles"] and verdict["suite_ok"] and disc)
    print(json.dumps(verdict, indent=1, ensure_ascii=False))
    sh(["git", "-C", "/repo", "worktree", "remove", "--force", WT])
    return 0


if __name__ == "__main__":
    sys.exit(main())
