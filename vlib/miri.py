"""Miri stage shared by C11/C12: runs the ordinary worker binary (`nsworker <engine> --small 1`) under
`cargo miri run` in several parallel processes (one shard each) and folds their protocol lines into a Result.
/repo's sys/unix.rs backs the arena's virtual memory with a heap allocation under cfg(all(miri, feature="verif"))."""
import json
import os
import re
import subprocess
import threading
import time

from . import common

MIRIFLAGS = "-Zmiri-disable-stacked-borrows -Zmiri-disable-isolation -Zmiri-permissive-provenance"


def _env():
    env = dict(common.ENV_BASE)
    env["CARGO_TARGET_DIR"] = os.path.join(common.TARGET, "miri")
    env["MIRIFLAGS"] = MIRIFLAGS
    return env


def _cmd(engine, extra):
    return ["cargo", "+nightly", "miri", "run", "--offline", "--quiet", "--bin", "nsworker", "--", engine, "--keep-stdout", "1"] + extra


def _sig(text):
    for line in text.splitlines():
        if line.startswith("error:") and "aborting due to" not in line:
            return re.sub(r"0x[0-9a-f]+|alloc\d+|\d+", "N", line)[:140]
    return "unknown"


def available():
    p = subprocess.run(["cargo", "+nightly", "miri", "--version"], cwd=common.HARNESS, env=_env(), stdout=subprocess.PIPE, stderr=subprocess.STDOUT, text=True)
    return p.returncode == 0


def run(engine, count, seed, nproc=None, timeout=1500):
    """Returns (Result or None, note). note == "ok" when every shard finished."""
    nproc = nproc or min(common.NCPU, max(1, count))
    res = common.Result()
    res.builds.append("miri")
    t0 = time.time()
    if not available():
        return None, "cargo miri is not installed"
    lock = common._locked("miri")
    try:
        # build once (and prove that Miri can start the worker at all)
        p = subprocess.run(_cmd(engine, ["--count", "0"]), cwd=common.HARNESS, env=_env(), stdout=subprocess.PIPE, stderr=subprocess.PIPE, text=True, timeout=timeout)
    except subprocess.TimeoutExpired:
        lock.close()
        return None, "miri build timed out"
    finally:
        lock.close()
    if p.returncode != 0 or "Z done" not in p.stdout:
        return None, "miri could not start the worker: " + (p.stderr or "")[-400:]
    common.log(f"[build] miri: {time.time() - t0:.1f}s")
    mutex = threading.Lock()
    notes = []

    def shard(k):
        extra = ["--seed", str(seed), "--count", str(count), "--nshards", str(nproc), "--shard", str(k), "--small", "1"]
        try:
            p = subprocess.run(_cmd(engine, extra), cwd=common.HARNESS, env=_env(), stdout=subprocess.PIPE, stderr=subprocess.PIPE, text=True, timeout=timeout)
        except subprocess.TimeoutExpired:
            with mutex:
                res.inconclusive.append({"idx": -1, "why": f"miri shard {k} timed out", "detail": {}})
            return
        last_begin, done = None, False
        for line in p.stdout.splitlines():
            tag, _, body = line.partition(" ")
            with mutex:
                if tag == "B":
                    last_begin = int(body)
                elif tag == "F":
                    rec = json.loads(body)
                    rec["build"] = "miri"
                    res.failures.append(rec)
                elif tag == "I":
                    res.inconclusive.append(json.loads(body))
                elif tag == "S":
                    res.merge_summary(json.loads(body))
                elif tag == "Z":
                    done = True
        if p.returncode != 0 or not done:
            err = p.stderr or ""
            with mutex:
                res.crashes += 1
                res.failures.append({"idx": last_begin if last_begin is not None else -1, "sig": f"miri|{_sig(err)}",
                                     "detail": {"stderr": err[-2500:], "rc": p.returncode},
                                     "replay": {"engine": engine, "seed": seed, "idx": last_begin, "small": True, "regenerate": True, "miri": True}, "build": "miri"})

    ths = [threading.Thread(target=shard, args=(k,)) for k in range(nproc)]
    for t in ths:
        t.start()
    for t in ths:
        t.join()
    res.wall = time.time() - t0
    res.distinct_nontrivial = 0  # counted by the native stages; Miri histories are additional
    res.histogram = {f"miri.{k}": v for k, v in res.histogram.items() if k.startswith(("op.", "ops.", "history.", "scratch.push", "exhaustion", "alloc.", "commit.", "workload."))}
    res.histogram["miri.histories"] = res.evaluations
    res.samples = []
    return res, "ok"
