"""C11 - bump arena contract: random operation histories against a shadow model (engine `arena`)."""
import json
import os
import subprocess

from . import common
from .common import build, run_engine, finish, log

RULE = (
    "histories of 50-400 operations (allocate / allocate_zeroed with sizes around 0, 4 KiB, the 64 KiB commit "
    "granularity and the capacity, alignments 1..4096; grow / grow_zeroed of the tail block and of non-tail blocks; "
    "shrink of the tail; alloc_uninit / alloc_uninit_slice incl. counts whose byte size overflows; ArenaString and "
    "Vec<u64,&Arena> growth (push_str, push_repeat, replace_range, arena_format!, shrink_to_fit) against std twins; "
    "reset to an earlier mark; decommit; injected commit failures; nested scratch arenas to depth 6) on arenas of "
    "64 KiB-1 MiB; after every operation the shadow model (offset, commit, live blocks) is compared with the arena's "
    "accessors, every returned block is checked for bounds/commit/alignment/overlap/predicted placement and every live "
    "block is re-read against its fill pattern. non-trivial = the history crosses a commit boundary AND contains a "
    "non-tail grow after a reset AND a decommit that lowered the commit mark followed by a re-commit; "
    "distinct = hash of (capacity, operation list)"
)

ASSUMPTIONS = [
    "the shadow model is written from the documented behaviour of src/arena/bump.rs: aligned bump, commit in 64 KiB chunks, capacity rounded up to 64 KiB, tail-only in-place grow/shrink, decommit keeps round_up(offset, 64 KiB)",
    "operations respect the API's own preconditions: shrink and shrink_to_fit only on the tail block, grow never raises the alignment, reset only to marks <= offset, an outer scratch arena is not used while a newer borrow of the same arena is alive, scratch arenas are released innermost-first",
    "container operations (which abort the process on allocation failure by design of std) are only issued when the model says there is room",
    "a clean failure is Err(AllocError) from the Allocator methods and a panic from the unwrap-ing helpers alloc_uninit / alloc_uninit_slice",
    "the two scratch arenas are process-wide statics: one capacity per worker process (derived from the seed), init() once per process",
    "commit failure is injected through the verif hook after the real commit succeeded (the pages are handed back), not by making mprotect fail",
    "Miri stage (thorough): heap-backed virtual memory (cfg(miri) in sys/unix.rs), Stacked Borrows disabled, small capacities and ~100-operation histories",
]

# Entry for vlib/manifest_gen.py (CHECKS["C11"] = p_c11.MANIFEST).
MANIFEST = dict(
    engine="arena",
    technique="runtime monitoring: random operation histories against a shadow model of the bump arena, cross-checked through read-only accessors after every operation; fill patterns re-read; AddressSanitizer with arena lifetime poisoning; Miri on a heap-backed reservation",
    text="Held on N random histories (50-400 operations each) over arenas of 64 KiB-1 MiB and the two scratch arenas: every returned block was inside the reservation and the committed prefix, aligned, disjoint from every live block and exactly where the bump rule puts it; offset and commit equalled the model after every operation; grow (tail and non-tail), grow_zeroed, shrink, Vec/ArenaString growth kept contents; oversize requests and injected commit failures failed without changing anything; after reset the next block started at align_up(mark) and blocks below the mark kept their bytes; an inner scratch arena never was the conflicting one and its release left outer blocks intact. Exploration, not proof: histories are sampled; debug, release, ASan (and Miri in thorough) builds are reported separately in the histogram.",
    note="Trusts the shadow model (harness/src/engines/arena/model.rs, ~60 lines of arithmetic) and the accessor hook verif_state(). Does not exercise API-precondition violations (non-tail shrink, alignment-raising grow, use of an outer scratch borrow while an inner one of the same arena is alive).",
    design="DESIGN.md §4 C11",
)


def run(tier, seed, scale=None):
    from . import props
    n = props.n
    res = common.Result()
    per_build = {}

    def stage(kind, count, sd):
        r = run_engine(build(kind), "arena", count, sd, {}, build_name=kind)
        per_build[kind] = {"histories": r.evaluations, "distinct_nontrivial": r.distinct_nontrivial, "failure_records": len(r.failures),
                           "inconclusive": len(r.inconclusive), "worker_restarts": r.crashes, "wall_s": round(r.wall, 1)}
        res.absorb(r)

    if tier == "quick":
        stage("dbg", n(12000), seed)
        stage("rel", n(8000), seed + 1000003)
    else:
        stage("dbg", n(150000), seed)
        stage("rel", n(300000), seed + 1000003)
        stage("asan", n(60000), seed + 2000003)
    extra = {"per_build": per_build}
    if tier == "thorough" and os.environ.get("VERIF_NO_MIRI") != "1":
        from . import miri
        mres, note = miri.run("arena", n(96), seed + 3000003)
        extra["miri"] = {"note": note, "flags": miri.MIRIFLAGS}
        if mres is not None:
            evals = mres.evaluations
            mres.evaluations = 0  # reported separately: histogram miri.histories
            extra["miri"]["histories"] = evals
            extra["miri"]["wall_s"] = round(mres.wall, 1)
            res.absorb(mres)
        else:
            log(f"[C11] Miri stage skipped: {note}")
    props.triage(res)
    return finish("C11", tier, seed, "exploration", res, RULE, ASSUMPTIONS, min_nontrivial=50, extra_cov=extra)


def replay(path):
    """Re-runs one recorded history: prints what the model expected and what the arena did."""
    with open(path) as f:
        rec = json.load(f)
    kind = rec.get("build", "dbg")
    if kind not in ("dbg", "rel", "asan"):
        kind = "dbg"
    binary = build(kind)
    env = dict(common.ENV_BASE)
    env["ASAN_OPTIONS"] = common.ASAN_OPTIONS
    p = subprocess.run([binary, "arena", "--replay-file", path, "--keep-stdout", "1"], env=env, cwd=common.VERIF)
    return 1 if p.returncode != 0 else 0
