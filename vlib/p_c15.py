"""C15: children get exactly the configured argv/env/cwd/stdin; invalid, over-limit or
policy-forbidden commands are refused before anything is spawned. Engine: procspec."""
import os
import shutil
import tempfile

from . import common, props
from .common import log

RULE = (
    "a command (builder calls in random order with repeats) is generated, rendered as a script and run through "
    "lexer+parser+checker+runtime under a chosen HostPolicy; the child is `vhelper report`, which leaves a spawn marker "
    "and writes argv / the whole environment / cwd / stdin (bytes and what kind of file fd 0 is) to a side file that is "
    "compared byte for byte with the generator's own record (last env write per key wins, last cwd/stdin setting wins, "
    "non-string values as their to_string rendering, everything not overridden inherited). Whether the command must run, "
    "be refused ('Invalid process configuration') or be denied ('Process execution denied') is decided by a judge written "
    "from the property text; a refused/denied command must leave no spawn marker (looked at again at the end of the run) "
    "and a canary argument (`; touch F`, `$(touch F)`, backticks, `| tee F`, `> F`) must never create F. "
    "Stage limits: for each of the 11 caps the triple {limit-1, limit, limit+1} with small randomised limits and once with "
    "the shipped default value of the cap, plus timeout 0 / u32::MAX / above u32; stage invalid: NUL in each field, `=` in "
    "a key, empty program/cwd/key, allow_process=false, and the permitted edge cases; stage random: random commands with "
    "every cap drawn at, just above or (a fifth of the cases) just below what the command uses. "
    "non-trivial = at least 2 arguments containing shell metacharacters or white space, or a cap probed at its boundary "
    "triple; distinct = hash of script text + caps"
)

ASSUMPTIONS = [
    "empty argument strings, empty environment values and an empty stdin text are allowed (the property only names empty program/cwd/key as invalid); the child then sees an empty argument / empty value / immediate EOF",
    "validation applies to the command as configured when run() is called: an invalid or oversize env value / cwd / stdin text that was overwritten by a later valid call does not make the command invalid",
    "max_env_pairs counts distinct keys (a rewrite of a key is not a new pair); max_total_env_bytes is the sum of key and value bytes of the final pairs (no separator or terminator counted); max_total_arg_bytes is the sum of the argument bytes without the program name; max_args does not count the program name",
    "timeout_ms(0) is refused when the builder call is made (the script ends there), with the same error category as a refusal by run()",
    "timeout_ms(2^32) under max_timeout_ms = u32::MAX is clamped to the cap and accepted by the pinned tree; this is recorded (histogram key observed.*) but not judged, the judged probe uses a cap of u32::MAX-1",
    "when allow_process=false and the command is also invalid, either refusal category is accepted",
    "environment variables that are not overridden are inherited unchanged from the interpreter process and nothing else is added",
    "stdin_null() gives the child /dev/null, stdin_inherit() the interpreter's own fd 0 (an empty regular file in the harness), stdin_text() a pipe; which of these is the default when no stdin call is made is not asserted",
    "argv[0] of the child is the program string as written in the script",
    "arrays passed as values render as `[1, \"s\", true, null]` (Display of the pinned tree; docs are silent)",
    "program and cwd paths of 4096 bytes or more are refused by the kernel (PATH_MAX) before validation matters: 'Process spawn failed' without a spawn marker is accepted there",
    "every configured timeout is at least 29 999 ms while the helper finishes in milliseconds; a 'Process timeout' ending after the timeout really elapsed is inconclusive (slow machine), before it elapsed a violation",
]

SIZES = {
    # stage: (quick, thorough)
    "limits": (36 * 8, 36 * 150),
    "invalid": (24 * 5, 24 * 60),
    "random": (1100, 45000),
}


def run(tier, seed):
    b = common.build("dbg")
    vh = common.vhelper("dbg")
    res = common.Result()
    os.makedirs(os.path.join(common.VERIF, "run"), exist_ok=True)
    for stage, (q, t) in SIZES.items():
        count = props.n(q if tier == "quick" else t)
        d = tempfile.mkdtemp(prefix=f"c15-{stage}-", dir=os.path.join(common.VERIF, "run"))
        try:
            r = common.run_engine(b, "procspec", count, seed, {"vhelper": vh, "scratch": d, "stage": stage},
                                  nshards=min(16, common.NCPU), build_name="dbg", timeout_case=60)
        finally:
            shutil.rmtree(d, ignore_errors=True)
        res.absorb(r)
    props.triage(res)
    # builder-order permutations: counted, not listed
    perms = [k for k in res.histogram if k.startswith("perm.")]
    extra = {"distinct_builder_orders": len(perms),
             "builder_order_examples": sorted(perms, key=lambda k: -res.histogram[k])[:12]}
    for k in perms:
        del res.histogram[k]
    rc = common.finish("C15", tier, seed, "exploration", res, RULE, ASSUMPTIONS, min_nontrivial=30, extra_cov=extra)
    if rc == 0 and len(res.inconclusive) > max(5, 0.02 * res.evaluations):
        log(f"[C15] BROKEN RUN: {len(res.inconclusive)} inconclusive cases of {res.evaluations}")
        return 3
    return rc
