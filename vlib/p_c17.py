"""C17 - read_line delivers successive input lines, whatever the chunking.

Drives the real `naija` binary: an echo script calls read_line K = pieces + 3 times and prints, for
every call, the length in characters on one line and the content on the next.  The input text is
delivered through a file, a pipe (one write / many paced writes / boundaries placed around the
newlines) or a pty in canonical mode.  Oracle: text.split("\\n"), then empty strings.

Environment overrides (experiments only):
  NAIJA_BIN       path of a naija binary used instead of the cli-dbg build (and of cli-rel)
  NAIJA_BIN_REL   path used instead of the cli-rel build (defaults to NAIJA_BIN when that is set)
"""
import concurrent.futures
import hashlib
import json
import os
import pty
import random
import re
import subprocess
import sys
import tempfile
import termios
import threading
import time

from . import common

PROP = "C17"
WATCHDOG = 60.0
EXTRA_CALLS = 3
KIB8 = 8192

RULE = (
    "one run = (input text, delivery schedule, build); the echo script calls read_line pieces+3 times and prints "
    "length and content of every result; stdout must equal the rendering of text.split('\\n') followed by empty "
    "strings; in a fifth of the runs some calls discard their result (a declaration nobody reads, or a bare call "
    "statement) and must still consume their line: their records are simply absent from the expected output. "
    "a fifth of the file / single-write runs contain one line of 2^20-1, 2^20, 2^20+10 or 3*2^20+1 bytes. "
    "Non-trivial = some write carries a newline followed by at least one more byte (two lines in one "
    "write/read), or a write boundary falls strictly inside a line, or a line is longer than 8192 bytes; "
    "distinct = hash of (delivery mode, write sizes, text bytes)"
)

ASSUMPTIONS = [
    "the line terminator is the single byte 0x0A. A CR in the middle of a line is content under every reading and is generated; a CR directly before the LF (or as the last byte of the input) is never generated: the property does not say whether it belongs to the terminator, the unchanged Unix implementation keeps it, and this check does not decide it (seeded change C17-r3-1, which strips it, is therefore not reported, by design)",
    "input texts are valid UTF-8 (read_line reports anything else as an I/O error); two fixed extra runs per build feed invalid UTF-8 and only require exit code 0 or 1 without a signal",
    "how the kernel splits the text across read(2) calls is influenced (write sizes, 1-5 ms pauses, first write either immediately or after the script printed its ready marker), not controlled; the sizes actually returned by read(0, ..) are measured with strace on a subset of runs and reported as evidence, they do not enter the verdict",
    "pty runs: canonical mode, echo and all special characters except EOF disabled, printable text with lines < 4000 bytes; end of input is signalled by EOT at line start; a pty mismatch is re-checked with a reference reader on the same schedule and counted as inconclusive when the reference reader does not see the text either",
    "a watchdog of 60 s per run turns a hang into an inconclusive case",
    "runs whose script discards results provoke 'unused' warnings, which the interpreter prints on stdout before the program starts: everything before the ready-marker line is ignored in those runs",
]

FIXED_CHUNKS = [1, 2, 7, 4095, 4096, 8191, 8192, 8193]
MODES = (
    ["file", "pipe1"]
    + [f"chunk{c}" for c in FIXED_CHUNKS]
    + ["chunkrand", "chunkrand-nopause", "nl-before", "nl-at", "nl-after", "pty"]
)
MAX_WRITES = 500          # keeps a paced run below ~2.5 s
STRACE = "/usr/bin/strace"


def stable_seed(*parts):
    h = hashlib.sha256("|".join(str(p) for p in parts).encode()).digest()
    return int.from_bytes(h[:8], "big")


# ---------------------------------------------------------------------------
# Text generation
# ---------------------------------------------------------------------------

ASCII_PRINT = [chr(c) for c in range(0x20, 0x7F)]
SPECIALS = list("<>{}[]()\"\\'#$%&|;: \t")
TWO = [chr(c) for c in (0xE9, 0xF1, 0x3A9, 0x416, 0x7FF, 0x80)]
THREE = [chr(c) for c in (0x800, 0x20AC, 0x4E2D, 0xFFFD, 0x2028, 0xFEFF)]
FOUR = [chr(c) for c in (0x10000, 0x1F600, 0x1F1F3, 0x10FFFF)]
# CR occurs inside lines only (never as the last character of a line, see ASSUMPTIONS)
CONTROLS = [chr(c) for c in (0x00, 0x01, 0x04, 0x07, 0x08, 0x0B, 0x0C, 0x0D, 0x0D, 0x1B, 0x7F, 0x85)]


def rand_char(rng, charset):
    if charset == "ascii":
        return rng.choice(ASCII_PRINT)
    if charset == "special":
        return rng.choice(SPECIALS) if rng.random() < 0.5 else rng.choice(ASCII_PRINT)
    if charset == "multi":
        r = rng.random()
        if r < 0.25:
            return rng.choice(ASCII_PRINT)
        if r < 0.5:
            return rng.choice(TWO)
        if r < 0.75:
            return rng.choice(THREE)
        return rng.choice(FOUR)
    if charset == "control":
        r = rng.random()
        if r < 0.2:
            return rng.choice(CONTROLS)
        if r < 0.5:
            return rng.choice(SPECIALS)
        return rng.choice(ASCII_PRINT + TWO + THREE + FOUR)
    raise ValueError(charset)


def make_line(rng, nbytes, charset):
    """A line of exactly nbytes UTF-8 bytes without LF/CR."""
    if nbytes == 0:
        return ""
    if nbytes > 2000:
        # build from a random block repeated with random filler, so 70 000-byte lines are cheap
        block = make_line(rng, rng.randint(50, 400), charset)
        out = []
        used = 0
        bl = len(block.encode())
        while used + bl <= nbytes:
            out.append(block)
            used += bl
        tail = make_line(rng, nbytes - used, "ascii") if nbytes - used else ""
        # put the filler somewhere random so the multi-byte phase differs along the line
        cut = rng.randint(0, len(out)) if out else 0
        return "".join(out[:cut]) + tail + "".join(out[cut:])
    out = []
    used = 0
    while used < nbytes:
        ch = rand_char(rng, charset)
        w = len(ch.encode())
        if used + w > nbytes:
            ch = rng.choice(ASCII_PRINT)
            w = 1
        out.append(ch)
        used += w
    if out and out[-1] == "\r":
        out[-1] = "x"
    return "".join(out)


LEN_CLASSES = [0, 1, 8191, 8192, 8193, 20000, 70000]


def gen_text(rng, max_bytes, max_line, charsets, big=False):
    """Returns (text, profile).  0-40 lines, optional final newline.  big=True prefers texts of several KiB
    (used with write sizes of 4 KiB and more, so that there is more than one write)."""
    charset = rng.choice(charsets)
    profile = rng.choice(["small", "small", "mixed", "boundary", "long", "empty-ish"])
    if big and rng.random() < 0.85:
        profile = rng.choice(["mixed-big", "boundary", "long"])
    if max_line < 8191 and profile in ("boundary", "long"):
        profile = "mixed"
    lines = []
    if profile == "small":
        n = rng.choice([0, 1, 2, 3, 5, 10, 40, rng.randint(0, 40)])
        lines = [make_line(rng, rng.choice([0, 1, 2, rng.randint(0, 30), rng.randint(0, 200)]), charset) for _ in range(n)]
    elif profile == "empty-ish":
        n = rng.randint(0, 40)
        lines = [make_line(rng, rng.choice([0, 0, 0, 1]), charset) for _ in range(n)]
    elif profile == "boundary":
        n = rng.randint(1, 6)
        lines = [make_line(rng, rng.choice([8191, 8192, 8193, 8190, 8194, 16384, 16383, 16385, 1, 0, rng.randint(0, 50)]), charset) for _ in range(n)]
    elif profile == "long":
        n = rng.randint(1, 5)
        lines = [make_line(rng, rng.choice([20000, 70000, 8193, rng.randint(8193, 70000), rng.randint(0, 30), 0]), charset) for _ in range(n)]
    else:
        n = rng.randint(1, 40)
        if profile == "mixed-big":
            n = rng.randint(10, 40)
        for _ in range(n):
            r = rng.random()
            if r < 0.7:
                ln = rng.randint(0, 60) if profile == "mixed" else rng.choice([rng.randint(0, 60), rng.randint(100, 3000)])
            elif r < 0.85:
                ln = rng.choice([c for c in LEN_CLASSES if c <= max_line] or [0])
            else:
                ln = rng.randint(0, min(max_line, 5000))
            lines.append(make_line(rng, ln, charset))
    # enforce bounds
    lines = [ln if len(ln.encode()) <= max_line else make_line(rng, max_line, charset) for ln in lines]
    final_nl = rng.random() < 0.5
    text = "\n".join(lines)
    if lines and final_nl:
        text += "\n"
    elif not lines and final_nl and rng.random() < 0.5:
        text = "\n"
    data = text.encode()
    if len(data) > max_bytes:
        data = data[:max_bytes]
        # cut back to a character boundary
        while data and (data[-1] & 0xC0) == 0x80:
            data = data[:-1]
        if data and data[-1] >= 0xC0:
            data = data[:-1]
        text = data.decode()
    return text, f"{profile}/{charset}"


# ---------------------------------------------------------------------------
# Schedules
# ---------------------------------------------------------------------------

def split_sizes(total, sizes_iter):
    out = []
    left = total
    for s in sizes_iter:
        if left <= 0:
            break
        s = max(1, min(s, left))
        out.append(s)
        left -= s
    return out


def gen_case(seed, idx, tier, builds):
    rng = random.Random(stable_seed(seed, PROP, tier, idx))
    mode = MODES[idx % len(MODES)]
    build = builds[(idx // len(MODES)) % len(builds)]
    case = {"idx": idx, "mode": mode, "build": build, "pause": True, "handshake": False}
    all_sets = ["ascii", "special", "multi", "multi", "control"]
    if mode == "file" or mode == "pipe1":
        text, prof = gen_text(rng, 400_000, 70000, all_sets)
        if rng.random() < 0.2:
            # one line around a megabyte (2^20 - 1, 2^20, 2^20 + 10, 3 * 2^20 + 1 bytes) among short ones
            n = rng.choice([(1 << 20) - 1, 1 << 20, (1 << 20) + 10, 3 * (1 << 20) + 1])
            big = make_line(rng, n, rng.choice(["ascii", "multi"]))
            lines = text.split("\n")[:6]
            lines.insert(rng.randint(0, len(lines)), big)
            text = "\n".join(lines)
            prof += "/megabyte-line"
        data = text.encode()
        chunks = [len(data)] if data else []
    elif mode.startswith("chunk") and mode[5:].isdigit():
        c = int(mode[5:])
        text, prof = gen_text(rng, min(400_000, c * MAX_WRITES), 70000 if c >= 4095 else min(70000, c * MAX_WRITES), all_sets, big=c >= 4095)
        data = text.encode()
        chunks = split_sizes(len(data), iter(lambda: c, None))
        case["handshake"] = rng.random() < 0.6
    elif mode in ("chunkrand", "chunkrand-nopause"):
        text, prof = gen_text(rng, 300_000, 70000, all_sets, big=rng.random() < 0.4)
        data = text.encode()
        style = rng.choice(["tiny", "mixed", "big", "aroundbuf"])

        def sizes():
            while True:
                if style == "tiny":
                    yield rng.randint(1, 16)
                elif style == "big":
                    yield rng.randint(2000, 20000)
                elif style == "aroundbuf":
                    yield rng.choice([4095, 4096, 4097, 8191, 8192, 8193, 16384, 1, 3])
                else:
                    yield rng.choice([1, 2, 3, rng.randint(1, 64), rng.randint(1, 1000), rng.randint(1000, 9000), rng.randint(8000, 70000)])
        chunks = split_sizes(len(data), sizes())
        if len(chunks) > MAX_WRITES and mode == "chunkrand":
            # merge the tail into bigger writes so the run stays short
            head = chunks[:MAX_WRITES - 1]
            chunks = head + [len(data) - sum(head)]
        case["pause"] = mode == "chunkrand"
        case["handshake"] = rng.random() < 0.6
        prof += "/" + style
    elif mode.startswith("nl-"):
        text, prof = gen_text(rng, 300_000, 70000, all_sets)
        data = text.encode()
        nls = [i for i, b in enumerate(data) if b == 0x0A]
        if len(nls) > MAX_WRITES - 2:
            keep = set(rng.sample(nls, MAX_WRITES - 2))
            nls = [i for i in nls if i in keep]
        if mode == "nl-before":
            cuts = [i for i in nls]              # chunk ends right before the newline
        elif mode == "nl-at":
            cuts = [i + 1 for i in nls]          # chunk ends with the newline
        else:
            cuts = [i + 2 for i in nls]          # chunk ends one byte after the newline
        cuts = sorted({c for c in cuts if 0 < c < len(data)})
        chunks = []
        prev = 0
        for c in cuts + [len(data)]:
            if c > prev:
                chunks.append(c - prev)
                prev = c
        case["handshake"] = rng.random() < 0.6
    elif mode == "pty":
        text, prof = gen_text(rng, 60_000, 3999, ["ascii", "special", "multi"])
        text = text.replace("\t", " ")
        data = text.encode()
        # one write per group of 1..3 lines, never more than 4000 bytes per write
        chunks = []
        pos = 0
        while pos < len(data):
            want = rng.randint(1, 3)
            end = pos
            for _ in range(want):
                j = data.find(b"\n", end)
                nxt = len(data) if j < 0 else j + 1
                if nxt - pos > 4000:
                    break
                end = nxt
                if end >= len(data):
                    break
            if end == pos:
                j = data.find(b"\n", pos)
                end = len(data) if j < 0 else j + 1
            chunks.append(end - pos)
            pos = end
        case["handshake"] = rng.random() < 0.6
    else:
        raise ValueError(mode)
    case["text"] = text
    case["data"] = data
    case["chunks"] = chunks
    case["profile"] = prof
    x = rng.random()
    case["script"] = "loop" if x < 0.6 else ("straight" if x < 0.8 else "skip")
    # style skip: some calls throw their result away (a header line that is read only to get past it);
    # such a call still consumes its line
    nlines = len(text.split("\n")) + EXTRA_CALLS
    case["skips"] = sorted(i for i in range(nlines) if rng.random() < 0.3) if case["script"] == "skip" else []
    case["pause_ms"] = [rng.randint(1, 5) for _ in range(8)]
    return case


def schedule_facts(data, chunks):
    """Facts about a write (or read) schedule over the byte string `data`."""
    multi = False     # a chunk carries a newline followed by more bytes
    split = False     # a boundary falls strictly inside a line
    straddle = False  # a boundary falls inside a multi-byte character
    pos = 0
    n = len(data)
    for c in chunks:
        end = pos + c
        j = data.find(b"\n", pos, end)
        if j >= 0 and j + 1 < end:
            multi = True
        if 0 < end < n:
            if data[end - 1] != 0x0A:
                # boundary inside a line unless the line ends exactly here (next byte is LF counts as inside: the
                # terminator has not arrived yet)
                split = True
            if (data[end] & 0xC0) == 0x80:
                straddle = True
        pos = end
    longline = any(len(p) > KIB8 for p in data.split(b"\n"))
    return multi, split, straddle, longline


# ---------------------------------------------------------------------------
# Script, oracle
# ---------------------------------------------------------------------------

READY = b"R\n"


def echo_script(k, style, skips=None):
    """Prints a ready marker, then for each of k calls the length and the content of the result."""
    if style == "loop":
        return (
            "shout(\"R\")\n"
            "make i get 0\n"
            f"jasi (i small pass {k}) start\n"
            "    make l get read_line(\"\")\n"
            "    shout(l.len())\n"
            "    shout(l)\n"
            "    i get i add 1\n"
            "end\n"
        )
    parts = ["shout(\"R\")\n"]
    skips = set(skips or ())
    for i in range(k):
        if i in skips:
            # the result is never looked at: a declaration nobody reads, or a bare call
            parts.append(f"make h{i} get read_line(\"\")\n" if i % 2 == 0 else "read_line(\"\")\n")
        else:
            parts.append(f"make l{i} get read_line(\"\")\nshout(l{i}.len())\nshout(l{i})\n")
    return "".join(parts)


def _pieces(text, k, skips):
    pieces = text.split("\n")
    pieces = pieces + [""] * (k - len(pieces))
    skips = set(skips or ())
    return [p for i, p in enumerate(pieces) if i not in skips]


def expected_stdout(text, k, skips=None):
    return READY + "".join(f"{len(p)}\n{p}\n" for p in _pieces(text, k, skips)).encode()


def first_difference(text, k, got, skips=None):
    """Describes the first printed record that differs (best effort; content cannot contain LF)."""
    pieces = _pieces(text, k, skips)
    try:
        s = got.decode("utf-8")
    except UnicodeDecodeError:
        return {"call": None, "why": "stdout is not valid UTF-8", "stdout_head": repr(got[:200])}
    lines = s.split("\n")
    if lines[0] != "R":
        return {"call": 0, "why": "ready marker missing", "stdout_head": s[:200]}
    lines = lines[1:]
    for i, p in enumerate(pieces):
        gl = lines[2 * i] if 2 * i < len(lines) else None
        gc = lines[2 * i + 1] if 2 * i + 1 < len(lines) else None
        if gl != str(len(p)) or gc != p:
            return {
                "call": i + 1,
                "expected_len": len(p),
                "got_len_line": None if gl is None else gl[:40],
                "expected_head": p[:60],
                "got_head": None if gc is None else gc[:60],
                "got_content_len": None if gc is None else len(gc),
            }
    return {"call": None, "why": "records equal but trailing output differs", "tail": s[-200:]}


# ---------------------------------------------------------------------------
# Running one case
# ---------------------------------------------------------------------------

READ_RE = re.compile(r"read\(0, .*\)\s+= (-?\d+)")


def parse_strace(path):
    sizes = []
    try:
        with open(path, "r", errors="replace") as f:
            for line in f:
                if "read(0," not in line:
                    continue
                m = READ_RE.search(line)
                if m:
                    sizes.append(int(m.group(1)))
    except OSError:
        return None
    return sizes


def _kill_later(p, fired):
    def fn():
        fired.append(True)
        try:
            p.kill()
        except OSError:
            pass
    t = threading.Timer(WATCHDOG, fn)
    t.daemon = True
    t.start()
    return t


def _paced_write(fd, data, chunks, pause, pause_ms, deadline):
    pos = 0
    for i, c in enumerate(chunks):
        buf = data[pos:pos + c]
        pos += c
        while buf:
            try:
                n = os.write(fd, buf)
            except (BrokenPipeError, OSError):
                return False
            buf = buf[n:]
        if pause:
            time.sleep(pause_ms[i % len(pause_ms)] / 1000.0)
        if time.time() > deadline:
            return False
    return True


def _await_ready(path, p, wait):
    """With wait=True blocks until the child has printed the ready marker (it is then about to call
    read_line for the first time) or has exited; gives up after 10 s (the run then simply starts late)."""
    if not wait:
        return
    t_end = time.time() + 10.0
    while time.time() < t_end:
        try:
            if os.path.getsize(path) >= len(READY):
                # give the child a moment to get from the marker into read(2)
                time.sleep(0.003)
                return
        except OSError:
            pass
        if p.poll() is not None:
            return
        time.sleep(0.002)


def set_pty_modes(fd):
    a = termios.tcgetattr(fd)
    iflag, oflag, cflag, lflag, ispeed, ospeed, cc = a
    for name in ("ICRNL", "INLCR", "IGNCR", "IXON", "IXOFF", "IXANY", "ISTRIP", "IUCLC", "BRKINT", "PARMRK", "INPCK", "IGNBRK", "IMAXBEL"):
        iflag &= ~getattr(termios, name, 0)
    oflag &= ~termios.OPOST
    for name in ("ECHO", "ECHOE", "ECHOK", "ECHONL", "ECHOCTL", "ECHOKE", "ECHOPRT", "ISIG", "IEXTEN", "NOFLSH", "TOSTOP"):
        lflag &= ~getattr(termios, name, 0)
    lflag |= termios.ICANON
    cflag |= termios.CS8
    for name in ("VERASE", "VKILL", "VEOL", "VEOL2", "VWERASE", "VLNEXT", "VREPRINT", "VINTR", "VQUIT", "VSUSP", "VSTART", "VSTOP", "VDISCARD", "VSWTC"):
        i = getattr(termios, name, None)
        if i is not None:
            cc[i] = b"\x00"
    cc[termios.VEOF] = b"\x04"
    termios.tcsetattr(fd, termios.TCSANOW, [iflag, oflag, cflag, lflag, ispeed, ospeed, cc])


def run_child(argv, case, k, workdir, tag):
    """Runs argv with the case's input on stdin.  Returns dict(rc, stdout, stderr, timed_out, pty_problem)."""
    data = case["data"]
    chunks = case["chunks"]
    out_path = os.path.join(workdir, f"out-{tag}")
    err_path = os.path.join(workdir, f"err-{tag}")
    fired = []
    res = {"pty_problem": None}
    with open(out_path, "wb") as fo, open(err_path, "wb") as fe:
        mode = case["mode"]
        if mode == "file":
            in_path = os.path.join(workdir, f"in-{tag}")
            with open(in_path, "wb") as f:
                f.write(data)
            with open(in_path, "rb") as fi:
                p = subprocess.Popen(argv, stdin=fi, stdout=fo, stderr=fe, env=common.ENV_BASE)
                timer = _kill_later(p, fired)
                rc = p.wait()
                timer.cancel()
        elif mode == "pty":
            master, slave = pty.openpty()
            try:
                set_pty_modes(slave)
                p = subprocess.Popen(argv, stdin=slave, stdout=fo, stderr=fe, env=common.ENV_BASE)
                timer = _kill_later(p, fired)
                deadline = time.time() + WATCHDOG
                _await_ready(out_path, p, case["handshake"])
                _paced_write(master, data, chunks, True, case["pause_ms"], deadline)
                nl = data.count(b"\n")
                partial = 1 if (data and not data.endswith(b"\n")) else 0
                eots = (k - nl) + partial
                ok = True
                for _ in range(eots):
                    try:
                        os.write(master, b"\x04")
                    except OSError:
                        ok = False
                        break
                    time.sleep(0.002)
                # the child should finish by itself now; nudge it a few times if it still waits
                nudges = 0
                while ok:
                    try:
                        rc = p.wait(timeout=2.0)
                        break
                    except subprocess.TimeoutExpired:
                        nudges += 1
                        if nudges > 3:
                            res["pty_problem"] = "child still reading after all EOTs were sent"
                            p.kill()
                            break
                        try:
                            os.write(master, b"\x04")
                        except OSError:
                            pass
                rc = p.wait()
                res["pty_nudges"] = nudges
                timer.cancel()
            finally:
                os.close(master)
                os.close(slave)
        else:
            p = subprocess.Popen(argv, stdin=subprocess.PIPE, stdout=fo, stderr=fe, env=common.ENV_BASE)
            timer = _kill_later(p, fired)
            deadline = time.time() + WATCHDOG
            fd = p.stdin.fileno()
            _await_ready(out_path, p, case["handshake"])
            pause = case["pause"] and mode != "pipe1"
            _paced_write(fd, data, chunks, pause, case["pause_ms"], deadline)
            try:
                p.stdin.close()
            except OSError:
                pass
            rc = p.wait()
            timer.cancel()
    with open(out_path, "rb") as f:
        res["stdout"] = f.read()
    with open(err_path, "rb") as f:
        res["stderr"] = f.read()
    res["rc"] = rc
    res["timed_out"] = bool(fired)
    return res


REF_READER = (
    "import os,sys\n"
    "out=[]\n"
    "while True:\n"
    "    b=os.read(0,65536)\n"
    "    if not b: break\n"
    "    out.append(b)\n"
    "sys.stdout.buffer.write(b''.join(out))\n"
)


def pty_control_ok(case, workdir, k):
    """Re-runs the pty schedule with a reference reader; True when the pty delivered exactly the text."""
    c2 = dict(case)
    # the reference reader stops at the first zero-length read, so only the EOTs up to there matter
    r = run_child([sys.executable, "-c", REF_READER], c2, k, workdir, "ctl")
    return r["rc"] == 0 and r["stdout"] == case["data"] and not r["timed_out"]


def mode_class(mode):
    if mode == "file":
        return "file"
    if mode == "pipe1":
        return "pipe-one-write"
    if mode.startswith("nl-"):
        return "newline-boundary"
    if mode == "pty":
        return "pty"
    return "chunked"


def program_output(stdout):
    """Static-analysis warnings (the skip style provokes 'unused' warnings on purpose) are printed on
    stdout before the program starts; the program's own output begins with the ready marker line."""
    if stdout.startswith(READY):
        return stdout
    k = stdout.find(b"\n" + READY)
    return stdout[k + 1:] if k >= 0 else stdout


def run_case(case, bins, workroot, use_strace):
    t0 = time.time()
    text = case["text"]
    k = len(text.split("\n")) + EXTRA_CALLS
    workdir = tempfile.mkdtemp(prefix=f"c17-{case['idx']}-", dir=workroot)
    script_path = os.path.join(workdir, "echo.ns")
    with open(script_path, "w") as f:
        f.write(echo_script(k, case["script"], case.get("skips")))
    argv = [bins[case["build"]], script_path]
    strace_log = None
    if use_strace:
        strace_log = os.path.join(workdir, "strace.log")
        argv = [STRACE, "-f", "-e", "trace=read", "-o", strace_log] + argv
    r = run_child(argv, case, k, workdir, "run")
    if case.get("skips"):
        r["stdout"] = program_output(r["stdout"])
    out = {"idx": case["idx"], "case": case, "k": k, "failure": None, "inconclusive": None, "reads": None}
    if strace_log:
        out["reads"] = parse_strace(strace_log)
    exp = expected_stdout(text, k, case.get("skips"))
    if use_strace and (r["timed_out"] or r["rc"] != 0 or r["stdout"] != exp):
        # never blame the interpreter for something only seen under the tracer: the verdict comes from a plain run
        plain = run_child(argv[6:], case, k, workdir, "plain")
        if case.get("skips"):
            plain["stdout"] = program_output(plain["stdout"])
        if not plain["timed_out"] and plain["rc"] == 0 and plain["stdout"] == exp:
            out["inconclusive"] = {"idx": case["idx"], "why": "strace: run differs under the tracer only", "detail": {
                "mode": case["mode"], "build": case["build"], "rc_under_strace": r["rc"], "timed_out": r["timed_out"]}}
            out["secs"] = time.time() - t0
            _cleanup(workdir)
            return out
        r = plain
        use_strace = False
    mc = mode_class(case["mode"])
    replay = {
        "module": "vlib.p_c17", "idx": case["idx"], "mode": case["mode"], "build": case["build"], "script": case["script"], "calls_whose_result_is_discarded": case.get("skips", [])[:40],
        "profile": case["profile"], "calls": k, "write_sizes_head": case["chunks"][:40], "writes": len(case["chunks"]),
        "pause": case["pause"], "wait_for_ready_marker": case["handshake"], "strace": bool(use_strace),
        "text_bytes": len(case["data"]), "line_bytes_head": [len(x) for x in case["data"].split(b"\n")][:45],
        "text_head": text[:300],
    }
    if r["timed_out"]:
        out["inconclusive"] = {"idx": case["idx"], "why": f"watchdog {WATCHDOG:.0f}s", "detail": {"mode": case["mode"], "build": case["build"]}}
    elif r["pty_problem"]:
        out["inconclusive"] = {"idx": case["idx"], "why": "pty: " + r["pty_problem"], "detail": {"build": case["build"]}}
    elif r["rc"] < 0:
        out["failure"] = {"idx": case["idx"], "sig": f"crash|signal {-r['rc']}", "build": case["build"], "replay": replay,
                          "detail": {"mode": case["mode"], "stderr": r["stderr"][-600:].decode("utf-8", "replace"),
                                     "first_difference": first_difference(text, k, r["stdout"], case.get("skips"))}}
    elif r["rc"] != 0:
        # under strace a killed tracee is reported as exit 128+N by some versions: keep it a plain bad exit
        out["failure"] = {"idx": case["idx"], "sig": f"bad-exit|{mc}", "build": case["build"], "replay": replay,
                          "detail": {"rc": r["rc"], "stdout_tail": r["stdout"][-600:].decode("utf-8", "replace"),
                                     "stderr": r["stderr"][-600:].decode("utf-8", "replace")}}
    elif r["stdout"] != exp:
        if case["mode"] == "pty" and not pty_control_ok(case, workdir, k):
            out["inconclusive"] = {"idx": case["idx"], "why": "pty: reference reader did not receive the text either", "detail": {"build": case["build"]}}
        else:
            out["failure"] = {"idx": case["idx"], "sig": f"line-mismatch|{mc}", "build": case["build"], "replay": replay,
                              "detail": {"mode": case["mode"], "first_difference": first_difference(text, k, r["stdout"], case.get("skips")),
                                         "expected_bytes": len(exp), "got_bytes": len(r["stdout"])}}
    if out["failure"] is not None:
        keep = os.path.join(common.REPLAYS, PROP)
        os.makedirs(keep, exist_ok=True)
        name = "".join(c if c.isalnum() else "_" for c in out["failure"]["sig"])
        path = os.path.join(keep, f"input-{name}.bin")
        if not os.path.exists(path) or os.path.getsize(path) > len(case["data"]):
            with open(path, "wb") as f:
                f.write(case["data"])
        replay["input_file"] = path
    _cleanup(workdir)
    out["secs"] = time.time() - t0
    return out


def _cleanup(workdir):
    for fn in os.listdir(workdir):
        try:
            os.unlink(os.path.join(workdir, fn))
        except OSError:
            pass
    try:
        os.rmdir(workdir)
    except OSError:
        pass


def strace_works():
    if not os.path.exists(STRACE):
        return False
    with tempfile.TemporaryDirectory() as d:
        logp = os.path.join(d, "log")
        try:
            p = subprocess.run([STRACE, "-f", "-e", "trace=read", "-o", logp, "/bin/cat", "/dev/null"],
                               stdin=subprocess.DEVNULL, stdout=subprocess.DEVNULL, stderr=subprocess.DEVNULL, timeout=20)
        except (OSError, subprocess.TimeoutExpired):
            return False
        return p.returncode == 0 and os.path.exists(logp) and os.path.getsize(logp) > 0


def run_invalid_utf8(binary, build, workroot, variant):
    """Invalid UTF-8 must not crash the interpreter: exit 0 or 1, no signal."""
    payloads = {
        "lone-ff": b"ok\n\xff\xfe line\nlast\n",
        "truncated-4byte-at-eof": b"abc\n" + "x".encode() * 8190 + b"\xf0\x9f\x98",
    }
    data = payloads[variant]
    case = {"idx": -1, "mode": "pipe1", "build": build, "data": data, "chunks": [len(data)], "pause": False,
            "handshake": False, "pause_ms": [1]}
    workdir = tempfile.mkdtemp(prefix="c17-inv-", dir=workroot)
    sp = os.path.join(workdir, "echo.ns")
    with open(sp, "w") as f:
        f.write(echo_script(6, "loop"))
    r = run_child([binary, sp], case, 6, workdir, "inv")
    for fn in os.listdir(workdir):
        os.unlink(os.path.join(workdir, fn))
    os.rmdir(workdir)
    if r["timed_out"]:
        return None, {"idx": -1, "why": "watchdog (invalid UTF-8 run)", "detail": {"variant": variant}}, r["rc"]
    if r["rc"] < 0 or r["rc"] not in (0, 1):
        return {"idx": -1, "sig": f"crash|signal {-r['rc']}|invalid-utf8" if r["rc"] < 0 else f"bad-exit|invalid-utf8|rc={r['rc']}",
                "build": build, "detail": {"variant": variant, "stderr": r["stderr"][-400:].decode("utf-8", "replace")},
                "replay": {"module": "vlib.p_c17", "invalid_utf8_variant": variant, "input_hex": data[:64].hex()}}, None, r["rc"]
    return None, None, r["rc"]


# ---------------------------------------------------------------------------

def run(tier, seed):
    t0 = time.time()
    res = common.Result()
    override = os.environ.get("NAIJA_BIN")
    override_rel = os.environ.get("NAIJA_BIN_REL", override)
    bins = {}
    if tier == "quick":
        builds = ["cli-dbg"]
        total = 304
    else:
        builds = ["cli-dbg", "cli-rel"]
        total = 7008
    try:
        from . import props
        total = max(len(MODES), int(total * props.SCALE))
    except Exception:
        pass
    for b in builds:
        if b == "cli-dbg" and override:
            bins[b] = override
        elif b == "cli-rel" and override_rel:
            bins[b] = override_rel
        else:
            bins[b] = common.build(b)
    res.builds = list(builds)
    if override:
        res.extra["binary_override"] = {"cli-dbg": override, "cli-rel": override_rel}
    have_strace = strace_works()
    res.extra["strace_available"] = have_strace
    strace_every = 4 if tier == "quick" else 8
    workroot = tempfile.mkdtemp(prefix="c17-", dir=os.path.join(common.VERIF, "run") if os.path.isdir(os.path.join(common.VERIF, "run")) else None)

    hist = {}
    distinct = set()
    samples = []
    seqs = {}
    counters = {"strace_runs": 0, "strace_runs_two_lines_in_one_read": 0, "strace_runs_line_split_across_reads": 0,
                "strace_runs_read_boundary_inside_multibyte_char": 0, "strace_reads_total": 0, "strace_read_bytes_mismatch": 0}
    sample_modes = set()

    def bump(key, n=1):
        hist[key] = hist.get(key, 0) + n

    def job(idx):
        case = gen_case(seed, idx, tier, builds)
        use_strace = have_strace and (idx // len(MODES)) % strace_every == 0
        return run_case(case, bins, workroot, use_strace)

    with concurrent.futures.ThreadPoolExecutor(max_workers=common.NCPU) as ex:
        for out in ex.map(job, range(total)):
            case = out["case"]
            res.evaluations += 1
            data = case["data"]
            multi, split, straddle, longline = schedule_facts(data, case["chunks"])
            nontrivial = multi or split or longline
            bump(f"mode:{case['mode']}")
            bump(f"build:{case['build']}")
            bump(f"profile:{case['profile'].split('/')[0]}")
            bump(f"charset:{case['profile'].split('/')[1]}")
            bump(f"script:{case['script']}")
            bump("first-write:" + ("after-ready-marker" if case["handshake"] else "immediately"))
            bump("final-newline:" + ("yes" if data.endswith(b"\n") else "no"))
            if multi:
                bump("writes:newline-followed-by-more-bytes")
            if split:
                bump("writes:boundary-inside-line")
            if straddle:
                bump("writes:boundary-inside-multibyte-char")
            if longline:
                bump("text:line>8KiB")
            nl = data.count(b"\n")
            bump("lines:" + ("0" if not data else "1" if nl <= 1 else "2-9" if nl < 10 else "10-40"))
            if nontrivial:
                res.nontrivial_raw += 1
                h = hashlib.blake2b(digest_size=8)
                h.update(case["mode"].encode() + b"|" + case["build"].encode() + b"|")
                h.update(",".join(map(str, case["chunks"])).encode() + b"|")
                h.update(data)
                distinct.add(h.digest())
            if out["reads"] is not None:
                sizes = out["reads"]
                counters["strace_runs"] += 1
                pos_sizes = [s for s in sizes if s > 0]
                counters["strace_reads_total"] += len(sizes)
                if sum(pos_sizes) != len(data):
                    counters["strace_read_bytes_mismatch"] += 1
                else:
                    m2, s2, st2, _ = schedule_facts(data, pos_sizes)
                    if m2:
                        counters["strace_runs_two_lines_in_one_read"] += 1
                    if s2:
                        counters["strace_runs_line_split_across_reads"] += 1
                    if st2:
                        counters["strace_runs_read_boundary_inside_multibyte_char"] += 1
                key = case["mode"] + ": " + ",".join(map(str, sizes[:14])) + (",..." if len(sizes) > 14 else "")
                seqs[key] = seqs.get(key, 0) + 1
            if out["failure"]:
                res.failures.append(out["failure"])
            if out["inconclusive"]:
                res.inconclusive.append(out["inconclusive"])
                bump("inconclusive:" + out["inconclusive"]["why"].split(":")[0])
            if nontrivial and case["mode"] not in sample_modes and len(samples) < 6 and len(data) < 400 and out["reads"] is not None and "control" not in case["profile"]:
                sample_modes.add(case["mode"])
                samples.append({
                    "mode": case["mode"], "build": case["build"], "text": case["text"], "write_sizes": case["chunks"][:30],
                    "calls": out["k"], "read_sizes_seen_by_strace": out["reads"][:30],
                    "expected_results": (case["text"].split("\n") + [""] * EXTRA_CALLS)[:12],
                    "verdict": "mismatch" if out["failure"] else ("inconclusive" if out["inconclusive"] else "all calls returned the expected line"),
                })

    # invalid UTF-8 must not crash (two fixed runs per build)
    for b in builds:
        for variant in ("lone-ff", "truncated-4byte-at-eof"):
            f, inc, rc = run_invalid_utf8(bins[b], b, workroot, variant)
            res.evaluations += 1
            bump(f"invalid-utf8:{variant}:rc={rc}")
            if f:
                res.failures.append(f)
            if inc:
                res.inconclusive.append(inc)

    try:
        os.rmdir(workroot)
    except OSError:
        pass

    res.distinct_nontrivial = len(distinct)
    res.histogram = hist
    res.samples = samples
    res.extra["chunking_observed"] = dict(counters)
    res.extra["distinct_read_size_sequences"] = len(seqs)
    top = sorted(seqs.items(), key=lambda kv: (-kv[1], kv[0]))
    per_mode = {}
    for key, n in top:
        m = key.split(":")[0]
        if len(per_mode.setdefault(m, [])) < 3:
            per_mode[m].append(key.split(": ", 1)[1])
    res.extra["read_size_sequences_by_mode"] = per_mode
    res.wall = time.time() - t0
    if getattr(sys.modules.get("vlib.props"), "TRIAGE", False):
        by = {}
        for f in res.failures:
            by.setdefault(f["sig"], []).append(f)
        for sig, recs in by.items():
            print(f"==== {len(recs)}x {sig}")
            print(str(recs[0]["detail"])[:800])
        for r in res.inconclusive[:10]:
            print("INCONCLUSIVE", r)
    return common.finish(PROP, tier, seed, "exploration", res, RULE, ASSUMPTIONS, min_nontrivial=20)


def replay(path):
    """Re-runs one recorded case (same seed, tier, index: the case is regenerated) and reports what happens now."""
    with open(path) as f:
        rec = json.load(f)
    rp = rec.get("replay", {})
    if "idx" not in rp:
        print(f"replay of {path}: not a generated case (fixed invalid-UTF-8 run); re-run the check instead")
        return 0
    tier, seed, idx = rec.get("tier", "quick"), int(rec.get("seed", 1)), int(rp["idx"])
    builds = ["cli-dbg"] if tier == "quick" else ["cli-dbg", "cli-rel"]
    case = gen_case(seed, idx, tier, builds)
    bins = {case["build"]: common.build(case["build"])}
    os.makedirs(os.path.join(common.VERIF, "run"), exist_ok=True)
    workroot = tempfile.mkdtemp(prefix="c17-replay-", dir=os.path.join(common.VERIF, "run"))
    try:
        out = run_case(case, bins, workroot, False)
    finally:
        import shutil
        shutil.rmtree(workroot, ignore_errors=True)
    print(f"case {idx}: mode={case['mode']} build={case['build']} script={case['script']} bytes={len(case['data'])} writes={len(case['chunks'])}")
    if out["failure"] is not None:
        print("now:", out["failure"]["sig"], json.dumps(out["failure"]["detail"], ensure_ascii=False)[:600])
        print(f"VIOLATION property={PROP} replay={path}")
        return 1
    print("now:", "inconclusive: " + out["inconclusive"]["why"] if out["inconclusive"] else "the recorded case no longer fails")
    return 0

