#!/usr/bin/env python3
"""Assembles /verif/seeded/<id>/ from the seeding agents' output and my own confirmation runs:
    python3 vlib/seedstore.py /tmp/seed-out /tmp/seedres [round]
For every change: patch.diff, the demonstration files, meta.json (property, summary, what it
needs in order to manifest, how it was confirmed, which checks report it and with which signatures)."""
import glob
import json
import os
import re
import shutil
import sys

VERIF = os.path.dirname(os.path.dirname(os.path.abspath(__file__)))


def parse_checks(text):
    out = {}
    for line in text.splitlines():
        m = re.match(r"^(C\d\d) (\{.*\})$", line)
        if m:
            out[m.group(1)] = json.loads(m.group(2))
    return out


def main():
    src, res = sys.argv[1], sys.argv[2]
    rnd = sys.argv[3] if len(sys.argv) > 3 else "r1"
    rows = []
    for d in sorted(glob.glob(os.path.join(src, "C*"))):
        pid = os.path.basename(d)
        for k in ("1", "2", "3"):
            diff = os.path.join(d, f"change{k}.diff")
            if not os.path.exists(diff):
                continue
            sid = f"{pid}-{rnd}-{k}"
            dest = os.path.join(VERIF, "seeded", sid)
            os.makedirs(dest, exist_ok=True)
            shutil.copy(diff, os.path.join(dest, "patch.diff"))
            for f in glob.glob(os.path.join(d, f"demo{k}*")):
                shutil.copy(f, os.path.join(dest, os.path.basename(f)))
            meta_in = {}
            mp = os.path.join(d, f"meta{k}.json")
            if os.path.exists(mp):
                with open(mp) as fh:
                    meta_in = json.load(fh)
            verify = {}
            vp = os.path.join(res, f"{pid}_{k}.json")
            if os.path.exists(vp):
                with open(vp) as fh:
                    verify = json.load(fh).get("verify", {})
            checks = {}
            fp = os.path.join(res, "final", f"{pid}_{k}.txt")
            if os.path.exists(fp):
                with open(fp) as fh:
                    checks = parse_checks(fh.read())
            caught = {c: v.get("signatures", [])[:6] for c, v in checks.items() if v.get("exit") == 1}
            meta = {
                "id": sid,
                "property": pid,
                "summary": meta_in.get("summary"),
                "needs": meta_in.get("needs"),
                "files": meta_in.get("files"),
                "origin": "fresh sub-agent given only the property text and a scratch worktree of /repo",
                "confirmed": {
                    "how": "vlib/seedverify.py in a scratch worktree: demonstration passes on the unchanged tree; patch applies and compiles; pinned suite unchanged except the sandbox-flaky process:: tests; demonstration fails with the patch",
                    "applies": verify.get("applies"),
                    "compiles": verify.get("compiles"),
                    "suite_ok": verify.get("suite_ok"),
                    "demo_discriminates": verify.get("demo_discriminates"),
                    "valid": verify.get("valid"),
                },
                "checks_run": {c: {"exit": v.get("exit"), "violations": v.get("violations"), "seconds": v.get("seconds")} for c, v in checks.items()},
                "caught_by": caught,
                "caught": bool(caught),
                "ran": "git -C /repo apply patch.diff; ./check <Cxx> --tier quick for the checks above; git -C /repo checkout -- .  (vlib/seedrun.py)",
            }
            with open(os.path.join(dest, "meta.json"), "w") as fh:
                json.dump(meta, fh, indent=1, ensure_ascii=False)
            rows.append((sid, meta["confirmed"]["valid"], sorted(caught), (meta_in.get("summary") or "")[:110]))
    for r in rows:
        print(r)


if __name__ == "__main__":
    main()
