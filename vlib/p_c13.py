"""C13: string built-ins agree with their specification (engine `strings`)."""
import json
import os
import re
import stat
import subprocess
import tempfile
import time
from concurrent.futures import ThreadPoolExecutor

from . import common
from .common import build, run_engine, finish, log

# must match harness/src/engines/strings.rs (EXH_CASES): haystacks of length 0..=10 over two
# letters, for the alphabets {a,b} and {a,é}; each case runs all 127 needles of length 0..=6
EXH_CASES = 2 * (2 ** 11 - 1)
EXH_EVALS_PER_CASE = 127 * 6 + 126      # find + 5 replacements per needle, split/join per non-empty needle

TIMEOUT_CASE = 30   # typical case: milliseconds

RULE = (
    "every evaluation = one call of a built-in (find / replace / split+join / slice / len / trim / to_uppercase / "
    "to_lowercase / to_number) compared with an independent re-implementation on std (byte-window scan cross-checked "
    "with str::find; hand-written left-to-right substitution cross-checked with str::replace; char-vector slicing in "
    "i128; White_Space trimming via char::is_whitespace; std case mapping; decimal texts whose value is known by "
    "construction), plus UTF-8 validation of every result. Stage `exhaustive` enumerates all needles of length 0..=6 x "
    "all haystacks of length 0..=10 over {a,b} and over {a,é}. Non-trivial: (find) the needle occurs at least once but "
    "not at offset 0, or does not occur while a copy with exactly one byte changed does (near-miss); (split+join) the "
    "separator occurs; (slice) a bound is negative, fractional, out of range, huge or infinite; (trim/case) the result "
    "differs from the input; (to_number) the expected value is fixed by the restricted grammar; (script) the same "
    "classes through lexer+parser+checker+runtime. distinct = 64-bit hash of (operation, inputs), united over all "
    "stages and builds. histogram tier.<L> = find evaluations with needle byte length in L, tier.<L>.nontrivial = the "
    "non-trivial ones among them."
)

ASSUMPTIONS = [
    "find returns a byte offset (pinned by the repository's own unit test t_utf8_multibyte) and Some(0)/0 for the empty needle",
    "replace with an empty pattern inserts the replacement at every character boundary (str::replace semantics, pinned by the repository's unit test t9_empty_pattern)",
    "split with an empty separator is outside the property and is not exercised; no claim is made about the number of pieces, only that no piece contains the separator and that join restores the original",
    "slice: a bound is floored first, then a negative value is counted from the end, then clamped to [0, len]; NaN bounds are checked for safety (no panic, valid UTF-8) only",
    "trim uses the Unicode White_Space property (char::is_whitespace); characters whose status differs between definitions (U+FEFF, U+180E, U+001C..U+001F) are not generated",
    "case mapping = Unicode default full case conversion without locale tailoring; 'Σ' (context-sensitive final sigma) is not generated",
    "to_number is asserted only for -?digits(.digits)? (value fixed by construction: shortest round-trip text of a double, or a/10^k with a < 2^53, k <= 15) and for text containing a character no numeric spelling uses (NaN); 'inf', 'nan', exponents, '+3', '.5', '5.', padded and empty text are run for safety only",
    "termination is judged by a 30 s watchdog per batch of at most a few tens of thousands of calls that normally take microseconds each; a batch that trips it is re-run alone with per-call tracing for another 30 s and reported only if it stalls again",
    "thorough only: the same engine is also interpreted by Miri (flags -Zmiri-disable-stacked-borrows -Zmiri-disable-isolation, heap-backed arena under cfg(miri)) on 48 haystacks spread over the exhaustive space and on small batches of the other stages except `script` (the runtime's stack check misfires under Miri); aliasing-model findings are outside the property and switched off",
    "script stage literals avoid `{`, `}` and CR; `\"`, `\\`, LF and TAB are written as escapes",
]

# (stage, cases) per build
QUICK = {
    "dbg": [("exhaustive", EXH_CASES), ("tiers", 8000), ("split", 3000), ("slice", 1000), ("text", 3000), ("script", 3000)],
}
THOROUGH = {
    "rel": [("exhaustive", EXH_CASES), ("tiers", 48000), ("split", 20000), ("slice", 4000), ("text", 20000), ("script", 30000)],
    "dbg": [("exhaustive", EXH_CASES), ("tiers", 12000), ("split", 5000), ("slice", 1500), ("text", 5000), ("script", 6000)],
    "asan": [("exhaustive", EXH_CASES), ("tiers", 6000), ("split", 3000), ("slice", 600), ("text", 3000), ("script", 1500)],
}
SEED_OFFSET = {"dbg": 0, "rel": 1000003, "asan": 2000003}


def _isolate(binary, seed, stage, idx, extra_opts=None, env_extra=None, timeout=TIMEOUT_CASE):
    """Re-runs one case alone with per-call tracing.
    Returns {"outcome": "stalled"|"died"|"finished", "rc", "stderr", "last": last traced call or None, "seconds"}."""
    fd, trace = tempfile.mkstemp(prefix="c13-trace-", suffix=".jsonl", dir=os.path.join(common.VERIF, "run"))
    os.close(fd)
    env = dict(common.ENV_BASE)
    env["ASAN_OPTIONS"] = common.ASAN_OPTIONS
    env.update(env_extra or {})
    cmd = [binary, "strings", "--seed", str(seed), "--shard", "0", "--nshards", "1", "--start", str(idx), "--count", str(idx + 1),
           "--stage", stage, "--trace-file", trace]
    for k, v in (extra_opts or {}).items():
        cmd += [f"--{k}", str(v)]
    t0 = time.time()
    out = {"outcome": "finished", "rc": None, "stderr": "", "last": None}
    try:
        p = subprocess.run(cmd, env=env, cwd=common.VERIF, stdout=subprocess.DEVNULL, stderr=subprocess.PIPE, timeout=timeout)
        out["rc"] = p.returncode
        out["stderr"] = p.stderr.decode("utf-8", "replace")
        if p.returncode != 0:
            out["outcome"] = "died"
    except subprocess.TimeoutExpired:
        out["outcome"] = "stalled"
    out["seconds"] = round(time.time() - t0, 1)
    try:
        with open(trace, "rb") as f:
            f.seek(0, os.SEEK_END)
            size = f.tell()
            f.seek(max(0, size - 65536))
            lines = f.read().decode("utf-8", "replace").splitlines()
        if lines:
            out["last"] = json.loads(lines[-1])
    except (OSError, ValueError):
        pass
    try:
        os.unlink(trace)
    except OSError:
        pass
    return out


def _replay_of(last, stage, seed, idx):
    """Replay record of one traced call (same keys as the engine's own failure records)."""
    op = last.get("op", "?")
    rp = {"engine": "strings", "stage": stage, "op": op, "seed": seed, "idx": idx}
    if op in ("find", "replace", "split_join"):
        rp.update({"h": last.get("a", ""), "n": last.get("b", ""), "to": last.get("c", "")})
    elif op == "script":
        rp.update({"src": last.get("a", "")})
    else:
        rp.update({"s": last.get("a", ""), "a": last.get("b", ""), "b": last.get("c", "")})
    return rp


def _norm(text):
    return re.sub(r"0x[0-9a-f]+|\d+", "N", text).strip()[:160]


def _death_signature(text, rc, fallback):
    """Signature of a worker death from the complete stderr of its isolated re-run."""
    if "AddressSanitizer" in text:
        m = re.search(r"ERROR: AddressSanitizer: (\S+)", text)
        frames = []
        for fn in re.findall(r"#\d+ 0x[0-9a-f]+ in (naijascript::[^\s<(]+)", text):
            fn = re.sub(r"::h[0-9a-f]{16}$", "", fn)
            if fn not in frames:
                frames.append(fn)
            if len(frames) >= 2:
                break
        return "asan|" + (m.group(1) if m else "?") + "|" + "|".join(frames)
    m = re.search(r"error: (Undefined Behavior: [^\n]*)", text)
    if m:
        where = re.search(r"inside `(naijascript::[^`]*)`", text)
        return "miri|" + _norm(m.group(1)) + ("|" + where.group(1) if where else "")
    m = re.search(r"(unsafe precondition\(s\) violated: [^\n]*?)(?: at ([^\n]*))?$", text, re.M)
    if m:
        return "abort|" + _norm(m.group(1).split("\n")[0])
    m = re.search(r"error: ([^\n]*)", text)
    if m and "miri" in text.lower():
        return "miri|" + _norm(m.group(1))
    return re.sub(r"==\d+==", "==N==", fallback)


def _refine(r, binary, build_name, stage, seed, extra_opts=None, env_extra=None, timeout=TIMEOUT_CASE, max_reruns=64):
    """Stalls and worker deaths are reported by the orchestrator per batch. Each such batch is re-run alone
    with per-call tracing: a stall must repeat to count (else inconclusive); a death gets a signature from
    the complete stderr; both get the exact call as replay. Returns True if a stall was confirmed."""
    todo = [f for f in r.failures if f.get("sig") == "stall" or f.get("detail", {}).get("death")]
    if not todo:
        return False
    todo.sort(key=lambda f: f["idx"])
    rerun, rest = todo[:max_reruns], todo[max_reruns:]
    with ThreadPoolExecutor(max_workers=max(1, common.NCPU // 2)) as ex:
        outcomes = list(ex.map(lambda f: _isolate(binary, seed, stage, f["idx"], extra_opts, env_extra, timeout), rerun))
    confirmed = False
    drop = []
    for f, o in zip(rerun, outcomes):
        last = o["last"]
        was_stall = f.get("sig") == "stall"
        if o["outcome"] == "stalled":
            confirmed = True
            if last is not None:
                op = last.get("op", "?")
                f["sig"] = f"stall|{op}|needle={last.get('needle_tier', '?')}" if op in ("find", "replace", "split_join") else f"stall|{op}"
                f["detail"] = {"seconds_without_return": timeout, "isolated_rerun_seconds": o["seconds"], "call_that_did_not_return": last}
                f["replay"] = _replay_of(last, stage, seed, f["idx"])
            else:
                f["detail"] = {"seconds_without_return": timeout, "isolated_rerun": "stalled again before the first traced call"}
        elif o["outcome"] == "died":
            f["sig"] = _death_signature(o["stderr"], o["rc"], f["sig"] if not was_stall else f"crash|exit-{o['rc']}")
            head = "\n".join(l for l in o["stderr"].splitlines() if l.strip())
            f["detail"] = {"death": f.get("detail", {}).get("death", f"exit-{o['rc']}"), "isolated_rerun": "died again", "stderr_head": head[:1800], "last_call_started": last}
            if last is not None:
                f["replay"] = _replay_of(last, stage, seed, f["idx"])
        elif was_stall:
            drop.append(f)
            r.inconclusive.append({"idx": f["idx"], "why": f"watchdog fired after {timeout}s but the isolated re-run of the case finished in {o['seconds']}s",
                                   "detail": {"stage": stage, "build": build_name}})
        else:
            f["sig"] = re.sub(r"==\d+==", "==N==", f["sig"])
            f.setdefault("detail", {})["isolated_rerun"] = f"finished normally in {o['seconds']}s (death not reproduced alone)"
    for f in rest:
        f["sig"] = re.sub(r"==\d+==", "==N==", f["sig"]) + "|not re-run alone"
    r.failures = [f for f in r.failures if f not in drop]
    return confirmed


def _run_stage(binary, build_name, stage, count, seed):
    """Returns (result, confirmed_stall)."""
    r = run_engine(binary, "strings", count, seed, {"stage": stage}, timeout_case=TIMEOUT_CASE, build_name=build_name, stall_is="failure")
    confirmed = _refine(r, binary, build_name, stage, seed)
    return r, confirmed


# ---------------------------------------------------------------------------
# Miri (thorough): the same engine interpreted, small batches
# ---------------------------------------------------------------------------

MIRI_FLAGS = "-Zmiri-disable-stacked-borrows -Zmiri-disable-isolation"
# (stage, cases, extra options); 83 is coprime to EXH_CASES, so the picked haystacks spread over both alphabets and all lengths
MIRI_STAGES = [("exhaustive", 48, {"pick-every": 83}), ("tiers", 128, {}), ("split", 16, {}), ("slice", 16, {}), ("text", 16, {})]
MIRI_TIMEOUT_CASE = 900


def _miri_env():
    return {"MIRIFLAGS": MIRI_FLAGS, "CARGO_TARGET_DIR": os.path.join(common.TARGET, "miri")}


def _miri_wrapper():
    """Builds the interpreted worker once and returns a launcher that run_engine can start like a binary."""
    env = dict(common.ENV_BASE)
    env.update(_miri_env())
    t0 = time.time()
    p = subprocess.run(["cargo", "miri", "run", "--offline", "-q", "--bin", "nsworker", "--", "strings", "--stage", "exhaustive", "--count", "0"],
                       cwd=common.HARNESS, env=env, stdout=subprocess.PIPE, stderr=subprocess.STDOUT, text=True)
    if p.returncode != 0 or "Z done" not in p.stdout:
        return None, "\n".join(p.stdout.splitlines()[-15:])
    log(f"[build] miri: {time.time() - t0:.1f}s")
    path = os.path.join(common.VERIF, "run", "miri-nsworker.sh")
    with open(path, "w") as f:
        f.write(f"#!/bin/sh\ncd '{common.HARNESS}' && exec cargo miri run --offline -q --bin nsworker -- \"$@\"\n")
    os.chmod(path, os.stat(path).st_mode | stat.S_IXUSR)
    return path, ""


def _run_miri(seed, per_stage):
    wrapper, err = _miri_wrapper()
    res = common.Result()
    if wrapper is None:
        res.inconclusive.append({"idx": -1, "why": "Miri stage could not be started", "detail": {"output": err[-800:]}})
        return res, set()
    union = set()
    for stage, count, extra in MIRI_STAGES:
        opts = {"stage": stage, "lite": 1}
        opts.update(extra)
        r = run_engine(wrapper, "strings", count, seed, opts, env_extra=_miri_env(), timeout_case=MIRI_TIMEOUT_CASE, build_name="miri", stall_is="inconclusive")
        iso_opts = dict(opts)
        iso_opts.pop("stage")
        _refine(r, wrapper, "miri", stage, seed, extra_opts=iso_opts, env_extra=_miri_env(), timeout=MIRI_TIMEOUT_CASE, max_reruns=4)
        per_stage[f"miri.{stage}"] = {"cases": count, "evaluations": r.evaluations, "distinct_nontrivial": r.distinct_nontrivial,
                                      "failures": len(r.failures), "inconclusive": len(r.inconclusive), "wall_s": round(r.wall, 2)}
        log(f"[C13] miri.{stage}: cases={count} evaluations={r.evaluations} nontrivial={r.distinct_nontrivial} failures={len(r.failures)} "
            f"inconclusive={len(r.inconclusive)} restarts={r.crashes} wall={r.wall:.1f}s")
        union |= getattr(r, "_hashes", set())
        r.samples = []
        res.absorb(r)
    return res, union


def run(tier, seed):
    from . import props  # late: props imports this module
    plan = QUICK if tier == "quick" else THOROUGH
    res = common.Result()
    union = set()
    samples = []
    per_stage = {}
    exhaustive_ok = False
    stalled_somewhere = False
    for build_name, stages in plan.items():
        binary = build(build_name)
        for stage, count in stages:
            if stage != "exhaustive":
                count = max(16, int(count * props.SCALE))
            if stalled_somewhere:
                # one confirmed non-terminating call decides the verdict; every further stage would
                # spend a watchdog period per worker on the same defect
                per_stage[f"{build_name}.{stage}"] = {"cases": 0, "skipped": "a call that does not return was confirmed in an earlier stage"}
                continue
            r, confirmed = _run_stage(binary, build_name, stage, count, seed + SEED_OFFSET[build_name])
            stalled_somewhere = stalled_somewhere or confirmed
            key = f"{build_name}.{stage}"
            per_stage[key] = {"cases": count, "evaluations": r.evaluations, "distinct_nontrivial": r.distinct_nontrivial,
                              "failures": len(r.failures), "inconclusive": len(r.inconclusive), "wall_s": round(r.wall, 2)}
            log(f"[C13] {key}: cases={count} evaluations={r.evaluations} nontrivial={r.distinct_nontrivial} failures={len(r.failures)} "
                f"inconclusive={len(r.inconclusive)} restarts={r.crashes} wall={r.wall:.1f}s")
            if stage == "exhaustive":
                done = r.histogram.get("exhaustive.haystacks_completed", 0)
                complete = (done == EXH_CASES and not r.failures and not r.inconclusive and r.crashes == 0
                            and r.evaluations == EXH_CASES * EXH_EVALS_PER_CASE)
                per_stage[key]["complete"] = complete
                if build_name == next(iter(plan)):
                    exhaustive_ok = complete
                elif not complete:
                    exhaustive_ok = False
            union |= getattr(r, "_hashes", set())
            samples += r.samples[:2]
            r.samples = []
            res.absorb(r)
    if tier == "thorough" and not stalled_somewhere:
        r, hs = _run_miri(seed + 3000003, per_stage)
        union |= hs
        res.absorb(r)
    res.distinct_nontrivial = len(union)
    # one or two written-out cases per stage, preferring variety of operations
    seen_ops = set()
    picked = []
    for s in samples:
        op = s.get("op")
        if op not in seen_ops:
            seen_ops.add(op)
            picked.append(s)
    for s in samples:
        if len(picked) >= 8:
            break
        if s not in picked:
            picked.append(s)
    res.samples = picked[:8]
    res.extra["stages"] = per_stage
    res.extra["exhaustive_space"] = {
        "needles": "all strings of length 0..=6 over the alphabet (127)",
        "haystacks": "all strings of length 0..=10 over the alphabet (2047)",
        "alphabets": ["a b", "a é"],
        "operations": "find; replace with \"\", \"x\", the needle, needle+needle, \"é\"; split+join (non-empty needle)",
        "pairs": 2 * 127 * 2047,
        "ran_completely": exhaustive_ok,
    }
    props.triage(res)
    return finish("C13", tier, seed, "exploration", res, RULE, ASSUMPTIONS, min_nontrivial=100, exhaustive=exhaustive_ok)


def replay(path):
    """`./check C13 --replay F`: re-runs the recorded call and prints oracle and implementation side by side.
    (props.replay() starts an engine called `replay`; until that exists, route C13 here.)"""
    with open(path) as f:
        rec = json.load(f)
    kind = rec.get("build", "dbg")
    if kind not in ("dbg", "rel", "asan"):
        kind = "dbg"
    rp = rec.get("replay", rec)
    binary = build(kind)
    env = dict(common.ENV_BASE)
    env["ASAN_OPTIONS"] = common.ASAN_OPTIONS
    if "op" in rp and rp["op"] != "?":
        cmd = [binary, "strings", "--stage", "replay", "--file", os.path.abspath(path), "--keep-stdout", "1"]
    else:
        # a batch that died before per-call tracing could name the call: re-run the whole batch
        idx = int(rp.get("idx", rec.get("idx", 0)))
        stage = rp.get("opts", {}).get("stage", rp.get("stage", "exhaustive"))
        cmd = [binary, "strings", "--stage", stage, "--seed", str(rp.get("seed", rec.get("seed", 1))), "--start", str(idx), "--count", str(idx + 1), "--keep-stdout", "1"]
    p = subprocess.run(cmd, env=env, cwd=common.VERIF)
    return 1 if p.returncode != 0 else 0


# Entry for vlib/manifest_gen.py CHECKS["C13"] (kept here so that this module is self-contained).
MANIFEST = dict(
    engine="strings",
    technique="runtime monitoring: every public string built-in is called on enumerated and generated inputs and compared with independent re-implementations on std; bounded-exhaustive over a small space; debug, release, AddressSanitizer and Miri builds; a watchdog decides termination",
    text="Held on N calls: find returns the first occurrence (byte offset) or 'not found', returns at all, and never panics, for every needle of length 0..=6 against every haystack of length 0..=10 over {a,b} and {a,é} (exhaustive) and for periodic, near-periodic (a defect at every position), Fibonacci, single-letter and random needles of 1, 2, 3..16 and 17..64 bytes inserted at every position of fillers of up to ~200 bytes that are full of false starts; replace equals left-to-right non-overlapping substitution for five replacement shapes; split then join restores the original and no piece contains the separator; slice/len/trim/to_uppercase/to_lowercase/to_number equal the definitions on grids and mixed-alphabet strings; every result is valid UTF-8; a sample of every class gives the same answers through a script.",
    note="Trusts std (str::find, str::replace, char::is_whitespace, case mapping, f64 formatting) as the reference; the hand-written byte-window scan and substitution loop must agree with std or the case is inconclusive. Calibrations are listed in evidence.assumptions (byte offsets, empty pattern, unspecified to_number spellings are safety-only, NaN slice bounds are safety-only, no 'Σ').",
    design="DESIGN.md §4 C13",
)
