"""C16: captured child output is complete or an error, never silently truncated; the child is not
left running; exit codes; non-captured streams read as null. Engine: proccap."""
import os
import shutil
import tempfile

from . import common, props
from .common import log

RULE = (
    "each run writes a plan for `vhelper emit` (per stream: write(2) calls of chosen chunk sizes, sleeps, early close; "
    "position-coded bytes from disjoint alphabets, optional multi-byte or invalid UTF-8 patches; exit code or hang), runs "
    "command(vhelper).arg(emit).arg(plan) with chosen stdout/stderr policies, max_capture_bytes_per_stream from "
    "{1000..70000}, wait_poll_ms 1-20 and delays injected at the runner's five hook points from {0,1,20,200 ms} through the "
    "real pipeline, and checks against the plan: success => captured text == exactly the bytes written to that stream, "
    "non-captured stream => null, success/exit_code == the child's exit code; more than the cap on a captured stream => "
    "'Process output limit exceeded'; invalid UTF-8 within the cap => 'Process output no be valid UTF-8'; a child that "
    "never finishes (timeout 30-300 ms) => 'Process timeout' (or the limit error when it also wrote too much); after the "
    "call returns the helper's pid must be gone (polled for 5 s). Stage matrix: all nine policy pairs x {under, at, over "
    "cap} x exit codes {0,1,2,127,255} plus 48 directed schedules; stage random: random plans/schedules. "
    "non-trivial = output within +-8192 bytes of the cap on a captured stream, or a non-zero injected delay; "
    "distinct = hash of plan + cap + poll interval + delays + policies"
)

ASSUMPTIONS = [
    "when two error conditions hold at once (over the cap on one stream and invalid UTF-8 on a captured stream; a hanging child that also wrote more than the cap) either corresponding error is accepted; when both captured streams are over the cap and the text contains multi-byte characters, the UTF-8 error is accepted as well (the second stream is cut at an arbitrary byte)",
    "finishing children are only run with timeouts of at least 60 s (they need well under a second); a 'Process timeout' after the timeout really elapsed is inconclusive, before it elapsed a violation; hanging children use timeouts of 30-300 ms and never finish by themselves",
    "a zombie (exited, not yet reaped) is not 'left running'; it is only recorded (histogram key child.zombie_after_return)",
    "a child killed by a signal (exit_code null) is not generated",
    "the interleaving signature (order of first reader_overflow(s), wait_saw_exit, wait_saw_overflow, wait_timeout, reader_eof(s), join_recheck(s) in the runner's event log) is coverage only; the run is reported as broken (exit 3) when the over-cap runs never showed both 'exit seen before the overflow flag was raised' and 'overflow seen by the wait loop'",
]

# (matrix stage is fixed: 135 policy cells + 48 directed schedules + 8 late-exit schedules + 6 failed-read schedules + 8 more: unread 256 KiB stdin with hang / late exit / overflow, streams beginning with U+FEFF or U+2028), random stage per tier
RANDOM = {"quick": 400, "thorough": 10000}
MATRIX = 135 + 48 + 8 + 6 + 8


def run(tier, seed):
    b = common.build("dbg")
    vh = common.vhelper("dbg")
    res = common.Result()
    os.makedirs(os.path.join(common.VERIF, "run"), exist_ok=True)
    for stage, count in (("matrix", MATRIX), ("random", props.n(RANDOM[tier]))):
        d = tempfile.mkdtemp(prefix=f"c16-{stage}-", dir=os.path.join(common.VERIF, "run"))
        try:
            # at most 8 workers: timing-sensitive schedules must not run on a saturated machine
            r = common.run_engine(b, "proccap", count, seed, {"vhelper": vh, "scratch": d, "stage": stage},
                                  nshards=min(8, common.NCPU), build_name="dbg", timeout_case=60, stall_is="failure")
        finally:
            shutil.rmtree(d, ignore_errors=True)
        res.absorb(r)
    props.triage(res)
    sigs = sorted(k[4:] for k in res.histogram if k.startswith("sig."))
    h = res.histogram
    extra = {
        "distinct_interleaving_signatures": len(sigs),
        "over_cap_exit_seen_before_overflow_raised": h.get("order.exit_seen_before_overflow_raised", 0),
        "over_cap_overflow_seen_by_wait_loop": h.get("order.overflow_seen_by_wait_loop", 0),
        "over_cap_overflow_raised_but_exit_seen_first": h.get("order.overflow_raised_but_exit_seen_first", 0),
    }
    rc = common.finish("C16", tier, seed, "exploration", res, RULE, ASSUMPTIONS, min_nontrivial=30, extra_cov=extra)
    if rc == 0:
        if not (extra["over_cap_exit_seen_before_overflow_raised"] and extra["over_cap_overflow_seen_by_wait_loop"]):
            log(f"[C16] BROKEN RUN: the over-cap runs did not show both orderings ({extra}); this is not a pass")
            return 3
        if len(res.inconclusive) > max(5, 0.02 * res.evaluations):
            log(f"[C16] BROKEN RUN: {len(res.inconclusive)} inconclusive cases of {res.evaluations}")
            return 3
    return rc
