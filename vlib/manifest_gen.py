#!/usr/bin/env python3
"""Writes /verif/MANIFEST.json from the table below (python3 vlib/manifest_gen.py)."""
import json
import os

VERIF = os.path.dirname(os.path.dirname(os.path.abspath(__file__)))

CHECKS = {
    "C01": dict(
        engine="sem",
        technique="runtime monitoring: differential execution of generated programs against an independent reference interpreter (oracle needs no expected values)",
        text="Held on N generated programs: every printed value and the ending of the real pipeline (lexer, parser, checker, runtime with frame arena and pruning plan) equal those of a reference interpreter written from the documentation; a generated valid, type-stable program that is rejected is a violation too. Exploration, not proof: the program space is sampled (type-directed generator with five bias profiles), the evidence reports which features the sample exercised.",
        note="Trusts the reference interpreter (harness/src/model/interp.rs) and its calibration list (evidence.assumptions); trusts rustc's f64 formatting, shared by both sides.",
        design="DESIGN.md §4 C01",
    ),
    "C02": dict(
        engine="reclaim",
        technique="runtime monitoring + sanitizer: differential execution (reclamation on/off) on the debug build with poison fills, and AddressSanitizer with arena/pool lifetimes exported through hooks (manual poisoning, plus a quarantine mode)",
        text="Held on N generated programs: (a) outputs and ending with the frame arena and pool recycling active equal those with reclamation off, on the debug build where freed memory is filled with 0xDD; (b) under AddressSanitizer every byte of the arenas that is not currently handed out is poisoned, so a read or write of reclaimed memory traps at the instruction, independent of whether the bytes are printed; (c) the same with quarantine, where reclaimed memory is never re-issued, closing the free/re-issue/stale-read gap. The evidence reports how many frame resets, pool returns and free-list reuses the sample actually produced.",
        note="Trusts the hooks' poison bookkeeping (src/verif.rs, bump.rs, pool.rs under cfg(feature=verif)); std is not instrumented in the ASan build.",
        design="DESIGN.md §4 C02",
    ),
    "C03": dict(
        engine="prune",
        technique="runtime monitoring: differential execution with and without the optimisation plan plus an online check on hooked statement ids (executed must be a subset of reachable)",
        text="Held on N generated programs biased towards dead stores, unused variables, code after return/comot/next, callees that read or conditionally write captured variables and operations that fail at run time in unused positions: outputs and ending with pruning equal those without, and no statement the reachability analysis calls unreachable was executed in the unpruned run. The evidence counts statements actually skipped at run time.",
        note="Same interpreter on both sides; trusts the statement-id hook in exec_block_with_flow.",
        design="DESIGN.md §4 C03",
    ),
    "C06": dict(
        engine="crash",
        technique="runtime monitoring: exit status / panic hook of isolated worker processes over an exhaustively enumerated route x position x run-time-type product plus random type confusion",
        text="Held on the complete product (regenerated on every run, ~24k programs) of 8 routes by which a dynamically typed value reaches ~240 operator/condition/index/method/argument positions with each of 7 run-time types, on forward calls before a captured declaration, and on N random type-confused programs: every program the checker accepts ends normally or with a reported runtime error; no panic, abort or signal of the interpreter. The product is finite and enumerated completely (exhaustive over the templates), the compositions beyond it are sampled.",
        note="Allocation-failure aborts with plausible sizes and watchdog kills are resource outcomes (inconclusive), a failed allocation of >= 1 TiB counts as memory corruption (violation).",
        design="DESIGN.md §4 C06, appendix C",
    ),
    "C07": dict(
        engine="front",
        technique="runtime monitoring: span/render predicate and panic hook over an exhaustively enumerated token x neighbour adjacency matrix plus prefixes, deletions, token mutations and random text; AddressSanitizer build in the thorough tier",
        text="Held on N inputs: lexing, parsing and (after a clean parse, as shipped) static checking return without panic, abort, signal or sanitizer report; every diagnostic and label span satisfies start <= end <= len on character boundaries; the whole set renders to valid UTF-8; no input stalls a worker. The adjacency matrix (token kind x multi-byte/blank/control neighbour x position x host) is enumerated completely, the rest is sampled.",
        note="Inputs are <= ~1 KiB. The execution clause of the property (only texts without error diagnostics run) is checked through the CLI in C14.",
        design="DESIGN.md §4 C07, appendix D",
    ),
    "C09": dict(
        engine="static",
        technique="runtime monitoring of the checker's verdicts: single-rule violation injection over an exhaustively enumerated rule x nesting-context matrix plus random hosts, with the expected category taken from the documented rule",
        text="Held on the complete matrix (89 snippets x 16 nesting contexts, regenerated on every run) and on N random hosts: every snippet that breaks exactly one documented static rule in its context is rejected with an error diagnostic of that rule's category, every snippet that is valid in its context (controls, comot inside a loop of the same function body, return inside a function) and every generated valid host is accepted. Together with C01/C04/C05 (a rejected valid generated program is a violation there) this covers both directions of the 'if and only if'.",
        note="Type rules are asserted on literals and literal-declared variables only. The expected verdict per cell comes from the documented rules, written down in harness/src/engines/staticck.rs.",
        design="DESIGN.md §4 C09, appendix B",
    ),
    "C10": dict(
        engine="layout",
        technique="runtime monitoring: metamorphic comparison of a program with its own token-preserving re-layouts (token identity checked with the crate's lexer as a precondition)",
        text="Held on N generated programs x 9 variants: single line, one token per line (LF, CRLF, CR), tabs, no blank where none is needed, comments after random tokens with each line ending, random white-space/comment mixtures including split multi-word keywords, and redundant parentheses: acceptance, printed values and ending equal those of the conventional layout. One program in ten is statically invalid and must be rejected alike.",
        note="Oracle is the program itself. A re-layout that does not lex to the identical token sequence is discarded and counted, never reported.",
        design="DESIGN.md §4 C10",
    ),
    "C14": dict(
        engine="ship",
        technique="runtime monitoring: differential execution of the real CLI binary (three input modes) and of a native derivation of the playground entry point against the library pipeline with isolated arenas; sequence-versus-alone comparison for run independence",
        text="Held on N generated programs (passing, statically rejected, ending in each runtime error, Stack overflow, commit/decommit-forcing): the `naija` binary prints byte for byte what the library pipeline computes and exits 0 exactly on success, in file, --eval and stdin mode, and never executes a rejected text; and on M back-to-back sequences through the playground wiring every element equals its result in a fresh process and a repeated run equals the first.",
        note="The playground is a native derivation of wasm/src/lib.rs (build.rs drops the three wasm-only lines and shims ansi_to_html::convert to the identity); wasm-specific memory and stack code is not executed.",
        design="DESIGN.md §4 C14",
    ),
    "C15": dict(
        engine="procspec",
        technique="runtime monitoring: an echoing helper child reports argv/env/cwd/stdin to a side file and leaves a spawn marker; compared with the generator's own record of the builder calls; caps probed at limit-1/limit/limit+1",
        text="Held on N commands: the helper child received exactly the program name, argument strings (count and bytes; shell metacharacters, white space, empty and multi-byte strings verbatim, canary arguments never interpreted), working directory, environment overrides (last write per key wins, everything else inherited) and stdin bytes that the script configured; every cap of ProcessCaps and the timeout bounds reject exactly above the limit and accept at and below it; commands with NUL bytes, `=` in a key, empty program/cwd/key, or any command under allow_process=false are refused with the matching runtime error and leave no spawn marker.",
        note="Assumptions about points the property does not fix (empty arguments allowed, what counts towards each cap, double faults) are listed in evidence.assumptions.",
        design="DESIGN.md §4 C15",
    ),
    "C16": dict(
        engine="proccap",
        technique="runtime monitoring with schedule perturbation: position-coded child output checked against the plan, pid liveness after errors, and an event-log monitor (hooked runner events, injected delays at five points) that measures which reader/wait-loop interleavings were actually observed",
        text="Held on N runs over all nine stdout/stderr policy pairs x {under, at, over cap} x exit codes, chunk sizes around the 8 KiB read and 64 KiB pipe sizes, child-side sleeps/linger/early close and injected delays in the reader threads, the poll loop and before the join: a success carries exactly the bytes written to that stream and nothing of the other; over-cap output, invalid UTF-8 and a child running past its timeout end with the corresponding runtime error and the child is gone afterwards; exit codes are reported exactly; non-captured streams read as null. The evidence reports the distinct interleaving signatures seen; the run is declared broken (exit 3) unless both 'exit seen before overflow raised' and 'overflow seen by the wait loop' occurred.",
        note="Kernel scheduling is perturbed, not enumerated. Timeouts used with finishing children are >= 30 s; the band around the timeout is never generated. Process trees (grandchildren holding the pipe) are not generated.",
        design="DESIGN.md §4 C16",
    ),
    "C08": dict(
        engine="python (vlib/p_c08.py) driving the real naija binaries",
        technique="runtime monitoring of process exit status: recursion and nesting shapes x a depth ladder with bisection of each transition x debug and release CLI builds under an explicit 8 MiB RLIMIT_STACK",
        text="Held on N runs: for every recursion shape (direct, mutual, through arguments, conditions, indexes, array literals, built-in arguments, interpolation, with 0-32 locals and 0-8 parameters, inside nested statements) at every probed depth the process ends normally or with the 'Stack overflow' runtime error, in both build profiles. Syntactic nesting shapes crash the unguarded parser/checker natively from a measured depth; those are genuine defects recorded as known findings, keyed by (shape, phase, profile), so that a crash of any other shape or phase (e.g. a recursion shape the runtime guard no longer catches) is still a violation. The evidence lists per shape and profile the largest depth that completed and what happened above it.",
        note="Depth is sampled (ladder + bisection), not exhausted. Allocation-failure aborts and 120 s watchdog kills are resource outcomes (inconclusive). Children run with a fixed environment and ASLR disabled (setarch -R) so thresholds are repeatable.",
        design="DESIGN.md §4 C08, §6",
    ),
    "C17": dict(
        engine="python (vlib/p_c17.py) driving the real naija binaries",
        technique="runtime monitoring at the process boundary: an echo script run under 16 input-delivery schedules (file, pipe in one write, fixed/random chunk sizes with pauses, boundaries around every newline, pty), oracle text.split on the input; strace records the read sizes actually returned",
        text="Held on N runs: the k-th read_line call returned the k-th line of the input without its newline, then the final partial line, then empty strings, for 0-40 lines of lengths up to 70 000 bytes with 1-4-byte characters, with and without final newline, however the bytes were split across writes. The evidence measures (strace) in how many runs several lines arrived in one read, a line was split across reads, or a read boundary fell inside a multi-byte character.",
        note="`\\r` is not generated (the property does not say whether it belongs to the terminator); invalid UTF-8 only has to end without a crash.",
        design="DESIGN.md §4 C17",
    ),
    "C18": dict(
        engine="limits",
        technique="runtime monitoring of the analysis pipeline around each default cap: program families sized by search on the observed metric to cap-1/cap/cap+1, contract evaluated on observed warnings, plan, skipped statements (hook) and output",
        text="Held on 11 metric families x {below, at, above}: every program is accepted and prints exactly its known result; within all caps the analyses run as usual (sentinel warnings, plan, statements skipped at run time), above any cap there is exactly one resource-limit warning and no analysis warning, plan or pruning; the crate's limit decision agrees with the caps. The evidence table shows which bound actually fires around each cap (some caps are pre-empted by derived bounds).",
        note="Library run with 16 GiB arenas; the thorough tier also runs the within-cap programs through the release CLI (256 MiB scratch arenas). Two families are skipped in the quick tier because the resolver needs minutes on them.",
        design="DESIGN.md §4 C18",
    ),
    "C04": dict(
        engine="sem",
        technique="runtime monitoring: generated scope-heavy programs with site-unique values against a reference interpreter with real lexical closures",
        text="Held on N generated programs that reuse a handful of names across nested blocks, loops, functions, recursion and captures: the value printed at every read names the declaration site that the lexical rule selects. The runtime under test resolves names by searching a dynamic scope stack; the reference uses closures over block activations, so a dynamic-vs-lexical or wrong-id bug shows as a different site id in the output.",
        note="Same trusted base as C01; one name always has one type in this profile (see DESIGN.md §6, known finding on return-type inference through shadowed names).",
        design="DESIGN.md §4 C04",
    ),
    "C05": dict(
        engine="sem",
        technique="runtime monitoring: every array variable in scope is dumped after every mutation and compared with a value-semantics reference interpreter",
        text="Held on N generated programs: after each push/pop/reverse/indexed write, the printed state of every live array variable equals the model's, so a mutation visible through another name, a lost element or a recycled element string changes the output. Debug build adds arena/pool poison fills (0xDD) that turn stale element reads into visibly different bytes.",
        note="Same trusted base as C01.",
        design="DESIGN.md §4 C05",
    ),
}

NOT_YET = {
}

ALL = [f"C{i:02d}" for i in range(1, 19)]


def main():
    import importlib
    import sys
    sys.path.insert(0, VERIF)
    for pid in ALL:
        if pid in CHECKS:
            continue
        try:
            m = importlib.import_module(f"vlib.p_{pid.lower()}")
        except ModuleNotFoundError:
            continue
        if hasattr(m, "MANIFEST"):
            CHECKS[pid] = dict(m.MANIFEST)
    checks = []
    for pid in ALL:
        c = CHECKS.get(pid)
        if not c:
            continue
        checks.append({
            "property_id": pid,
            "quick_cmd": f"./check {pid} --tier quick",
            "thorough_cmd": f"./check {pid} --tier thorough",
            "evidence_file": f"/verif/evidence/{pid}.json",
            "replay_cmd_template": f"./check {pid} --replay {{path}}",
            "engine": c["engine"],
            "level_claimed": {"category": c.get("category", "exploration"), "text": c["text"], "design_ref": c["design"]},
            "level_note": c["note"],
            "technique": c["technique"],
        })
    na = []
    for pid in ALL:
        if pid not in CHECKS:
            na.append({"property_id": pid, "reason": NOT_YET.get(pid, "check not built yet in this round; runtime monitoring applies (see DESIGN.md §4) and the check is planned")})
    manifest = {
        "version": 1,
        "setup_cmd": "./check setup",
        "hooks": {
            "guard": "cargo feature `verif` (and `verif-asan` for the AddressSanitizer lifetime export) in /repo/Cargo.toml; all hook code is behind #[cfg(feature = \"verif\")]",
            "enable": "the harness crate /verif/harness depends on naijascript with features=[\"verif\"] (\"verif-asan\" via its own `asan` feature); the CLI builds used by C08/C14/C17/C18 (cli-dbg, cli-rel) are built without the feature; the additional AddressSanitizer build of the CLI used by C14 (cli-asan) enables `verif-asan` on the command line",
            "baseline_off_cmd": "cd /repo && cargo nextest run --workspace --no-fail-fast --offline --test-threads 8",
            "source_commits": ["bca2e77"],
            "add_only": True,
        },
        "engines": [
            {"name": "nsworker", "path": "/verif/harness", "serves_properties": sorted(CHECKS), "kind_free_text": "Rust binary linking /repo with the verif feature; one sub-command per engine; orchestrated by /verif/check (python3)"},
        ],
        "checks": checks,
        "not_applicable": na,
        "notes": "Technique family: runtime monitoring and sanitizers. Every check observes executions of the real code; verdicts are three-valued (violated / held on what was observed / inconclusive), a run that observed too little exits 3 without a VIOLATION line. Genuine defects found are repaired by `fix:` commits in /repo or listed in /verif/known_findings.json (see DESIGN.md §6).",
    }
    with open(os.path.join(VERIF, "MANIFEST.json"), "w") as f:
        json.dump(manifest, f, indent=1)
    print("wrote MANIFEST.json with", len(checks), "checks;", len(na), "not claimed")


if __name__ == "__main__":
    main()
