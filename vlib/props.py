"""One function per property: workload sizes, engines, non-triviality rules, evidence."""
import json
import os
import subprocess
import sys

from . import common
from .common import build, run_engine, finish, log

TRIAGE = False
SCALE = 1.0

MODEL_ASSUMPTIONS = [
    "reference interpreter written from docs/*.md; where the docs are silent it is calibrated to the pinned tree: numeric `na` uses |a-b| <= 1e-12; null is unequal/unordered to everything but null; false < true; strings order bytewise; array print format [1, \"s\", [..]]; indexed assignment evaluates the right-hand side before the index chain; find returns a byte offset; a literal without any `{` is taken verbatim (`}}` stays two characters)",
    "number formatting and f64 `%` are shared with the implementation (both are Rust's)",
    "generator stays inside the documented, type-stable subset: one type per variable, functions return one type on every path, no NaN/inf comparisons by construction, no escapes together with braces in one literal, no CR inside literals",
]


def n(x):
    return max(1, int(x * SCALE))


def triage(res):
    if not TRIAGE:
        return
    by = {}
    for f in res.failures:
        by.setdefault(f["sig"], []).append(f)
    for sig, recs in sorted(by.items(), key=lambda kv: -len(kv[1])):
        recs.sort(key=lambda r: len(json.dumps(r.get("replay", {}))))
        r = recs[0]
        print(f"==== {len(recs)}x  {sig}   [build {r.get('build')}] idx={r.get('idx')}")
        print("detail:", json.dumps(r.get("detail"), ensure_ascii=False)[:1500])
        src = r.get("replay", {}).get("src")
        if src:
            print("--- src ---")
            print(src[:3000])
    for r in res.inconclusive[:10]:
        print("INCONCLUSIVE", json.dumps(r, ensure_ascii=False)[:600])
    print("histogram:", json.dumps(dict(sorted(res.histogram.items())), ensure_ascii=False)[:3000])


def setup():
    for kind in ("dbg", "rel", "asan", "cli-dbg", "cli-rel"):
        build(kind)
    return 0


def replay(prop, path):
    # properties living in their own module may bring their own replay (vlib/p_cXX.py: replay(path))
    mod = sys.modules.get(f"vlib.p_{prop.lower()}")
    if mod is not None and hasattr(mod, "replay"):
        return mod.replay(path)
    with open(path) as f:
        rec = json.load(f)
    rp = rec.get("replay", {})
    kind = rec.get("build", "dbg")
    if kind not in ("dbg", "rel", "asan"):
        kind = "dbg"
    binary = build(kind)
    tmp = os.path.join(common.VERIF, "run", "replay.json")
    with open(tmp, "w") as f:
        json.dump(rp, f)
    env = dict(common.ENV_BASE)
    env["ASAN_OPTIONS"] = common.ASAN_OPTIONS
    p = subprocess.run([binary, "replay", "--file", tmp, "--prop", prop, "--keep-stdout", "1"], env=env, cwd=common.VERIF)
    return 1 if p.returncode != 0 else 0


# ---------------------------------------------------------------------------

def _sem(prop, tier, seed, profile, quick_n, thorough_rel, thorough_dbg, rule):
    res = common.Result()
    if tier == "quick":
        b = build("dbg")
        res.absorb(run_engine(b, "sem", n(quick_n), seed, {"prop": prop, "profile": profile}, build_name="dbg"))
    else:
        b = build("rel")
        res.absorb(run_engine(b, "sem", n(thorough_rel), seed, {"prop": prop, "profile": profile}, build_name="rel"))
        b = build("dbg")
        res.absorb(run_engine(b, "sem", n(thorough_dbg), seed + 1000003, {"prop": prop, "profile": profile}, build_name="dbg"))
    triage(res)
    return finish(prop, tier, seed, "exploration", res, rule, MODEL_ASSUMPTIONS, min_nontrivial=50)


def c01(tier, seed):
    return _sem("C01", tier, seed, "mix", 40000, 1500000, 200000,
                "programs generated type-directed from the documented language (profiles core/scope/array/mem/dead mixed 4:2:2:1:1), printed to text, run through lexer+parser+checker+runtime and compared with the reference interpreter on the printed sequence and the ending; non-trivial = at least 3 distinct feature tags among {loop control, user function, recursion, interpolation, method, index write, short-circuit, error ending, capture, shadowing, array copy then mutation}; distinct = hash of the source text")


def c04(tier, seed):
    return _sem("C04", tier, seed, "scope", 40000, 1000000, 100000,
                "scope-profile programs (few names reused in every scope, shadowing, same-block redeclaration, captures read and written, forward references, nested and recursive functions, placeholders) against a reference interpreter with real lexical environments; every literal is unique so the output names the binding that was read; non-trivial = at least one shadowing declaration, at least one captured variable read or written from a nested function and at least two calls; distinct = hash of the source text")


def c05(tier, seed):
    return _sem("C05", tier, seed, "array", 30000, 800000, 100000,
                "array-profile programs: copies through assignment, element store, argument and return, then push/pop/reverse/indexed writes at depth <= 2 inside loops and callees, with every array variable in scope printed after every mutation; compared with a value-semantics reference interpreter; non-trivial = an array variable was copied and a mutation happened afterwards; distinct = hash of the source text")


CHECKS = {
    "C01": c01,
    "C04": c04,
    "C05": c05,
}

# Properties whose check lives in its own module vlib/p_cXX.py (function run(tier, seed)).
import importlib  # noqa: E402

for _i in range(1, 19):
    _pid = f"C{_i:02d}"
    if _pid in CHECKS:
        continue
    try:
        _m = importlib.import_module(f"vlib.p_{_pid.lower()}")
    except ModuleNotFoundError:
        continue
    CHECKS[_pid] = _m.run
