"""One function per property: workload sizes, engines, non-triviality rules, evidence."""
import json
import os
import subprocess
import sys

from . import common
from .common import build, run_engine, finish, log

TRIAGE = False
SCALE = 1.0

MODEL_ASSUMPTIONS = [
    "reference interpreter written from docs/*.md; where the docs are silent it is calibrated to the pinned tree: numeric `na` uses |a-b| <= 1e-12; null is unequal/unordered to everything but null; false < true; strings order bytewise; array print format [1, \"s\", [..]]; indexed assignment evaluates the right-hand side before the index chain; find returns a byte offset; a literal without any `{` is taken verbatim (`}}` stays two characters)",
    "number formatting and f64 `%` are shared with the implementation (both are Rust's)",
    "generator stays inside the documented, type-stable subset: one type per variable, functions return one type on every path, no NaN/inf comparisons by construction, no escapes together with braces in one literal, no CR inside literals",
]


def n(x):
    return max(1, int(x * SCALE))


def triage(res):
    if not TRIAGE:
        return
    by = {}
    for f in res.failures:
        by.setdefault(f["sig"], []).append(f)
    for sig, recs in sorted(by.items(), key=lambda kv: -len(kv[1])):
        recs.sort(key=lambda r: len(json.dumps(r.get("replay", {}))))
        r = recs[0]
        print(f"==== {len(recs)}x  {sig}   [build {r.get('build')}] idx={r.get('idx')}")
        print("detail:", json.dumps(r.get("detail"), ensure_ascii=False)[:1500])
        src = r.get("replay", {}).get("src")
        if src:
            print("--- src ---")
            print(src[:3000])
    for r in res.inconclusive[:10]:
        print("INCONCLUSIVE", json.dumps(r, ensure_ascii=False)[:600])
    print("histogram:", json.dumps(dict(sorted(res.histogram.items())), ensure_ascii=False)[:3000])


def setup():
    for kind in ("dbg", "rel", "asan", "cli-dbg", "cli-rel", "cli-asan"):
        build(kind)
    return 0


def replay(prop, path):
    """Re-runs one recorded case with the worker that found it and shows what it reports."""
    with open(path) as f:
        rec = json.load(f)
    kind = rec.get("build", "dbg")
    quarantine = kind == "asan-quarantine"
    if kind.startswith("asan"):
        kind = "asan"
    if kind not in ("dbg", "rel", "asan"):
        kind = "dbg"
    m = CHECKS.get(prop)
    mod = sys.modules.get(getattr(m, "__module__", ""))
    mod_replay = getattr(mod, "replay", None) if mod is not sys.modules[__name__] else None
    if mod_replay is not None:
        return mod_replay(path)
    binary = build(kind)
    env = dict(common.ENV_BASE)
    env["ASAN_OPTIONS"] = common.ASAN_OPTIONS
    rp = rec.get("replay", {}) if isinstance(rec.get("replay"), dict) else {}
    if rp.get("engine") in ("procspec", "proccap") and "idx" in rp:
        # child-process cases are regenerated from (engine, stage, seed, index) and run once more
        import shutil
        import tempfile
        os.makedirs(os.path.join(common.VERIF, "run"), exist_ok=True)
        d = tempfile.mkdtemp(prefix="replay-", dir=os.path.join(common.VERIF, "run"))
        try:
            idx = int(rp["idx"])
            cmd = [build("dbg"), rp["engine"], "--seed", str(rp.get("seed", rec.get("seed", 1))), "--shard", "0", "--nshards", "1",
                   "--start", str(idx), "--count", str(idx + 1), "--stage", str(rp.get("stage", "random")),
                   "--vhelper", common.vhelper("dbg"), "--scratch", d, "--keep-stdout", "1"]
            p = subprocess.run(cmd, env=env, cwd=common.VERIF, stdout=subprocess.PIPE, stderr=subprocess.PIPE, text=True, errors="replace", timeout=600)
        finally:
            shutil.rmtree(d, ignore_errors=True)
        fails = [line for line in p.stdout.splitlines() if line.startswith("F ")]
        for line in fails[:3]:
            print(line[:1500])
        if "Z done" not in p.stdout:
            print(f"replay of {path}: the worker did not finish ({p.stderr[-300:]!r}); no verdict")
            return 3
        if fails:
            print(f"VIOLATION property={prop} replay={path}")
            return 1
        print(f"replay of {path}: the recorded case no longer fails")
        return 0
    cmd = [binary, "replay", "--file", path, "--keep-stdout", "1"]
    if quarantine:
        cmd += ["--quarantine", "1"]
    p = subprocess.run(cmd, env=env, cwd=common.VERIF, stdout=subprocess.PIPE, stderr=subprocess.PIPE, text=True, errors="replace")
    sys.stdout.write(p.stdout[-20000:])
    sys.stderr.write(p.stderr[-6000:])
    if "Z done" not in p.stdout and not any(line.startswith("F ") for line in p.stdout.splitlines()):
        print(f"replay of {path}: the worker could not replay this record; no verdict")
        return 3
    failed = p.returncode != 0 or any(line.startswith("F ") for line in p.stdout.splitlines())
    if failed:
        print(f"VIOLATION property={prop} replay={path}")
        return 1
    print(f"replay of {path}: the recorded case no longer fails")
    return 0


# ---------------------------------------------------------------------------

def _sem(prop, tier, seed, profile, quick_n, thorough_rel, thorough_dbg, rule):
    res = common.Result()
    if tier == "quick":
        b = build("dbg")
        res.absorb(run_engine(b, "sem", n(quick_n), seed, {"prop": prop, "profile": profile}, build_name="dbg"))
    else:
        b = build("rel")
        res.absorb(run_engine(b, "sem", n(thorough_rel), seed, {"prop": prop, "profile": profile}, build_name="rel"))
        b = build("dbg")
        res.absorb(run_engine(b, "sem", n(thorough_dbg), seed + 1000003, {"prop": prop, "profile": profile}, build_name="dbg"))
    triage(res)
    return finish(prop, tier, seed, "exploration", res, rule, MODEL_ASSUMPTIONS, min_nontrivial=50)


def c01(tier, seed):
    return _sem("C01", tier, seed, "mix", 40000, 1500000, 200000,
                "programs generated type-directed from the documented language (profiles core/scope/array/mem/dead mixed 4:2:2:1:1), printed to text, run through lexer+parser+checker+runtime and compared with the reference interpreter on the printed sequence and the ending; non-trivial = at least 3 distinct feature tags among {loop control, user function, recursion, interpolation, method, index write, short-circuit, error ending, capture, shadowing, array copy then mutation}; distinct = hash of the source text")


def c04(tier, seed):
    return _sem("C04", tier, seed, "scope", 40000, 1000000, 100000,
                "scope-profile programs (few names reused in every scope, shadowing, same-block redeclaration, captures read and written, forward references, nested and recursive functions, placeholders) against a reference interpreter with real lexical environments; every literal is unique so the output names the binding that was read; non-trivial = at least one shadowing declaration, at least one captured variable read or written from a nested function and at least two calls; distinct = hash of the source text")


def c05(tier, seed):
    return _sem("C05", tier, seed, "array", 30000, 800000, 100000,
                "array-profile programs: copies through assignment, element store, argument and return, then push/pop/reverse/indexed writes at depth <= 2 inside loops and callees, with every array variable in scope printed after every mutation; compared with a value-semantics reference interpreter; non-trivial = an array variable was copied and a mutation happened afterwards; distinct = hash of the source text")


def c02(tier, seed):
    res = common.Result()
    dbg = build("dbg")
    asan = build("asan")
    if tier == "quick":
        res.absorb(run_engine(dbg, "reclaim", n(60000), seed, {"mode": "diff"}, build_name="dbg"))
        res.absorb(run_engine(asan, "reclaim", n(6000), seed + 1, {"mode": "asan"}, build_name="asan"))
        res.absorb(run_engine(asan, "reclaim", n(6000), seed + 2, {"mode": "asan", "quarantine": 1}, build_name="asan-quarantine"))
    else:
        res.absorb(run_engine(dbg, "reclaim", n(1000000), seed, {"mode": "diff"}, build_name="dbg"))
        res.absorb(run_engine(asan, "reclaim", n(200000), seed + 1, {"mode": "asan"}, build_name="asan"))
        res.absorb(run_engine(asan, "reclaim", n(200000), seed + 2, {"mode": "asan", "quarantine": 1}, build_name="asan-quarantine"))
    # (d) process results as program data: the C16 scripts (captured output bound to a local, returned,
    # pushed into an outer array from a loop body, read after unrelated string work) on the ASan build
    import shutil
    import tempfile
    d = tempfile.mkdtemp(prefix="c02-proc-", dir=os.path.join(common.VERIF, "run"))
    try:
        vh = common.vhelper("dbg")
        res.absorb(run_engine(asan, "proccap", n(160 if tier == "quick" else 4000), seed + 3, {"vhelper": vh, "scratch": d, "stage": "random"},
                              nshards=min(8, common.NCPU), build_name="asan-process-results", timeout_case=90))
    finally:
        shutil.rmtree(d, ignore_errors=True)
    triage(res)
    return finish("C02", tier, seed, "exploration", res,
                  "mem-biased generated programs (run-time strings with lengths straddling the pool size classes, stored/overwritten in loops, passed, returned, captured; arrays of strings crossing frame resets) executed three ways: (a) debug build, reclamation on vs off on the same AST, outputs and ending compared bytewise (freed memory is filled with 0xDD/0xCD there); (b) AddressSanitizer build in which the arena and pool hooks poison every byte that is not handed out, so a read or write of reclaimed memory traps at the instruction; (c) as (b) with quarantine: reclaimed memory is never re-issued, which also catches free -> re-issue -> stale read; (d) the child-process scripts of C16 (engine proccap, random stage: captured output of up to 70 kB bound to a local, returned from a function, extracted into an array, pushed into an outer array from a loop body, read after unrelated string work) on the AddressSanitizer build. Non-trivial = at least one frame reset, one pool slot returned and (outside quarantine) one slot re-issued from the free list in a program that builds strings at run time; distinct = hash of the source text",
                  ["both sides of (a) are the same interpreter, so the oracle needs no model; the model is only used to discard non-terminating or oversized programs",
                   "std is not instrumented in the ASan build (no build-std): a stale read that happens only inside precompiled core::fmt is seen through the intercepted memcpy/memcmp or by (a)",
                   "ASAN_OPTIONS=detect_stack_use_after_return=0 (the interpreter's own stack probe needs real stack addresses), detect_leaks=0 (arenas never free)",
                   "runs ending in the interpreter's Stack overflow error are not compared (the off mode uses more memory per frame)"],
                  min_nontrivial=50)


def c03(tier, seed):
    res = common.Result()
    rp = run_engine(build("dbg"), "prune", 1000000, seed, {"stage": "product"}, build_name="dbg")
    product = {k: rp.extra.get(k) for k in ("product_size", "product_operations", "product_positions", "live_store_programs")}
    res.absorb(rp)
    if tier == "quick":
        res.absorb(run_engine(build("dbg"), "prune", n(60000), seed, {}, build_name="dbg"))
    else:
        res.absorb(run_engine(build("rel"), "prune", n(1500000), seed, {}, build_name="rel"))
        res.absorb(run_engine(build("dbg"), "prune", n(150000), seed + 7, {}, build_name="dbg"))
    triage(res)
    res.extra.update(product)
    return finish("C03", tier, seed, "exploration", res,
                  "stage product (enumerated completely on every run): 47 operations that can end a run with a runtime error or that have an effect other than their value (division and remainder by zero written 0, 0.0, 00.00, computed, through a variable; failing indexes; every operator class, condition, method, index, slice bound and built-in applied to an operand whose type is only known at run time and does not fit; pop/push/reverse/indexed assignment, assignment of a captured variable directly, two calls down and behind a flag, printing, process-command mutation inside a callee) x 19 positions whose value is never used (write-only variable assigned once, twice, in a loop; unused declaration, overwritten declaration/assignment, assignment never read again, array element, argument of a pure call or built-in, operand, function body, function called only from a dead store, loop body, if arm, nested block, branch merge, before a return, short-circuited away); each program is run with and without the plan and must print the same values and end the same way; plus 144 programs whose store IS read, but only in a later basic block (after an if / if-else / loop, on the next iteration, in a function, through a callee, out of nested blocks), with 0 to 300 other locals declared in front of it (the analyses' per-function bit sets have 64-bit words). Stage random: dead-biased generated programs (dead stores, unused variables, code after return/comot/next, functions called only from dead code, callees that read or conditionally write captured variables, recursion, failing operations) executed with the optimisation plan and without it on the same AST and facts; printed values and ending compared; in the unpruned run every executed statement id (hook) must be marked reachable by analysis::reachability. Non-trivial = the plan is non-empty, at least one statement was actually skipped at run time and the program printed something; distinct = hash of the source text",
                  ["same interpreter twice; the model is only used to discard non-terminating programs",
                   "runs ending in the interpreter's Stack overflow error are not compared (as the property says)"],
                  min_nontrivial=50)


def c06(tier, seed):
    res = common.Result()
    dbg = build("dbg")
    r = run_engine(dbg, "crash", 1000000, seed, {"stage": "product"}, build_name="dbg", timeout_case=60)
    product = r.extra.get("product_size")
    res.absorb(r)
    rp = run_engine(build("rel"), "crash", 1000000, seed, {"stage": "pressure"}, build_name="rel", timeout_case=120)
    pressure = rp.extra.get("pressure_size")
    res.absorb(rp)
    if tier == "quick":
        res.absorb(run_engine(dbg, "crash", n(20000), seed, {"stage": "random"}, build_name="dbg", timeout_case=30))
    else:
        rel = build("rel")
        res.absorb(run_engine(rel, "crash", 1000000, seed, {"stage": "product"}, build_name="rel", timeout_case=60))
        res.absorb(run_engine(rel, "crash", n(300000), seed, {"stage": "random"}, build_name="rel", timeout_case=30))
        res.absorb(run_engine(dbg, "crash", n(60000), seed + 5, {"stage": "random"}, build_name="dbg", timeout_case=30))
    triage(res)
    res.extra["product_size"] = product
    res.extra["pressure_size"] = pressure
    return finish("C06", tier, seed, "exploration", res,
                  "stage product (enumerated completely on every run): 8 routes by which a value whose type is only known at run time reaches a position {parameter, array element, pop() result, function with mixed return types, variable reassigned to another type, uninitialised variable later assigned, index of a literal, no route (literal)} x ~230 positions {each of the 10 binary operators x lhs/rhs/both x other operand of each type, not, unary minus, if/jasi condition, index base/value, indexed-assignment base/value, receiver of each of 33 methods with correct/too few/too many arguments, typed method arguments, global built-ins, process builder arguments, interpolation, array literal, user call} x 7 run-time types {number, string, boolean, null, array, process_command, process_result}, plus forward calls before a captured variable is declared, loop control in a function defined inside a loop, and functions that fall off the end; each program goes through the checker and only accepted ones run; a panic/abort/signal of the worker is a violation. Stage pressure (enumerated completely): per string-pool size class (largest and smallest size of the class, plus one size above the largest class) x 3 release patterns, a program that keeps more strings of that class alive than the class has slots, releases them all (indexed overwrite / pop / churn of one variable in a function) and fills the class again; no crash, and exactly the strings the program built. Stage random: generated programs with 1-3 sub-expressions replaced by a value of another run-time type behind `[v][0]`. Non-trivial = accepted by the checker and the marker `shout(\"before\")` placed immediately before the probed position was printed; distinct = hash of the source text",
                  ["allocation-failure aborts and watchdog kills are resource outcomes (inconclusive), not crashes",
                   "a panic is attributed by message (digits normalised) and enclosing function of the panic location"],
                  min_nontrivial=500, exhaustive=True)


def _fuzz_front(seed, runs):
    """C07 stage F: libFuzzer (ASan) with the same span/render oracle inside the target."""
    import glob
    import re
    import shutil
    import tempfile
    import time
    res = common.Result()
    res.builds.append("fuzz-asan")
    binary = build("fuzz")
    work = tempfile.mkdtemp(prefix="fuzz-", dir=os.path.join(common.VERIF, "run"))
    t0 = time.time()
    try:
        corpus = os.path.join(work, "corpus")
        os.makedirs(corpus)
        k = 0
        for f in sorted(glob.glob("/repo/examples/*.ns")) + sorted(glob.glob("/repo/tests/stress/*.ns")):
            with open(f, "rb") as fh:
                data = fh.read()[:1024]
            with open(os.path.join(corpus, f"seed{k}"), "wb") as fh:
                fh.write(data)
            k += 1
        for text in ["make x get 1\nshout(x)\n", "do f(a) start\nreturn a add 1\nend\nshout(f(1))\n", "shout(\"{x} \\n\")", "jasi (true) start comot end", "if to say (1 small pass 2) start end if not so start end", "1.", "\"a\\"]:
            with open(os.path.join(corpus, f"seed{k}"), "w") as fh:
                fh.write(text)
            k += 1
        env = dict(common.ENV_BASE)
        env["ASAN_OPTIONS"] = "detect_leaks=0:detect_stack_use_after_return=0:abort_on_error=1"
        cmd = [binary, corpus, f"-dict={os.path.join(common.HARNESS, 'fuzz', 'front.dict')}", f"-seed={seed}", f"-runs={runs}", "-timeout=10",
               "-max_len=1024", f"-fork={common.NCPU}", "-ignore_crashes=1", "-ignore_timeouts=1", "-ignore_ooms=1", f"-artifact_prefix={work}/"]
        p = subprocess.run(cmd, cwd=work, env=env, stdout=subprocess.PIPE, stderr=subprocess.STDOUT, text=True, errors="replace", timeout=3600)
        out = p.stdout
        m = re.search(r"fuzzed for (\d+) iterations", out)
        execs = int(m.group(1)) if m else 0
        cov = re.findall(r"cov: (\d+) ft: (\d+) corp: (\d+)", out)
        res.evaluations = execs
        if cov:
            res.extra["fuzz_coverage_edges"] = int(cov[-1][0])
            res.extra["fuzz_features"] = int(cov[-1][1])
            res.extra["fuzz_corpus"] = int(cov[-1][2])
        res.extra["fuzz_execs"] = execs
        res.histogram["fuzz.execs"] = execs
        # every corpus entry is a distinct input that reached new coverage
        res.distinct_nontrivial = len(os.listdir(corpus))
        res._hashes = set()
        os.makedirs(os.path.join(common.REPLAYS, "C07-fuzz"), exist_ok=True)
        for art in sorted(glob.glob(os.path.join(work, "crash-*")) + glob.glob(os.path.join(work, "timeout-*"))):
            with open(art, "rb") as fh:
                data = fh.read()
            # re-run the artifact alone to get its own message
            q = subprocess.run([binary, art, "-timeout=60"], cwd=work, env=env, stdout=subprocess.PIPE, stderr=subprocess.STDOUT, text=True, errors="replace")
            msg = ""
            for line in q.stdout.splitlines():
                if "VERIF " in line or "panicked at" in line or "ERROR: AddressSanitizer" in line or "ERROR: libFuzzer" in line:
                    msg = re.sub(r"\d+", "N", line.strip())[:160]
                    break
            if q.returncode == 0:
                continue  # not reproducible alone: says nothing
            kind = "fuzz-timeout" if os.path.basename(art).startswith("timeout-") else "fuzz-crash"
            res.failures.append({"idx": -1, "sig": f"{kind}|{msg}", "detail": {"input": data.decode("utf-8", "replace"), "output": q.stdout[-1200:]},
                                 "replay": {"engine": "front", "src": data.decode("utf-8", "replace"), "kind": "fuzz"}, "build": "fuzz-asan"})
        if execs == 0:
            res.inconclusive.append({"idx": -1, "why": "fuzzer reported no executions", "detail": {"tail": out[-800:]}})
    finally:
        shutil.rmtree(work, ignore_errors=True)
    res.wall = time.time() - t0
    return res


def c07(tier, seed):
    res = common.Result()
    dbg = build("dbg")
    ra = run_engine(dbg, "front", 1000000, seed, {"stage": "A"}, build_name="dbg", timeout_case=30, stall_is="failure", alloc_failure_is="failure")
    stage_a = ra.extra.get("stage_a_size")
    res.absorb(ra)
    rr = run_engine(dbg, "front", 1000000, seed, {"stage": "R"}, build_name="dbg", timeout_case=30, stall_is="failure", alloc_failure_is="failure")
    stage_r = rr.extra.get("stage_r_size")
    res.absorb(rr)
    rs = run_engine(dbg, "front", 1000000, seed, {"stage": "S"}, build_name="dbg", timeout_case=30, stall_is="failure", alloc_failure_is="failure")
    stage_s = rs.extra.get("stage_s_size")
    res.absorb(rs)
    if tier == "quick":
        plan = [(dbg, "dbg", "B", 12), (dbg, "dbg", "C", 700), (dbg, "dbg", "D", 350), (dbg, "dbg", "M", 1500)]
    else:
        asan = build("asan")
        plan = [(dbg, "dbg", "B", 500), (dbg, "dbg", "C", 40000), (dbg, "dbg", "D", 20000), (dbg, "dbg", "M", 60000),
                (asan, "asan", "A", 1000000), (asan, "asan", "S", 1000000), (asan, "asan", "B", 300), (asan, "asan", "C", 20000), (asan, "asan", "D", 10000), (asan, "asan", "M", 20000)]
    for (binary, name, stage, cnt) in plan:
        c = cnt if cnt >= 1000000 else n(cnt)
        res.absorb(run_engine(binary, "front", c, seed, {"stage": stage}, build_name=name, timeout_case=30, stall_is="failure", alloc_failure_is="failure"))
    if tier == "thorough":
        res.absorb(_fuzz_front(seed, n(3000000)))
    triage(res)
    res.extra["stage_a_size"] = stage_a
    res.extra["stage_r_size"] = stage_r
    res.extra["stage_s_size"] = stage_s
    return finish("C07", tier, seed, "exploration", res,
                  "inputs: (A) adjacency matrix enumerated completely: ~95 token texts (every keyword incl. multi-word keywords and their proper prefixes, identifiers, number forms `1.` `1.x` `1x`, strings in both quote styles with every escape / invalid escape / trailing back-slash / unterminated / brace forms, punctuation, comments, unexpected characters) x 22 neighbours (blank, TAB, LF, CR, CRLF, FF, letter, digit, `_`, `.`, quotes, 2/3/4-byte characters, U+0085, U+00A0, NUL, `#`, back-slash) x {before, after, both, at every interior character boundary} x 4 hosts; (R) ~5 000 small programs whose function return types depend on their own inferred types (every operator/method shape around a self call, a mutual call and a call chain, literals of every type on the other side), enumerated completely: the checker's return-type inference must terminate on all of them; (S) every text of the C09 matrix and size families (each documented static rule violated once, in 16 nesting contexts and at sizes 1..14; ~2 500 texts), enumerated completely: the ill-formed but parseable programs are what reaches the checker's error paths; (M) statement-level mutations of generated valid programs (a statement - function definitions with their bodies included - duplicated, deleted, swapped with another or moved into another block, 1-3 times), which stay parseable but lose, double or reorder declarations; (B) every prefix and every single-character deletion of generated valid programs; (C) 1-4 token-level mutations (delete, duplicate, swap, insert junk/multi-byte, replace) of valid programs; (D) random concatenations of tokens and junk. Oracle per input: lex+parse (+ static check after a clean parse, as shipped) must return without panic/abort/signal/sanitizer report; every diagnostic span and label span must satisfy start <= end <= len with both ends on character boundaries; the set must render with render_ansi to valid UTF-8; a worker making no progress for 30 s fails the case (typical input: 50 us), and so does exhausting the 256 MiB arenas on these tiny inputs. Non-trivial = produced at least one diagnostic or contains a multi-byte character; distinct = hash of the text",
                  ["inputs are at most ~1 KiB: larger inputs only multiply diagnostics (the renderer allocates O(len) per diagnostic, so huge garbage ends in arena exhaustion, a resource outcome)",
                   "the static checker is run only after a clean parse, which is how every shipped entry point wires it",
                   "the clause 'a text is only executed if it produced no error-level diagnostic' is decided through the CLI in C14"],
                  min_nontrivial=1000, exhaustive=True)


def c10(tier, seed):
    res = common.Result()
    if tier == "quick":
        res.absorb(run_engine(build("dbg"), "layout", n(10000), seed, {}, build_name="dbg"))
    else:
        res.absorb(run_engine(build("rel"), "layout", n(300000), seed, {}, build_name="rel"))
        res.absorb(run_engine(build("dbg"), "layout", n(30000), seed + 3, {}, build_name="dbg"))
    triage(res)
    return finish("C10", tier, seed, "exploration", res,
                  "generated programs (one in ten made statically invalid) printed from their token list in the conventional layout and in 8 re-layouts: single line; one token per line with LF, CRLF, lone CR; tabs; no blank where none is needed; comments (containing keywords, quotes, `#`, back-slashes, multi-byte characters) after random tokens with each line ending; random mixtures of blanks, tabs, form feeds, blank lines and comments, with the words of `if to say` / `if not so` / `small pass` separated by arbitrary white-space runs; plus a variant with redundant parentheses around random sub-expressions. Precondition checked with the crate's own lexer: the re-layout must lex to the identical token sequence, otherwise it is discarded and counted. Oracle: acceptance, printed values and ending must equal those of the conventional layout. Non-trivial = at least 6 re-layouts compared, the program contains a multi-word keyword and at least one statement boundary that only token kinds mark; distinct = hash of the conventional text",
                  ["the oracle is the program itself; the token-sequence precondition trusts the crate's lexer only to compare two texts, not to be right",
                   "comments are never placed between the words of a multi-word keyword (the property allows only white space there)"],
                  min_nontrivial=50)


def c09(tier, seed):
    res = common.Result()
    dbg = build("dbg")
    rm = run_engine(dbg, "static", 1000000, seed, {"stage": "matrix"}, build_name="dbg")
    matrix = {k: rm.extra.get(k) for k in ("matrix_size", "rules", "contexts")}
    res.absorb(rm)
    rf = run_engine(dbg, "static", 1000000, seed, {"stage": "family"}, build_name="dbg")
    matrix.update({k: rf.extra.get(k) for k in ("family_cases", "family_max_n")})
    res.absorb(rf)
    if tier == "quick":
        res.absorb(run_engine(dbg, "static", n(4000), seed, {"stage": "random"}, build_name="dbg"))
    else:
        res.absorb(run_engine(build("rel"), "static", n(100000), seed, {"stage": "random"}, build_name="rel"))
        res.absorb(run_engine(dbg, "static", n(20000), seed + 11, {"stage": "random"}, build_name="dbg"))
    triage(res)
    res.extra.update(matrix)
    return finish("C09", tier, seed, "exploration", res,
                  "stage matrix (enumerated completely on every run): 84 snippets (77 single-rule violations of the documented static rules: undeclared read/write/placeholder in statement, argument, array, index and condition position, use before `make`, use after the declaring block, use of a callee's local or parameter, unknown function, function of a sibling/inner block, arity +-1 for user functions, global built-ins and methods of literally typed receivers, comot/next outside a loop, return outside a function, duplicate function, duplicate parameter, reserved or built-in name as variable/function/parameter, literally mistyped operand of every operator class, non-boolean condition, non-array index base, non-number index, unknown method of a literal receiver; and 7 valid controls) x 16 nesting contexts (top level, nested blocks, if/else arms, loops, functions, function defined in a loop, loop in a function, function in a function, after return, after comot). Expected verdict per cell from the documented rule (comot/next are valid exactly inside a loop of the same function body, return exactly inside a function). A violating cell must be rejected with an error diagnostic whose category text equals the crate's own category string for that rule; a valid cell must be accepted. Stage family (enumerated completely on every run): the same rules at growing size n = 1..14 - a statically known return type reaching its use through a chain of n functions in three definition orders, comot/next at every level of n nested loops, a function body inside n loops, a name used n blocks below or above its declaration, n parameters with arity n, n+1, n-1 and a repeated parameter, n same-block re-declarations with alternating types, a duplicate function after n others, n nested functions - with valid controls of the same shape; the expected verdict does not depend on n. Stage random: the same snippets inserted at a random position of a random block of generated valid programs (which themselves must be accepted). Non-trivial = the snippet sits at nesting depth >= 1; distinct = hash of the text",
                  ["category strings are taken from the crate (SemanticError::X.as_str()), so rewording is not an alarm but a swapped category is",
                   "extra cascaded diagnostics are allowed; only the presence of the expected category is required",
                   "type rules are asserted only on literals and on variables declared by a literal and never reassigned"],
                  min_nontrivial=500, exhaustive=True)


def c14(tier, seed):
    import shutil
    import tempfile
    res = common.Result()
    dbg = build("dbg")
    scratch = tempfile.mkdtemp(prefix="c14-", dir=os.path.join(common.VERIF, "run"))
    try:
        if tier == "quick":
            plan = [("cli-dbg", 600)]
            seqs = 600
        else:
            plan = [("cli-dbg", 4000), ("cli-rel", 4000)]
            seqs = 15000
        for kind, cnt in plan:
            naija = build(kind)
            res.absorb(run_engine(dbg, "ship", n(cnt), seed, {"stage": "cli", "naija": naija, "scratch": scratch}, build_name=kind, timeout_case=120))
        # the shipped binary under AddressSanitizer with the arena/pool lifetime poisoning hooks: a read
        # of scratch memory after its phase has given it back traps even when the output is unaffected
        asan_cli = build("cli-asan")
        res.absorb(run_engine(dbg, "ship", n(300 if tier == "quick" else 6000), seed + 17, {"stage": "cli", "naija": asan_cli, "scratch": scratch}, build_name="cli-asan", timeout_case=180))
        asan = build("asan")
        res.absorb(run_engine(asan, "ship", n(300 if tier == "quick" else 6000), seed + 23, {"stage": "playground", "scratch": scratch}, build_name="asan-playground", timeout_case=180))
        res.absorb(run_engine(dbg, "ship", n(seqs), seed, {"stage": "playground", "scratch": scratch}, build_name="dbg-playground", timeout_case=120))
        if tier == "thorough":
            rel = build("rel")
            res.absorb(run_engine(rel, "ship", n(seqs), seed + 9, {"stage": "playground", "scratch": scratch}, build_name="rel-playground", timeout_case=120))
    finally:
        shutil.rmtree(scratch, ignore_errors=True)
    triage(res)
    return finish("C14", tier, seed, "exploration", res,
                  "stage cli: generated programs (profiles core/mem/dead/scope/array; about 4 in 12 made to fail: undeclared variable, syntax error, lexical errors, unbounded recursion, plus large allocations that force commit/decommit) each run through the real `naija` binary as a file, with --eval and on standard input (`naija -`); stdout must equal byte for byte what the library pipeline with separate arenas computes (rendered checker warnings, the shout lines, the rendered runtime error; for Stack overflow everything before the runtime diagnostic), the exit status must be 0 exactly when nothing failed, and a rejected text must not print its leading marker. Stage playground: a native derivation of wasm/src/lib.rs (text of the file, wasm-only lines dropped) runs sequences of 2-9 such programs back to back in one process, re-initialising the scratch arenas per run as the playground does; every element must equal its own result in a fresh process, and a second run in the fresh process must equal the first. Non-trivial (cli) = the program is rejected, or exercises at least one frame reset and prints at least two values; (playground) = the sequence contains a failing element followed by a passing one; distinct = hash of the text(s)"
                  + " Additions: every fourth text is also delivered on standard input in 2-4 bursts cut at arbitrary byte offsets; 38 edge texts run first (empty, blank, comment-only, no final line break, CRLF, lone quote, numbers at the edges of the formatter printed directly/nested/interpolated, five child-process scripts); two in five generated texts use CRLF or a lone CR as line break (compared with the library run of the same bytes); the same stage is repeated with the CLI built with AddressSanitizer and the arena/pool lifetime-poisoning hooks (build cli-asan: same sources and wiring, symbols kept, no LTO), where any sanitizer report is a violation `cli-asan|kind|frames` even if the output is right, and the playground stage is repeated on the ASan worker.",
                  ["the implicit no-argument stdin form of the CLI never reaches run_stdin (clap's arg_required_else_help prints usage, exit 2); `naija -` is the stdin mode compared",
                   "the playground is exercised through a native derivation of wasm/src/lib.rs (no wasm32 target here): WasmVirtualMemory and the 512 KiB wasm stack budget are not executed",
                   "which expression of a recursion cycle trips the native stack budget depends on frame sizes, so for Stack overflow endings only the text before the runtime diagnostic and the presence of the diagnostic are compared"],
                  min_nontrivial=30)


def c18(tier, seed):
    import shutil
    import tempfile
    res = common.Result()
    rel = build("rel")
    scratch = tempfile.mkdtemp(prefix="c18-", dir=os.path.join(common.VERIF, "run"))
    try:
        if tier == "quick":
            # the small families (source below 600 kB) also go through the release CLI in the quick tier
            naija = build("cli-rel")
            res.absorb(run_engine(rel, "limits", 64, seed, {"skip-slow": 1, "naija": naija, "scratch": scratch, "cli-max-source": 600000}, nshards=12, build_name="rel+cli-rel", timeout_case=900))
        else:
            naija = build("cli-rel")
            res.absorb(run_engine(rel, "limits", 64, seed, {"naija": naija, "scratch": scratch}, nshards=12, build_name="rel+cli-rel", timeout_case=1800))
            res.absorb(run_engine(build("dbg"), "limits", 64, seed, {}, nshards=12, build_name="dbg", timeout_case=3600))
        dense = run_engine(rel, "limits", 64, seed, {"stage": "dense", "dense-max": 420 if tier == "quick" else 1000}, nshards=16, build_name="rel", timeout_case=1800)
        res.absorb(dense)
    finally:
        shutil.rmtree(scratch, ignore_errors=True)
    triage(res)
    table = [r for r in res.records if "position" in r]
    res.extra["probe_table"] = [{k: r.get(k) for k in ("family", "target", "position", "size", "over", "crate_says", "analysis_warnings", "semantic_warnings", "plan_present", "skipped", "source_bytes")} | {"metric": (r.get("metrics") or {}).get(r.get("target"))} for r in table]
    res.extra["searches"] = [r for r in res.records if "first_size_over" in r or "note" in r]
    res.extra["dense_table"] = sorted([r for r in res.records if "dense" in r], key=lambda r: (r["dense"], r["size"]))
    return finish("C18", tier, seed, "exploration", res,
                  "one parametric program family per analysis metric (statements, cfg ops, ops in one function, functions, locals via a huge parameter list, scopes via empty blocks, direct user calls, blocks in one function via empty loops, total cfg blocks via loops spread over functions, and the two derived bounds summary events and liveness events); for each, the size at which the observed metric (counted with the crate's public cfg::count_program and ProgramFacts) first exceeds its default cap is found by search, and the programs just below, at and just above are run with 16 GiB of reserved address space per arena. Contract evaluated on what was observed: accepted; prints exactly the known result; if no metric exceeds its cap: no resource-limit warning, a plan, the sentinel warnings (one certainly unused variable, one certainly unreachable statement) and at least one statement skipped at run time; otherwise: exactly one `analysis` warning, no semantic warnings, no plan, nothing skipped; and the crate's own first_exceeded_limit must agree with the caps on whether anything is exceeded. probe_table in this file lists, per cap, which metric actually fired below/at/above it (several caps are pre-empted by another bound). Stage dense: programs far below every cap whose call graph is hard for the interprocedural analyses (rings, chains and two-callee graphs of n = 24..420 functions, 900 in the thorough tier, in both definition orders, with and without writes to a global) followed by a fixed tail of statements (two dead stores around a call into the graph, a live store, an unused variable, unreachable code): accepted, right result, no limit warning, a plan, and the warnings reported on the tail and the number of statements skipped at run time equal those of the same shape with n = 3 (dense_table). Non-trivial = the targeted metric is within +-1 of its cap, or a dense program with n >= 90; distinct = (family, metric, size)",
                  ["caps are read from analysis::limits::DEFAULT_CAPS; metrics are the implementation's own counts (public API), the contract on them is the oracle",
                   "the library run reserves 16 GiB of address space per arena (PROT_NONE; only touched pages are committed); the thorough tier additionally runs every within-cap program through the release CLI with its 256 MiB scratch arenas",
                   "expected outputs are known by construction (counters and fixed markers)"],
                  min_nontrivial=10)


CHECKS = {
    "C18": c18,
    "C14": c14,
    "C09": c09,
    "C10": c10,
    "C07": c07,
    "C06": c06,
    "C02": c02,
    "C03": c03,
    "C01": c01,
    "C04": c04,
    "C05": c05,
}

# Properties whose check lives in its own module vlib/p_cXX.py (function run(tier, seed)).
import importlib  # noqa: E402

for _i in range(1, 19):
    _pid = f"C{_i:02d}"
    if _pid in CHECKS:
        continue
    try:
        _m = importlib.import_module(f"vlib.p_{_pid.lower()}")
    except ModuleNotFoundError:
        continue
    CHECKS[_pid] = _m.run
