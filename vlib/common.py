"""Orchestration shared by all checks: builds, worker pool, verdicts, evidence, known findings."""
import array
import fcntl
import json
import os
import shutil
import signal
import subprocess
import sys
import tempfile
import threading
import time
import zlib

VERIF = os.path.dirname(os.path.dirname(os.path.abspath(__file__)))
REPO = "/repo"
HARNESS = os.path.join(VERIF, "harness")
TARGET = os.path.join(VERIF, "target")
EVIDENCE = os.path.join(VERIF, "evidence")
REPLAYS = os.path.join(VERIF, "replays")
NCPU = min(16, os.cpu_count() or 4)

ENV_BASE = dict(os.environ)
ENV_BASE.update({
    "CARGO_NET_OFFLINE": "true",
    "RUST_BACKTRACE": "0",
})
ENV_BASE.pop("RUSTFLAGS", None)

ASAN_OPTIONS = "detect_stack_use_after_return=0:detect_leaks=0:halt_on_error=1:abort_on_error=1:allocator_may_return_null=1:symbolize=1"


def log(*a):
    print(*a, file=sys.stderr, flush=True)


# ---------------------------------------------------------------------------
# Builds (always from /repo's current working tree; cargo decides freshness)
# ---------------------------------------------------------------------------

class BuildError(Exception):
    pass


def _locked(name):
    os.makedirs(TARGET, exist_ok=True)
    f = open(os.path.join(TARGET, f".lock-{name}"), "w")
    fcntl.flock(f, fcntl.LOCK_EX)
    return f


def _cargo(args, cwd, env, what):
    t0 = time.time()
    p = subprocess.run(["cargo"] + args, cwd=cwd, env=env, stdout=subprocess.PIPE, stderr=subprocess.STDOUT, text=True)
    if p.returncode != 0:
        tail = "\n".join(p.stdout.splitlines()[-40:])
        raise BuildError(f"build {what} failed:\n{tail}")
    log(f"[build] {what}: {time.time() - t0:.1f}s")


def build(kind):
    """kind: dbg | rel | asan | cli-dbg | cli-rel. Returns the path of the binary."""
    lock = _locked(kind)
    try:
        env = dict(ENV_BASE)
        if kind == "dbg":
            env["CARGO_TARGET_DIR"] = os.path.join(TARGET, "dbg")
            _cargo(["build", "--offline", "--bins"], HARNESS, env, kind)
            return os.path.join(TARGET, "dbg", "debug", "nsworker")
        if kind == "rel":
            env["CARGO_TARGET_DIR"] = os.path.join(TARGET, "rel")
            _cargo(["build", "--offline", "--release", "--bins"], HARNESS, env, kind)
            return os.path.join(TARGET, "rel", "release", "nsworker")
        if kind == "asan":
            env["CARGO_TARGET_DIR"] = os.path.join(TARGET, "asan")
            env["RUSTFLAGS"] = "-Zsanitizer=address -Cforce-frame-pointers=yes"
            _cargo(["build", "--offline", "--release", "--bins", "--features", "asan", "--target", "x86_64-unknown-linux-gnu"], HARNESS, env, kind)
            return os.path.join(TARGET, "asan", "x86_64-unknown-linux-gnu", "release", "nsworker")
        if kind == "fuzz":
            # cargo-fuzz target for C07 stage F (libFuzzer + ASan); `cargo fuzz` rejects --offline, the env var does it
            env["CARGO_TARGET_DIR"] = os.path.join(TARGET, "fuzz")
            t0 = time.time()
            p = subprocess.run(["cargo", "+nightly", "fuzz", "build", "--fuzz-dir", ".", "front"], cwd=os.path.join(HARNESS, "fuzz"), env=env,
                               stdout=subprocess.PIPE, stderr=subprocess.STDOUT, text=True)
            if p.returncode != 0:
                raise BuildError("build fuzz failed:\n" + "\n".join(p.stdout.splitlines()[-40:]))
            log(f"[build] fuzz: {time.time() - t0:.1f}s")
            return os.path.join(TARGET, "fuzz", "x86_64-unknown-linux-gnu", "release", "front")
        if kind == "cli-dbg":
            env["CARGO_TARGET_DIR"] = os.path.join(TARGET, "cli")
            _cargo(["build", "--offline", "--bin", "naija"], REPO, env, kind)
            return os.path.join(TARGET, "cli", "debug", "naija")
        if kind == "cli-rel":
            env["CARGO_TARGET_DIR"] = os.path.join(TARGET, "cli")
            _cargo(["build", "--offline", "--release", "--bin", "naija"], REPO, env, kind)
            return os.path.join(TARGET, "cli", "release", "naija")
        if kind == "cli-asan":
            # the shipped binary with AddressSanitizer and the arena/pool lifetime poisoning hooks
            env["CARGO_TARGET_DIR"] = os.path.join(TARGET, "cli-asan")
            env["RUSTFLAGS"] = "-Zsanitizer=address -Cforce-frame-pointers=yes"
            # the repo's release profile strips symbols and uses fat LTO: keep the symbols for the reports and
            # skip LTO for build time (same sources and wiring, overridden through the environment only)
            env.update({"CARGO_PROFILE_RELEASE_STRIP": "none", "CARGO_PROFILE_RELEASE_SPLIT_DEBUGINFO": "off",
                        "CARGO_PROFILE_RELEASE_LTO": "false", "CARGO_PROFILE_RELEASE_CODEGEN_UNITS": "16"})
            _cargo(["+nightly", "build", "--offline", "--release", "--bin", "naija", "--features", "verif-asan", "--target", "x86_64-unknown-linux-gnu"], REPO, env, kind)
            return os.path.join(TARGET, "cli-asan", "x86_64-unknown-linux-gnu", "release", "naija")
        raise ValueError(kind)
    finally:
        lock.close()


def vhelper(kind="dbg"):
    worker = build(kind)
    return os.path.join(os.path.dirname(worker), "vhelper")


# ---------------------------------------------------------------------------
# Worker pool
# ---------------------------------------------------------------------------

class Result:
    def __init__(self):
        self.evaluations = 0
        self.nontrivial_raw = 0
        self.distinct_nontrivial = 0
        self.inconclusive = []      # records
        self.failures = []          # records {idx, sig, detail, replay, build}
        self.discarded = 0
        self.histogram = {}
        self.samples = []
        self.extra = {}
        self.records = []
        self.crashes = 0
        self.wall = 0.0
        self.builds = []

    def merge_summary(self, s):
        self.evaluations += s.get("evaluations", 0)
        self.nontrivial_raw += s.get("nontrivial", 0)
        self.discarded += s.get("discarded", 0)
        for k, v in s.get("histogram", {}).items():
            self.histogram[k] = self.histogram.get(k, 0) + v
        for smp in s.get("samples", []):
            if len(self.samples) < 6:
                self.samples.append(smp)
        for k, v in s.get("extra", {}).items():
            if isinstance(v, (int, float)) and isinstance(self.extra.get(k, 0), (int, float)):
                self.extra[k] = self.extra.get(k, 0) + v
            else:
                self.extra.setdefault(k, v)

    def absorb(self, other):
        self.evaluations += other.evaluations
        self.nontrivial_raw += other.nontrivial_raw
        self.distinct_nontrivial += other.distinct_nontrivial
        self.inconclusive += other.inconclusive
        self.failures += other.failures
        self.discarded += other.discarded
        for k, v in other.histogram.items():
            self.histogram[k] = self.histogram.get(k, 0) + v
        for s in other.samples:
            if len(self.samples) < 8:
                self.samples.append(s)
        for k, v in other.extra.items():
            if isinstance(v, (int, float)) and isinstance(self.extra.get(k, 0), (int, float)):
                self.extra[k] = self.extra.get(k, 0) + v
            else:
                self.extra.setdefault(k, v)
        self.records += other.records
        self.crashes += other.crashes
        self.builds += other.builds
        self.wall += other.wall


def classify_death(rc, stderr_tail):
    """Maps a worker death to (kind, text). Resource outcomes are not violations."""
    text = stderr_tail
    if "memory allocation of" in text and "failed" in text:
        # a request far beyond any arena (>= 1 TiB) is a corrupted length, not memory pressure
        import re
        m = re.search(r"memory allocation of (\d+) bytes failed", text)
        if m and int(m.group(1)) >= (1 << 40):
            return "corrupt-allocation-size", text
        return "resource", "allocation failure abort"
    if "AddressSanitizer" in text:
        return "asan", text
    if "has overflowed its stack" in text:
        return "native-stack-overflow", text
    if rc is not None and rc < 0:
        try:
            name = signal.Signals(-rc).name
        except ValueError:
            name = str(-rc)
        if name in ("SIGTERM", "SIGKILL", "SIGINT", "SIGHUP"):
            # delivered from outside (operator, OOM killer): not something the code under test did
            return "resource", f"worker killed from outside by {name}"
        return f"signal-{name}", text
    return f"exit-{rc}", text


def asan_signature(text):
    """access kind + first in-repo frames."""
    kind = "asan"
    for line in text.splitlines():
        if "ERROR: AddressSanitizer:" in line:
            kind = line.split("AddressSanitizer:")[1].split()[0]
            break
    frames = []
    for line in text.splitlines():
        line = line.strip()
        if line.startswith("#") and " in " in line:
            fn = line.split(" in ", 1)[1].split(" ")[0]
            if "naijascript" in fn:
                # strip hashes
                fn = fn.split("::h")[0] if "::h" in fn else fn
                frames.append(fn)
        if len(frames) >= 3:
            break
    return kind + "|" + "|".join(frames)


def run_engine(binary, engine, count, seed, opts=None, nshards=None, env_extra=None, timeout_case=120, build_name="dbg", stall_is="inconclusive", alloc_failure_is="inconclusive"):
    """Runs `count` cases of `engine` over a pool of worker processes. A worker that dies is
    restarted after the case it died in; that case becomes a failure (crash) or inconclusive
    (resource / watchdog)."""
    opts = dict(opts or {})
    nshards = nshards or min(NCPU, max(1, count))
    res = Result()
    res.builds.append(build_name)
    t0 = time.time()
    run_dir = tempfile.mkdtemp(prefix="vrun-", dir=os.path.join(VERIF, "run") if os.path.isdir(os.path.join(VERIF, "run")) else None)
    env = dict(ENV_BASE)
    env["ASAN_OPTIONS"] = ASAN_OPTIONS
    if env_extra:
        env.update(env_extra)
    lock = threading.Lock()

    def shard_thread(shard):
        start = 0
        hash_path = os.path.join(run_dir, f"hashes-{shard}.bin")
        while True:
            cmd = [binary, engine, "--seed", str(seed), "--shard", str(shard), "--nshards", str(nshards),
                   "--count", str(count), "--start", str(start), "--hashes", hash_path]
            for k, v in opts.items():
                cmd += [f"--{k}", str(v)]
            errf = open(os.path.join(run_dir, f"stderr-{shard}.txt"), "wb")
            p = subprocess.Popen(cmd, stdin=subprocess.DEVNULL, stdout=subprocess.PIPE, stderr=errf, env=env, cwd=VERIF)
            last_begin = None
            finished = False
            last_activity = [time.time()]
            killed_for_stall = [False]

            def watchdog():
                while p.poll() is None:
                    time.sleep(1.0)
                    if time.time() - last_activity[0] > timeout_case:
                        killed_for_stall[0] = True
                        try:
                            p.kill()
                        except OSError:
                            pass
                        return
            wd = threading.Thread(target=watchdog, daemon=True)
            wd.start()
            for raw in p.stdout:
                last_activity[0] = time.time()
                line = raw.decode("utf-8", "replace").rstrip("\n")
                if not line:
                    continue
                tag, _, body = line.partition(" ")
                if tag == "B":
                    last_begin = int(body)
                elif tag == "F":
                    rec = json.loads(body)
                    rec["build"] = build_name
                    with lock:
                        res.failures.append(rec)
                elif tag == "I":
                    with lock:
                        res.inconclusive.append(json.loads(body))
                elif tag == "R":
                    with lock:
                        res.records.append(json.loads(body))
                elif tag == "S":
                    with lock:
                        res.merge_summary(json.loads(body))
                elif tag == "Z":
                    finished = True
            rc = p.wait()
            errf.close()
            if finished and rc == 0:
                return
            # worker died
            with open(os.path.join(run_dir, f"stderr-{shard}.txt"), "rb") as f:
                whole = f.read()
            # sanitizer reports are long (shadow dump): keep the head of the last report too
            k = whole.rfind(b"ERROR: AddressSanitizer")
            if k >= 0:
                tail = whole[k:k + 6000].decode("utf-8", "replace")
            else:
                tail = whole[-6000:].decode("utf-8", "replace")
            with lock:
                res.crashes += 1
            if last_begin is None:
                with lock:
                    res.inconclusive.append({"idx": -1, "why": "worker died before the first case", "detail": {"rc": rc, "stderr": tail[-800:]}})
                return
            if killed_for_stall[0]:
                rec = {"idx": last_begin, "why": f"no progress for {timeout_case}s (watchdog)", "detail": {}}
                with lock:
                    if stall_is == "failure":
                        res.failures.append({"idx": last_begin, "sig": "stall", "detail": {"seconds": timeout_case}, "replay": {"engine": engine, "seed": seed, "idx": last_begin, "opts": opts}, "build": build_name})
                    else:
                        res.inconclusive.append(rec)
            else:
                kind, text = classify_death(rc, tail)
                if kind == "resource" and alloc_failure_is == "failure" and "allocation failure" in text:
                    # inputs of this engine are tiny: exhausting the arena on them is a defect, not memory pressure
                    with lock:
                        res.failures.append({"idx": last_begin, "sig": "arena-exhausted-on-small-input", "detail": {"stderr": tail[-600:]},
                                             "replay": {"engine": engine, "seed": seed, "idx": last_begin, "opts": opts}, "build": build_name})
                elif kind == "resource":
                    with lock:
                        res.inconclusive.append({"idx": last_begin, "why": text, "detail": {}})
                else:
                    sig = asan_signature(text) if kind == "asan" else f"crash|{kind}|" + _first_panic_line(text[-2000:])
                    with lock:
                        res.failures.append({"idx": last_begin, "sig": sig, "detail": {"death": kind, "stderr": text[-1500:]},
                                             "replay": {"engine": engine, "seed": seed, "idx": last_begin, "opts": opts}, "build": build_name})
            start = last_begin + 1
            # continue with next case

    threads = [threading.Thread(target=shard_thread, args=(s,)) for s in range(nshards)]
    for t in threads:
        t.start()
    for t in threads:
        t.join()
    # distinct non-trivial across shards
    hashes = set()
    for s in range(nshards):
        hp = os.path.join(run_dir, f"hashes-{s}.bin")
        if os.path.exists(hp):
            a = array.array("Q")
            with open(hp, "rb") as f:
                data = f.read()
            a.frombytes(data[: len(data) // 8 * 8])
            hashes.update(a)
    res.distinct_nontrivial = len(hashes)
    res._hashes = hashes
    shutil.rmtree(run_dir, ignore_errors=True)
    res.wall = time.time() - t0
    return res


def _first_panic_line(text):
    for line in text.splitlines():
        if "panicked at" in line:
            return line.strip()[:200]
    for line in reversed(text.splitlines()):
        if line.strip():
            return line.strip()[:200]
    return ""


# ---------------------------------------------------------------------------
# Known findings
# ---------------------------------------------------------------------------

def load_findings():
    path = os.path.join(VERIF, "known_findings.json")
    if not os.path.exists(path):
        return []
    with open(path) as f:
        return json.load(f).get("findings", [])


def finding_for(prop, sig, findings):
    for f in findings:
        if f.get("property") == prop and f.get("status") == "known" and f.get("signature") == sig:
            return f
    return None


# ---------------------------------------------------------------------------
# Verdict + evidence
# ---------------------------------------------------------------------------

def finish(prop, tier, seed, level, res, rule, assumptions, min_nontrivial=2, extra_cov=None, exhaustive=False):
    """Writes evidence, prints VIOLATION / KNOWN-FINDING lines, returns the exit code."""
    findings = load_findings()
    os.makedirs(EVIDENCE, exist_ok=True)
    shutil.rmtree(os.path.join(REPLAYS, prop), ignore_errors=True)
    os.makedirs(os.path.join(REPLAYS, prop), exist_ok=True)
    by_sig = {}
    for f in res.failures:
        by_sig.setdefault(f["sig"], []).append(f)
    violations = 0
    known_hits = {}
    lines = []
    for sig, recs in sorted(by_sig.items()):
        kf = finding_for(prop, sig, findings)
        if kf is not None:
            known_hits[sig] = (kf, len(recs))
            continue
        violations += 1
        recs.sort(key=lambda r: len(json.dumps(r.get("replay", {}))))
        rec = recs[0]
        name = "".join(c if c.isalnum() else "_" for c in sig)[:70] + "_%08x" % (zlib.crc32(sig.encode()) & 0xffffffff)
        path = os.path.join(REPLAYS, prop, f"{name}.json")
        with open(path, "w") as f:
            json.dump({"property": prop, "signature": sig, "count": len(recs), "tier": tier, "seed": seed, **rec}, f, indent=1, ensure_ascii=False)
        lines.append(f"VIOLATION property={prop} replay={path}")
        log(f"[{prop}] violation signature: {sig}  ({len(recs)} case(s))")
    for sig, (kf, n) in sorted(known_hits.items()):
        print(f"KNOWN-FINDING: property={prop} {kf.get('what', sig)} [signature {sig}; seen {n}x]")
    for line in lines:
        print(line)

    cov = {
        "evaluations": int(res.evaluations),
        "distinct_nontrivial": int(res.distinct_nontrivial),
        "rule": rule,
        "samples": res.samples[:6] if res.samples else [],
        "exhaustive": bool(exhaustive),
        "nontrivial_before_dedup": int(res.nontrivial_raw),
        "discarded_by_precondition": int(res.discarded),
        "inconclusive": len(res.inconclusive),
        "inconclusive_samples": res.inconclusive[:5],
        "worker_restarts": res.crashes,
        "histogram": dict(sorted(res.histogram.items())),
        "builds": sorted(set(res.builds)),
        "known_findings_seen": {sig: n for sig, (kf, n) in known_hits.items()},
        "violation_signatures": sorted(s for s in by_sig if s not in known_hits),
    }
    cov.update(res.extra)
    if extra_cov:
        cov.update(extra_cov)
    broken = False
    if cov["evaluations"] < 1 or cov["distinct_nontrivial"] < min_nontrivial or not cov["samples"]:
        broken = True
    ev = {
        "property_id": prop,
        "tier": tier,
        "seed": int(seed),
        "level": level,
        "coverage": cov,
        "assumptions": assumptions,
        "wall_s": round(res.wall, 2),
        "violations": violations,
    }
    with open(os.path.join(EVIDENCE, f"{prop}.json"), "w") as f:
        json.dump(ev, f, indent=1, ensure_ascii=False, sort_keys=False)
    log(f"[{prop}] tier={tier} seed={seed} evaluations={cov['evaluations']} distinct_nontrivial={cov['distinct_nontrivial']} "
        f"violations={violations} known={len(known_hits)} inconclusive={len(res.inconclusive)} restarts={res.crashes} wall={res.wall:.1f}s")
    if violations:
        return 1
    if broken:
        log(f"[{prop}] BROKEN RUN: the monitors observed too little (evaluations={cov['evaluations']}, distinct_nontrivial={cov['distinct_nontrivial']}); this is not a pass")
        return 3
    return 0


def seed_from_env():
    try:
        return int(os.environ.get("VERIF_SEED", "1"))
    except ValueError:
        return 1
